"""IANA registry oracle for C17 / C05, transcribed by hand from the IANA TLS parameter registries
(tls-parameters, tls-extensiontype-values), RFC 8446, 8422, 7919, 8734, 8998, 6520, 6066, 6962, 5246.
Keys are the crate's constant names (the NAME a value prints as); values are the IANA code points.
Never derived from /repo/src."""

REGISTRIES = {
    # type: (rust path, width in bits, prints names via Display/Debug?, {ConstName: value})
    "TlsRecordType": ("TlsRecordType", 8, "debug", {
        "ChangeCipherSpec": 20, "Alert": 21, "Handshake": 22, "ApplicationData": 23, "Heartbeat": 24}),
    "TlsHandshakeType": ("TlsHandshakeType", 8, "debug", {
        "HelloRequest": 0, "ClientHello": 1, "ServerHello": 2, "HelloVerifyRequest": 3, "NewSessionTicket": 4,
        "EndOfEarlyData": 5, "HelloRetryRequest": 6, "EncryptedExtensions": 8, "Certificate": 11,
        "ServerKeyExchange": 12, "CertificateRequest": 13, "ServerDone": 14, "CertificateVerify": 15,
        "ClientKeyExchange": 16, "Finished": 20, "CertificateURL": 21, "CertificateStatus": 22, "KeyUpdate": 24,
        "NextProtocol": 67}),
    "TlsVersion": ("TlsVersion", 16, "debug", {
        "Ssl30": 0x0300, "Tls10": 0x0301, "Tls11": 0x0302, "Tls12": 0x0303, "Tls13": 0x0304,
        "Tls13Draft18": 0x7f12, "Tls13Draft19": 0x7f13, "Tls13Draft20": 0x7f14, "Tls13Draft21": 0x7f15,
        "Tls13Draft22": 0x7f16, "Tls13Draft23": 0x7f17, "DTls10": 0xfeff, "DTls12": 0xfefd}),
    "TlsHeartbeatMessageType": ("TlsHeartbeatMessageType", 8, "debug", {"HeartBeatRequest": 1, "HeartBeatResponse": 2}),
    "TlsCompressionID": ("TlsCompressionID", 8, "debug", {"Null": 0, "Deflate": 1}),
    "TlsAlertSeverity": ("TlsAlertSeverity", 8, "display", {"Warning": 1, "Fatal": 2}),
    "TlsAlertDescription": ("TlsAlertDescription", 8, "display", {
        "CloseNotify": 0, "UnexpectedMessage": 10, "BadRecordMac": 20, "DecryptionFailed": 21, "RecordOverflow": 22,
        "DecompressionFailure": 30, "HandshakeFailure": 40, "NoCertificate": 41, "BadCertificate": 42,
        "UnsupportedCertificate": 43, "CertificateRevoked": 44, "CertificateExpired": 45, "CertificateUnknown": 46,
        "IllegalParameter": 47, "UnknownCa": 48, "AccessDenied": 49, "DecodeError": 50, "DecryptError": 51,
        "ExportRestriction": 60, "ProtocolVersion": 70, "InsufficientSecurity": 71, "InternalError": 80,
        "InappropriateFallback": 86, "UserCancelled": 90, "NoRenegotiation": 100, "MissingExtension": 109,
        "UnsupportedExtension": 110, "CertUnobtainable": 111, "UnrecognizedName": 112, "BadCertStatusResponse": 113,
        "BadCertHashValue": 114, "UnknownPskIdentity": 115, "CertificateRequired": 116, "NoApplicationProtocol": 120}),
    "TlsExtensionType": ("TlsExtensionType", 16, "display", {
        "ServerName": 0, "MaxFragmentLength": 1, "ClientCertificate": 2, "TrustedCaKeys": 3, "TruncatedHMac": 4,
        "StatusRequest": 5, "UserMapping": 6, "ClientAuthz": 7, "ServerAuthz": 8, "CertType": 9, "SupportedGroups": 10,
        "EcPointFormats": 11, "Srp": 12, "SignatureAlgorithms": 13, "UseSrtp": 14, "Heartbeat": 15,
        "ApplicationLayerProtocolNegotiation": 16, "StatusRequestv2": 17, "SignedCertificateTimestamp": 18,
        "ClientCertificateType": 19, "ServerCertificateType": 20, "Padding": 21, "EncryptThenMac": 22,
        "ExtendedMasterSecret": 23, "TokenBinding": 24, "CachedInfo": 25, "RecordSizeLimit": 28, "SessionTicketTLS": 35,
        "KeyShareOld": 40, "PreSharedKey": 41, "EarlyData": 42, "SupportedVersions": 43, "Cookie": 44,
        "PskExchangeModes": 45, "TicketEarlyDataInfo": 46, "CertificateAuthorities": 47, "OidFilters": 48,
        "PostHandshakeAuth": 49, "SigAlgorithmsCert": 50, "KeyShare": 51, "NextProtocolNegotiation": 13172,
        "RenegotiationInfo": 0xff01, "EncryptedServerName": 0xffce}),
    "NamedGroup": ("NamedGroup", 16, "debug", {
        "Sect163k1": 1, "Sect163r1": 2, "Sect163r2": 3, "Sect193r1": 4, "Sect193r2": 5, "Sect233k1": 6, "Sect233r1": 7,
        "Sect239k1": 8, "Sect283k1": 9, "Sect283r1": 10, "Sect409k1": 11, "Sect409r1": 12, "Sect571k1": 13, "Sect571r1": 14,
        "Secp160k1": 15, "Secp160r1": 16, "Secp160r2": 17, "Secp192k1": 18, "Secp192r1": 19, "Secp224k1": 20, "Secp224r1": 21,
        "Secp256k1": 22, "Secp256r1": 23, "Secp384r1": 24, "Secp521r1": 25, "BrainpoolP256r1": 26, "BrainpoolP384r1": 27,
        "BrainpoolP512r1": 28, "EcdhX25519": 29, "EcdhX448": 30, "BrainpoolP256r1tls13": 31, "BrainpoolP384r1tls13": 32,
        "BrainpoolP512r1tls13": 33, "Sm2": 41, "Ffdhe2048": 256, "Ffdhe3072": 257, "Ffdhe4096": 258, "Ffdhe6144": 259,
        "Ffdhe8192": 260, "ArbitraryExplicitPrimeCurves": 0xff01, "ArbitraryExplicitChar2Curves": 0xff02}),
    "HashAlgorithm": ("HashAlgorithm", 8, "display", {"None": 0, "Md5": 1, "Sha1": 2, "Sha224": 3, "Sha256": 4, "Sha384": 5, "Sha512": 6, "Intrinsic": 8}),
    "SignAlgorithm": ("SignAlgorithm", 8, "display", {"Anonymous": 0, "Rsa": 1, "Dsa": 2, "Ecdsa": 3, "Ed25519": 7, "Ed448": 8}),
    "SignatureScheme": ("SignatureScheme", 16, "display", {
        "rsa_pkcs1_sha256": 0x0401, "rsa_pkcs1_sha384": 0x0501, "rsa_pkcs1_sha512": 0x0601,
        "ecdsa_secp256r1_sha256": 0x0403, "ecdsa_secp384r1_sha384": 0x0503, "ecdsa_secp521r1_sha512": 0x0603,
        "sm2sig_sm3": 0x0708, "rsa_pss_rsae_sha256": 0x0804, "rsa_pss_rsae_sha384": 0x0805, "rsa_pss_rsae_sha512": 0x0806,
        "ed25519": 0x0807, "ed448": 0x0808, "rsa_pss_pss_sha256": 0x0809, "rsa_pss_pss_sha384": 0x080a, "rsa_pss_pss_sha512": 0x080b,
        "ecdsa_brainpoolP256r1tls13_sha256": 0x081a, "ecdsa_brainpoolP384r1tls13_sha384": 0x081b, "ecdsa_brainpoolP512r1tls13_sha512": 0x081c,
        "rsa_pkcs1_sha1": 0x0201, "ecdsa_sha1": 0x0203}),
    "ECCurveType": ("ECCurveType", 8, "display", {"ExplicitPrime": 1, "ExplicitChar2": 2, "NamedGroup": 3}),
    "SNIType": ("SNIType", 8, "display", {"HostName": 0}),
    "CertificateStatusType": ("CertificateStatusType", 8, "debug", {"OCSP": 1}),
    "CtVersion": ("CtVersion", 8, "display", {"V1": 0}),
    "PskKeyExchangeMode": ("PskKeyExchangeMode", 8, None, {"Psk": 0, "PskDhe": 1}),
    "KeyUpdateRequest": ("KeyUpdateRequest", 8, None, {"NotRequested": 0, "Requested": 1}),
}

# field size in bits for every curve whose IANA name states one (C17: key_bits)
KEY_BITS = {
    1: 163, 2: 163, 3: 163, 4: 193, 5: 193, 6: 233, 7: 233, 8: 239, 9: 283, 10: 283, 11: 409, 12: 409, 13: 571, 14: 571,
    15: 160, 16: 160, 17: 160, 18: 192, 19: 192, 20: 224, 21: 224, 22: 256, 23: 256, 24: 384, 25: 521,
    26: 256, 27: 384, 28: 512,
}
