"""Which units decide which property. HARNESS carries per-harness metadata for the evidence."""

# kind: fd = full-domain (complete proof, counted P); leaf/mod/rel/shim = contents-complete,
#       length-bounded (counted bounded, never as proved)
HARNESS = {
    "fd_record_header": dict(kind="fd", proved=True, fns=["parse_tls_record_header"], bound="8-byte buffer, symbolic length (function reads 5 bytes)"),
    "fd_raw_record_small": dict(kind="leaf", proved=False, fns=["parse_tls_raw_record"], bound="input <= 53 bytes: all 65536 declared lengths for TooLarge/Incomplete, Ok class for payload <= 48"),
    "fd_encrypted_small": dict(kind="leaf", proved=False, fns=["parse_tls_encrypted"], bound="input <= 53 bytes"),
    "fd_raw_record_full": dict(kind="fd", proved=True, fns=["parse_tls_raw_record"], bound="complete up to the record cap: input <= 5+16640+16 bytes (<=16 trailing bytes)"),
    "fd_encrypted_full": dict(kind="fd", proved=True, fns=["parse_tls_encrypted"], bound="complete up to the record cap: input <= 5+16640+16 bytes"),
    "fd_defrag_default": dict(kind="fd", proved=True, fns=["TlsRecordsParser::default", "TlsRecordsParser::reset", "TlsRecordsParser::defrag_in_progress"], bound="no input: discharges the assume_specification on derive(Default) used by the Verus unit"),
}
for _k in range(5):
    HARNESS["fd_states_cells_%d" % _k] = dict(kind="fd", proved=True, fns=["tls_state_transition", "tls_state_transition_handshake"],
        bound="states %d..%d x 22 message shapes x both directions x all 256x256 alert bytes; payload contents minimal (<= 2 bytes) - content-independence is the Verus unit's job" % (5 * _k, 5 * _k + 4))


HOOK_COMMITS = ["f298937"]

NOT_APPLICABLE = {
    "C18": "feature-matrix / build-configuration facts (does the crate build under a feature set, does compile_error! fire, are types Send+Sync, is there unsafe): decided by rustc and cargo over configurations; no pre/postcondition on a function expresses them and neither Verus nor Kani reasons across cfg sets",
}

PROPS = {
    "C08": dict(
        level="proof",
        level_text="Unbounded deductive proof (Verus) that the real tls_state_transition / tls_state_transition_handshake bodies equal the documented transition table for every state, direction and message value (so for every finite message sequence and independent of message contents); the table itself satisfies proved sanity lemmas (each documented flow reaches SessionEncrypted, direction exclusivity, absorbing states, alert and HelloRequest rules).",
        level_note="Trusted: Verus+Z3; the hand-written table oracle (contracts/states_table.rs); extraction rewrites R0 (comments/attrs), R1 (&Path(..) patterns -> Path(..), default binding modes), R3 (Structural on PartialEq+Eq derives), R5 (newtype_enum! -> associated consts), R6 (named return) - logged as diffs in the evidence; fidelity of the extract is cross-checked in the thorough tier by Kani harnesses fd_states_cells_* on the real compiled function (all 25x22x2 cells, all alert bytes).",
        technique="contract-based deductive verification: Verus postcondition on mechanically extracted code; Kani full-domain harness on the compiled code for witnesses",
        verus=["states"],
        kani=[dict(quick=[], thorough=["fd_states_cells_%d" % k for k in range(5)], paired=["fd_states_cells_%d" % k for k in range(5)], timeout=300)],
        paired={"states": ["fd_states_cells_%d" % k for k in range(5)]},
        explanation="tls_state_transition and tls_state_transition_handshake are sliced out of /repo/src/tls_states.rs together with every message type and proved (Verus) equal to a transition table written from the property, for all states, directions and message contents; history clauses follow from recursive lemmas over the table",
        trusted=["the transition table in /verif/verus/units/states.py (oracle transcribed by hand from the property statement; sanity lemmas about it are proved)"],
    ),
    "C07": dict(
        level="proof",
        level_text="Unbounded deductive proof (Verus) on the real impl TlsRecordsParser (sliced from /repo/src/tls_records_parser.rs each run): every method satisfies a total step contract written from the property (first-fragment path, CCS/alert never buffered, Tag / TooLarge / NonEmpty refusals with the frame 'state unchanged', append-and-reparse under the pseudo header, clear on completion), with NO precondition on the object state, the one-shot payload parser left as an uninterpreted function. History clauses (accumulate-then-parse for any k-way split, freshness after reset/completion, refusals do not disturb a run, buffer < 10 MiB) are recursive/derived lemmas over that step contract, so they hold for every finite call sequence.",
        level_note="Trusted: Verus+Z3; vstd Vec specs (clear, extend_from_slice, len); assume_specification for derive(Default) (discharged on the real type by Kani harness fd_defrag_default); parse_tls_record_with_header as external_body with an uninterpreted spec (= 'a deterministic function of payload and header'); rewrites R0, R2 (guard on ErrorKind turned into the equivalent pattern), R3, R5, R6, one #[verifier::truncate] attribute on the `as u16` cast (value of the truncating cast left abstract), one spliced proof hint. No Kani pairing of the Ok paths: CBMC does not finish on Vec<TlsMessage> (measured: 400 s timeout with 1-byte fragments); a normal-build history runner in /verif/replay is the witness finder for failed obligations.",
        technique="contract-based deductive verification: Verus step contract + history lemmas on mechanically extracted code",
        verus=["defrag"],
        kani=[dict(quick=["fd_defrag_default"], timeout=120)],
        witness_search={"defrag": {"defrag_search": True, "depth": 3}},
        explanation="see level_text",
        trusted=["spec_prwh: the one-shot payload parser is abstract in this unit; its own contract is C03's business"],
    ),
    "C05": dict(
        level="model_checking",
        level_text="Dispatch tables, GREASE/Unknown preservation, exact consumption, 'length beyond the block never yields a value', agreement of the three dispatchers and tag == wire type: unbounded deductive proof (Verus) on the real dispatcher bodies for all 65536 types and all data lengths, content parsers abstract. Content parsers, tag-specific parsers and list parsers: contracts checked by Kani on the compiled code, complete in byte contents and in every u8/u16 parameter, bounded in input length (bounded model checking, not proof).",
        level_note="Trusted: nom shim contracts be_u16/length_data (assumed in Verus, checked by Kani shim_* harnesses on the real nom); each content parser is an uninterpreted function in Verus with the single assumed fact 'on success it returns its own variant', which is an obligation of that parser's Kani leaf harness; IANA code-point table transcribed by hand (verus/units/dispatch_ext.py TABLE); rewrites R0, R5, R6, R8 (From::from lifted to a free fn).",
        technique="contract-based deductive verification: Verus postconditions on extracted dispatchers + Kani contract harnesses per content parser",
        verus=["dispatch_ext"],
        kani=[],
        witness_search={"dispatch_ext": {"ext_search": True}},
        explanation="see level_text",
    ),
}
