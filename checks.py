"""Which units decide which property. HARNESS carries per-harness metadata for the evidence."""

# kind: fd = full-domain (complete proof, counted P); leaf/mod/rel/shim = contents-complete,
#       length-bounded (counted bounded, never as proved)
HARNESS = {
    "fd_record_header": dict(kind="fd", proved=True, fns=["parse_tls_record_header"], bound="8-byte buffer, symbolic length (function reads 5 bytes)"),
    "fd_raw_record_small": dict(kind="leaf", proved=False, fns=["parse_tls_raw_record"], bound="input <= 53 bytes: all 65536 declared lengths for TooLarge/Incomplete, Ok class for payload <= 48"),
    "fd_encrypted_small": dict(kind="leaf", proved=False, fns=["parse_tls_encrypted"], bound="input <= 53 bytes"),
    "fd_raw_record_full": dict(kind="fd", proved=True, fns=["parse_tls_raw_record"], bound="complete up to the record cap: input <= 5+16640+16 bytes (<=16 trailing bytes)"),
    "fd_encrypted_full": dict(kind="fd", proved=True, fns=["parse_tls_encrypted"], bound="complete up to the record cap: input <= 5+16640+16 bytes"),
    "fd_defrag_default": dict(kind="fd", proved=True, fns=["TlsRecordsParser::default", "TlsRecordsParser::reset", "TlsRecordsParser::defrag_in_progress"], bound="no input: discharges the assume_specification on derive(Default) used by the Verus unit"),
    "fd_msg_ccs": dict(kind="fd", proved=True, fns=["parse_tls_message_changecipherspec"], bound="3-byte buffer, symbolic length (reads 1 byte)"),
    "fd_msg_alert": dict(kind="fd", proved=True, fns=["parse_tls_message_alert"], bound="4-byte buffer, symbolic length (reads 2 bytes)"),
    "leaf_msg_appdata": dict(kind="leaf", proved=False, fns=["parse_tls_message_applicationdata"], bound="input <= 6 bytes (body is length-independent: no loop, no index)"),
    "leaf_msg_heartbeat": dict(kind="leaf", proved=False, fns=["parse_tls_message_heartbeat"], bound="input <= 8 bytes, record length u16 full domain"),
    "leaf_prwh_heartbeat": dict(kind="leaf", proved=False, fns=["parse_tls_record_with_header (heartbeat arm)"], bound="payload <= 6 bytes, concrete content type 0x18"),
    "leaf_prwh_appdata": dict(kind="leaf", proved=False, fns=["parse_tls_record_with_header (application-data arm)"], bound="payload <= 3 bytes, concrete content type 0x17"),
    "shim_take": dict(kind="shim", proved=False, fns=["nom::bytes::streaming::take"], bound="input <= 6 bytes, count usize full domain"),
    "shim_be": dict(kind="fd", proved=True, fns=["nom be_u8/be_u16/be_u24/be_u32"], bound="6-byte buffer, symbolic length (functions read <= 4 bytes)"),
    "shim_length_data": dict(kind="shim", proved=False, fns=["nom::multi::length_data (u8/u16/u24 prefix)"], bound="input <= 6 bytes"),
    "shim_complete": dict(kind="shim", proved=False, fns=["nom::combinator::complete"], bound="input <= 3 bytes, cheap element parser"),
    "shim_many1": dict(kind="shim", proved=False, fns=["nom::multi::many1"], bound="input <= 4 bytes, cheap element parser (u8 elements)"),
    "shim_many0": dict(kind="shim", proved=False, fns=["nom::multi::many0"], bound="input <= 4 bytes, cheap element parser (u8 elements)"),
    "shim_opt_cond": dict(kind="shim", proved=False, fns=["nom::combinator::opt", "nom::combinator::cond", "nom::combinator::map"], bound="input <= 3 bytes, cheap element parser"),
    "shim_length_count": dict(kind="shim", proved=False, fns=["nom::multi::length_count"], bound="input <= 4 bytes, counts 0..3, cheap element parser (all result classes)"),
    "shim_alt": dict(kind="shim", proved=False, fns=["nom::branch::alt"], bound="input <= 4 bytes, two cheap branches (all result classes)"),
    "shim_be64": dict(kind="fd", proved=True, fns=["nom::number::streaming::be_u64"], bound="10-byte buffer, symbolic length (the function reads <= 8 bytes)"),
    "shim_tag": dict(kind="fd", proved=True, fns=["nom::bytes::streaming::tag (2-byte tag)"], bound="4-byte buffer, symbolic length, every tag value (the function reads <= 2 bytes)"),
    "shim_verify": dict(kind="shim", proved=False, fns=["nom::combinator::verify"], bound="input <= 4 bytes, cheap element parser, predicate threshold full domain"),
    "shim_pair": dict(kind="shim", proved=False, fns=["nom::sequence::pair"], bound="input <= 4 bytes, cheap element parser (all result classes, non-consuming success included)"),
    "shim_map_parser": dict(kind="shim", proved=False, fns=["nom::combinator::map_parser"], bound="input <= 5 bytes, count usize full domain, cheap inner parser"),
}
HARNESS["shim_chunks_map_collect"] = dict(kind="shim", proved=False, fns=["<[T]>::chunks + Iterator::map + collect::<Vec<_>> (core/alloc)"], bound="slice <= 7 bytes, chunk size usize full domain (> 0)")
HARNESS["shim_iter_map_collect"] = dict(kind="shim", proved=False, fns=["<[T]>::iter + Iterator::map + collect::<Vec<_>> (core/alloc)"], bound="slice <= 5 bytes")
HARNESS["shim_slice_try_into_array"] = dict(kind="fd", proved=True, fns=["<&[u8] as TryInto<&[u8; 32]>>::try_into (core::array)"], bound="40-byte buffer, symbolic length (loop-free: a length test and a pointer cast)")
HARNESS["shim_u32_from_be_bytes"] = dict(kind="fd", proved=True, fns=["u32::from_be_bytes", "<&[u8] as TryInto<[u8; 4]>>::try_into (core)"], bound="all 2^32 arrays; 8-byte buffer with symbolic length for the conversion (loop-free)")
def _leaf(name, fns, bound, kind="leaf", proved=False):
    HARNESS[name] = dict(kind=kind, proved=proved, fns=fns if isinstance(fns, list) else [fns], bound=bound)

for _n, _f in [("ske", "parse_tls_handshake_msg_serverkeyexchange"), ("serverdone", "parse_tls_handshake_msg_serverdone"),
               ("certverify", "parse_tls_handshake_msg_certificateverify"), ("cke", "parse_tls_handshake_msg_clientkeyexchange (+ parse_tls_clientkeyexchange)"),
               ("finished", "parse_tls_handshake_msg_finished")]:
    _leaf("leaf_hs_" + _n, _f, "input <= 6 bytes, declared length usize full domain")
_leaf("fd_hs_hello_request", "parse_tls_handshake_msg_hello_request", "4-byte buffer (body ignores its input)", "fd", True)
_leaf("fd_hs_key_update", "parse_tls_handshake_msg_key_update", "3-byte buffer, symbolic length (reads 1 byte)", "fd", True)
_leaf("leaf_hs_newsessionticket", "parse_tls_handshake_msg_newsessionticket", "input <= 8 bytes, declared length usize full domain")
_leaf("leaf_hs_hello_retry_request", "parse_tls_handshake_msg_hello_retry_request", "input <= 10 bytes")
_leaf("leaf_hs_server_hello_msg", ["parse_tls_handshake_msg_server_hello", "parse_tls_server_hello_tlsv12", "parse_tls_handshake_msg_server_hello_tlsv13draft18"], "input <= 44 bytes (session id <= 3 bytes reachable together with an extension block)")
_leaf("leaf_hs_server_hello", ["parse_tls_handshake_server_hello", "parse_tls_server_hello_tlsv12"], "input <= 44 bytes")
_leaf("leaf_hs_certificatestatus", ["parse_tls_handshake_msg_certificatestatus", "parse_tls_handshake_certificatestatus"], "input <= 8 bytes, 24-bit length full domain")
_leaf("leaf_hs_next_protocol", ["parse_tls_handshake_msg_next_protocol", "parse_tls_handshake_next_protocol"], "input <= 6 bytes")
_leaf("leaf_hs_certificate", ["parse_tls_handshake_msg_certificate", "parse_tls_certificate", "parse_certs"], "input <= 12 bytes (<= 3 certificates)")
_leaf("leaf_hs_certificate_request", ["parse_tls_handshake_msg_certificaterequest", "parse_tls_handshake_certificaterequest", "parse_certrequest_full", "parse_certrequest_nosigalg"], "input <= 9 bytes")
_leaf("leaf_hs_client_hello_sid33", "parse_tls_handshake_client_hello", "35..40 bytes, session-id length byte = 33")
_leaf("mod_client_hello", "parse_tls_handshake_client_hello (list helpers replaced by their contract stubs)", "input <= 48 bytes, all lengths symbolic; session id <= 8 bytes reachable", "mod")
_leaf("mod_client_hello_long", "parse_tls_handshake_client_hello (list helpers replaced by their contract stubs)", "input <= 80 bytes: session id 0..32 reachable with lists and extension block", "mod")
_leaf("leaf_cipher_suites", "parse_cipher_suites", "input <= 7 bytes, declared length usize full domain")
_leaf("leaf_compressions", "parse_compressions_algs", "input <= 4 bytes, declared length usize full domain")
_leaf("leaf_tls_versions", "parse_tls_versions", "input <= 7 bytes")
_TAGS = ["sni", "max_fragment_length", "status_request", "elliptic_curves", "ec_point_formats", "signature_algorithms", "heartbeat", "encrypt_then_mac",
         "extended_master_secret", "session_ticket", "pre_shared_key", "early_data", "supported_versions", "cookie", "psk_key_exchange_modes", "key_share"]
for _t in _TAGS:
    _leaf("rel_tag_rej_" + _t, "parse_tls_extension_" + _t, "input 2..6 bytes, type bytes over all 65535 other values", "rel")
    _leaf("rel_tag_" + _t, "parse_tls_extension_" + _t + " vs framing + its content parser", "input <= 9 bytes, own type bytes concrete", "rel")
for _n, _f, _b in [
    ("fd_ext_max_fragment_length", "parse_tls_extension_max_fragment_length_content", None), ("fd_ext_heartbeat", "parse_tls_extension_heartbeat_content", None),
    ("fd_ext_record_size_limit", "parse_tls_extension_record_size_limit", None),
    ("fd_ext_encrypt_then_mac", "parse_tls_extension_encrypt_then_mac_content", None), ("fd_ext_extended_master_secret", "parse_tls_extension_extended_master_secret_content", None),
    ("fd_ext_post_handshake_auth", "parse_tls_extension_post_handshake_auth_content", None), ("fd_ext_npn", "parse_tls_extension_npn_content", None)]:
    _leaf(_n, _f, "loop-free body over a <= 4 byte buffer; ext_len u16 full domain where taken", "fd", True)
for _n, _f, _b in [
    ("leaf_ext_ec_point_formats", "parse_tls_extension_ec_point_formats_content", 6), ("leaf_ext_renegotiation_info", "parse_tls_extension_renegotiation_info_content", 6),
    ("leaf_ext_psk_modes", "parse_tls_extension_psk_key_exchange_modes_content", 6), ("leaf_ext_sct", "parse_tls_extension_signed_certificate_timestamp_content", 6),
    ("leaf_ext_unknown", "parse_tls_extension_unknown", 8), ("leaf_ext_elliptic_curves", "parse_tls_extension_elliptic_curves_content", 8),
    ("leaf_named_groups", "parse_named_groups", 7), ("leaf_ext_signature_algorithms", "parse_tls_extension_signature_algorithms_content", 8),
    ("leaf_ext_alpn", "parse_tls_extension_alpn_content", 8), ("leaf_ext_sni", "parse_tls_extension_sni_content + parse_tls_extension_sni_hostname", 10),
    ("leaf_ext_esni", "parse_tls_extension_encrypted_server_name", 12), ("leaf_ext_session_ticket", "parse_tls_extension_session_ticket_content", 6),
    ("leaf_ext_key_share_old", "parse_tls_extension_key_share_old_content", 6), ("leaf_ext_key_share", "parse_tls_extension_key_share_content", 6),
    ("leaf_ext_pre_shared_key", "parse_tls_extension_pre_shared_key_content", 6), ("leaf_ext_cookie", "parse_tls_extension_cookie_content", 6),
    ("leaf_ext_padding", "parse_tls_extension_padding_content", 6), ("leaf_ext_status_request", "parse_tls_extension_status_request_content", 6),
    ("leaf_ext_early_data", "parse_tls_extension_early_data_content", 6), ("leaf_ext_supported_versions", "parse_tls_extension_supported_versions_content", 7),
    ("leaf_ext_oid_filters", "parse_tls_extension_oid_filters + parse_tls_oid_filter", 9)]:
    _leaf(_n, _f, "input <= %d bytes, ext_len u16 full domain where taken" % _b)
_leaf("fd_dtls_header", "parse_dtls_record_header", "16-byte buffer, symbolic length (reads 13 bytes): every type, version, epoch, 48-bit sequence number and length", "fd", True)
_leaf("fd_dtls_ccs_alert", ["parse_dtls_message_changecipherspec", "parse_dtls_message_alert"], "4-byte buffer, symbolic length", "fd", True)
_leaf("fd_dtls_is_fragment", "DTLSMessage::is_fragment", "all header field values, three body shapes", "fd", True)
_leaf("leaf_dtls_hvr", "parse_dtls_hello_verify_request", "input <= 8 bytes")
_leaf("leaf_dtls_fragment", "parse_dtls_fragment", "input <= 6 bytes (body is length-independent)")
_leaf("mod_dtls_client_hello", "parse_dtls_client_hello (list helpers replaced by their contract stubs)", "input <= 80 bytes, all lengths symbolic (cookie up to 40 bytes, session id 0..32 reachable)", "mod")
_leaf("leaf_dh_params", "parse_dh_params / ServerDHParams::parse", "input <= 10 bytes")
_leaf("leaf_digitally_signed", ["parse_digitally_signed", "parse_digitally_signed_old"], "input <= 8 bytes")
_leaf("leaf_ec_parameters", ["parse_ec_parameters", "ECParametersContent::parse", "ExplicitPrimeContent::parse"], "input <= 10 bytes, all 256 curve types")
_leaf("leaf_ecdh_params", "parse_ecdh_params", "input <= 8 bytes, named-curve form")
_leaf("leaf_content_and_signature", "parse_content_and_signature", "input <= 8 bytes, both values of the negotiation flag, 1-byte content parser")
_leaf("leaf_sct_entry", ["parse_ct_signed_certificate_timestamp", "parse_ct_signed_certificate_timestamp_content", "parse_log_id", "parse_ct_extensions"], "input <= 52 bytes (minimal SCT is 47 bytes + 2 length bytes)")
_leaf("leaf_sct_list_short", "parse_ct_signed_certificate_timestamp_list", "input <= 12 bytes (no well-formed entry fits: exercises the never-yields-an-SCT clauses)")
_leaf("leaf_sct_list_tiny", "parse_ct_signed_certificate_timestamp_list", "input <= 6 bytes")
_leaf("fd_c17_consts", "205 named registry constants", "no input", "fd", True)
_leaf("fd_conversions", "From/Deref/AsRef/to_be_bytes/from_u16 of the registry newtypes", "every u8 and every u16 value", "fd", True)
_leaf("fd_signature_scheme", ["SignatureScheme::hash_alg", "SignatureScheme::sign_alg", "SignatureScheme::is_reserved"], "every u16 value", "fd", True)
_leaf("fd_key_bits", "NamedGroup::key_bits", "every u16 value", "fd", True)
_leaf("leaf_ch_accessors_tls", "ClientHello trait on TlsClientHelloContents (+ new, get_version)", "random <= 36 bytes (incl. != 32), <= 2 ciphers, 1 compression")
_leaf("leaf_ch_accessors_dtls", "ClientHello trait on DTLSClientHello", "random <= 36 bytes, <= 2 ciphers, 1 compression")
_leaf("mod_ch_cipher_suites", ["ClientHello::cipher_suites (TLS, DTLS)", "TlsClientHelloContents::get_ciphers", "TlsServerHelloContents::get_cipher"], "2 ciphers, every id pair; get_ciphersuite replaced by a contract stub", "mod")
_leaf("fd_server_hello_ctor", ["TlsServerHelloContents::new", "TlsServerHelloContents::get_version"], "all argument values", "fd", True)
_leaf("fd_from_id", ["TlsCipherSuite::from_id", "TryFrom<u16>", "TryFrom<TlsCipherSuiteID>", "TlsCipherSuiteID::get_ciphersuite"], "every u16 id", "fd", True)
_leaf("fd_ciphers_len", "CIPHERS", "no input", "fd", True)
_leaf("fd_route_try_from_u16", "TryFrom<u16> for &TlsCipherSuite", "every u16 id", "fd", True)
_leaf("fd_route_try_from_id", "TryFrom<TlsCipherSuiteID> for &TlsCipherSuite", "every u16 id", "fd", True)
_leaf("fd_route_get_ciphersuite", "TlsCipherSuiteID::get_ciphersuite", "every u16 id", "fd", True)
_leaf("fd_cipher_sizes", ["TlsCipherSuite::enc_key_size", "mac_length", "enc_block_size"], "every registry entry (symbolic id)", "fd", True)
_leaf("fd_c12_rows", "CIPHERS (every row, all 10 columns)", "every u16 id (symbolic): listed ids carry the listed row, unlisted ids are absent", "fd", True)
for _n, _f in [("raw_record", "parse_tls_raw_record"), ("dh_params", "parse_dh_params"), ("ecdh_params", "parse_ecdh_params"),
               ("digitally_signed", "parse_digitally_signed"), ("ext_unknown", "parse_tls_extension_unknown"), ("dtls_header", "parse_dtls_record_header")]:
    _leaf("rel_local_" + _n, _f + " on b and b ++ x", "b ++ x <= 8..16 bytes, both lengths symbolic", "rel")
_SER = ["leaf_ser_finished", "leaf_ser_cke_unknown", "leaf_ser_cke_dh", "leaf_ser_cke_ecdh", "fd_ser_hello_request", "fd_ser_ccs",
        "leaf_ser_client_hello_min", "leaf_ser_client_hello_full", "leaf_ser_server_hello_min", "leaf_ser_server_hello_full",
        "leaf_ser_server_hello_d18_min", "leaf_ser_server_hello_d18_full", "leaf_ser_ext_sni", "leaf_ser_ext_max_fragment_length",
        "leaf_ser_length_u24", "leaf_ser_length_u16"] + ["fd_ser_unsupported_%d" % k for k in (0, 1, 2, 3, 5, 6, 8, 9, 10)]
_SER_SHIMS = ["shim_cf_bytes", "shim_cf_tuple"]
HARNESS["shim_cf_bytes"] = dict(kind="shim", proved=False, fns=["cookie_factory be_u8/be_u16/be_u24, slice (&[u8] and Vec<u8>), gen, a &F serializer, Result::and_then"], bound="integers full domain; slice <= 3 bytes; Vec<u8> writer holding a 1-byte prefix")
HARNESS["shim_cf_tuple"] = dict(kind="shim", proved=False, fns=["cookie_factory::sequence::tuple (arity 2, 3, 4, 6, 8; failing component)"], bound="one symbolic byte per component; Vec<u8> writer")
for _h in _SER:
    _leaf(_h, {"leaf_ser_length_u24": "length_be_u24", "leaf_ser_length_u16": "length_be_u16"}.get(_h, "Serialize::serialize / gen_tls_* (" + _h.split("_ser_")[1] + ")"),
          {"leaf_ser_length_u24": "body length 0..70000 symbolic (content constant)", "leaf_ser_length_u16": "body length 0..65535 symbolic (content constant)"}.get(
              _h, "field contents symbolic; list/opaque lengths tiny and concrete (min: none, full: 1-byte session id, 1-byte extension block, 2 ciphers, 1 compression; opaque bodies <= 2 bytes)"),
          "fd" if _h.startswith("fd_") else "leaf", _h.startswith("fd_"))
for _k in range(5):
    HARNESS["fd_states_cells_%d" % _k] = dict(kind="fd", proved=True, fns=["tls_state_transition", "tls_state_transition_handshake"],
        bound="states %d..%d x 22 message shapes x both directions x all 256x256 alert bytes; payload contents minimal (<= 2 bytes) - content-independence is the Verus unit's job" % (5 * _k, 5 * _k + 4))


HOOK_COMMITS = ['f298937', '1eed035', '68b5220']

NOT_APPLICABLE = {
    "C18": "feature-matrix / build-configuration facts (does the crate build under a feature set, does compile_error! fire, are types Send+Sync, is there unsafe): decided by rustc and cargo over configurations; no pre/postcondition on a function expresses them and neither Verus nor Kani reasons across cfg sets",
}

_LONG_LISTS = dict(name="long_lists", kind="bounded-execution", bound="66 cases: TLS / DTLS ClientHello with n cipher suites (n in {0,1,2,3,15..17,127..129,255..257,511..513,1023..1025,4097,16385,32767}) and 0..255 compression methods, client extension block with n named groups and min(n,127) versions; every element distinct, checked in order", payload={"long_list_check": 1})

PROPS = {
    "C08": dict(
        level="proof",
        level_text="Unbounded deductive proof (Verus) that the real tls_state_transition / tls_state_transition_handshake bodies equal the documented transition table for every state, direction and message value (so for every finite message sequence and independent of message contents); the table itself satisfies proved sanity lemmas (each documented flow reaches SessionEncrypted, direction exclusivity, absorbing states, alert and HelloRequest rules).",
        level_note="Trusted: Verus+Z3; the hand-written table oracle (contracts/states_table.rs); extraction rewrites R0 (comments/attrs), R1 (&Path(..) patterns -> Path(..), default binding modes), R3 (Structural on PartialEq+Eq derives), R5 (newtype_enum! -> associated consts), R6 (named return) - logged as diffs in the evidence; fidelity of the extract is cross-checked by Kani harnesses fd_states_cells_* on the real compiled function (all 25x22x2 cells, all alert bytes).",
        technique="contract-based deductive verification: Verus postcondition on mechanically extracted code; Kani full-domain harness on the compiled code for witnesses",
        verus=["states"],
        kani=[dict(quick=["fd_states_cells_%d" % k for k in range(5)], paired=["fd_states_cells_%d" % k for k in range(5)], timeout=900)],
        paired={"states": ["fd_states_cells_%d" % k for k in range(5)]},
        explanation="tls_state_transition and tls_state_transition_handshake are sliced out of /repo/src/tls_states.rs together with every message type and proved (Verus) equal to a transition table written from the property, for all states, directions and message contents; history clauses follow from recursive lemmas over the table",
        trusted=["the transition table in /verif/verus/units/states.py (oracle transcribed by hand from the property statement; sanity lemmas about it are proved)"],
    ),
    "C07": dict(
        level="proof",
        level_text="Unbounded deductive proof (Verus) on the real impl TlsRecordsParser (sliced from /repo/src/tls_records_parser.rs each run): every method satisfies a total step contract written from the property (first-fragment path, CCS/alert never buffered, Tag / TooLarge / NonEmpty refusals with the frame 'state unchanged', append-and-reparse under the pseudo header, clear on completion), with NO precondition on the object state, the one-shot payload parser left as an uninterpreted function. History clauses (accumulate-then-parse for any k-way split, freshness after reset/completion, refusals do not disturb a run, buffer < 10 MiB) are recursive/derived lemmas over that step contract, so they hold for every finite call sequence.",
        level_note="Trusted: Verus+Z3; vstd Vec specs (clear, extend_from_slice, len); assume_specification for derive(Default) (discharged on the real type by Kani harness fd_defrag_default); parse_tls_record_with_header as external_body with an uninterpreted spec (= 'a deterministic function of payload and header'); rewrites R0, R2 (guard on ErrorKind turned into the equivalent pattern), R3, R5, R6, one #[verifier::truncate] attribute on the `as u16` cast (value of the truncating cast left abstract), one spliced proof hint. No Kani pairing of the Ok paths: CBMC does not finish on Vec<TlsMessage> (measured: 400 s timeout with 1-byte fragments); a normal-build history runner in /verif/replay is the witness finder for failed obligations.",
        technique="contract-based deductive verification: Verus step contract + history lemmas on mechanically extracted code",
        verus=["defrag"],
        kani=[dict(quick=["fd_defrag_default"], timeout=600)],
        witness_search={"defrag": {"defrag_search": True, "depth": 3}},
        explanation="see level_text",
        trusted=["spec_prwh: the one-shot payload parser is abstract in this unit; its own contract is C03's business"],
    ),
    "C05": dict(
        level="proof",
        level_text="Dispatch tables, GREASE/Unknown preservation, exact consumption, 'length beyond the block never yields a value', agreement of the three dispatchers and tag == wire type: unbounded deductive proof (Verus) on the real dispatcher bodies for all 65536 types and all data lengths, content parsers abstract. The 16 tag-specific parsers: unbounded (Verus, unit tagged, on the real bodies): each accepts exactly its own two type bytes (nom's streaming tag: a mismatching byte is Error(Tag) even on a short input), frames the u16-length-prefixed data and returns its content parser's verdict on exactly the declared bytes; lemmas: any other wire type is rejected, and the outcome equals the generic dispatcher's for that type (per-row premise 'the generic table sends this type to the same content parser' proved for all 16 rows; heartbeat additionally rejects a declared length other than 1 before framing - the recorded known finding). List parsers: explicit accumulate-while-Ok loops (units ext_lists, ext_lists2). Content parsers: all 26 proved in Verus (units ext_contents, ext_lists2, bodies: every field at its offset, every rejection rule, every cut-off Incomplete; the named-group / version list helpers parse_named_groups / parse_tls_versions are proved too: guards, slicing and the element closure verbatim, the `chunks(2).map(..).collect()` chain named as the std shim function chunks_map_collect - rule R17); all of them, and the tag-specific and list parsers again, have contracts checked by Kani on the compiled code, complete in byte contents and in every u8/u16 parameter, bounded in input length (bounded model checking, not proof).",
        level_note="Trusted: nom shim contracts be_u16/length_data (assumed in Verus, checked by Kani shim_* harnesses on the real nom); each content parser is an uninterpreted function in units dispatch_ext / tagged with the single assumed fact 'on success it returns its own variant' (an obligation of that parser's Kani leaf harness, and a consequence of its contract proved in units ext_contents / ext_lists2 / bodies); <[T]>::to_vec is given its std specification by assume_specification; the std chain `s.chunks(c).map(f).collect()` is assumed to be what core/alloc define it to be (verus/shim_std.rs; Kani shim_chunks_map_collect on the real std, slice <= 7 bytes, chunk size full domain); IANA code-point table transcribed by hand (verus/units/dispatch_ext.py TABLE); rewrites R0, R5, R6, R8 (From::from lifted to a free fn).",
        technique="contract-based deductive verification: Verus postconditions on extracted dispatchers + Kani contract harnesses per content parser",
        verus=["dispatch_ext", "ext_lists", "bodies", "ext_contents", "ext_lists2", "tagged"],
        kani=[dict(quick=["fd_ext_max_fragment_length", "fd_ext_heartbeat", "fd_ext_record_size_limit", "fd_ext_encrypt_then_mac", "fd_ext_extended_master_secret",
                          "fd_ext_post_handshake_auth", "fd_ext_npn", "leaf_ext_ec_point_formats", "leaf_ext_renegotiation_info", "leaf_ext_psk_modes", "leaf_ext_sct",
                          "leaf_ext_unknown", "leaf_ext_elliptic_curves", "leaf_named_groups", "leaf_ext_signature_algorithms", "leaf_ext_alpn", "leaf_ext_sni", "leaf_ext_esni",
                          "leaf_ext_session_ticket", "leaf_ext_key_share_old", "leaf_ext_key_share", "leaf_ext_pre_shared_key", "leaf_ext_cookie", "leaf_ext_padding",
                          "leaf_ext_status_request", "leaf_ext_early_data", "leaf_ext_supported_versions", "leaf_ext_oid_filters", "shim_be", "shim_length_data",
                          "shim_tag", "shim_verify", "shim_take", "shim_map_parser", "leaf_tls_versions", "shim_chunks_map_collect"]
                         + ["rel_tag_rej_" + t for t in _TAGS]
                         + ["rel_tag_" + t for t in _TAGS if t not in ("sni", "elliptic_curves", "signature_algorithms", "supported_versions", "psk_key_exchange_modes")],
                   thorough=["rel_tag_sni", "rel_tag_elliptic_curves", "rel_tag_signature_algorithms", "rel_tag_supported_versions", "rel_tag_psk_key_exchange_modes"], timeout=900, timeout_thorough=2400)],
        witness_search={"dispatch_ext": {"ext_search": True}},
        paired={'ext_contents': ['leaf_named_groups', 'leaf_tls_versions', 'leaf_ext_psk_modes', 'leaf_ext_supported_versions', 'leaf_ext_elliptic_curves', 'leaf_ext_esni', 'leaf_ext_ec_point_formats', 'leaf_ext_early_data'], 'ext_lists2': ['leaf_ext_sni', 'leaf_ext_alpn', 'leaf_ext_signature_algorithms', 'leaf_ext_oid_filters']},
        standins=[_LONG_LISTS],
        explanation="see level_text",
    ),
    "C03": dict(
        level="proof",
        level_text="Container: the real parse_tls_record_with_header body (sliced from /repo each run) is proved by Verus to be, per content type, the explicit accumulate-while-Ok loop over the per-message parser (many1(complete(p))), one blob for application data, one completed heartbeat, Switch error for all other 251 types - for every payload length; consequences proved as lemmas: a whole record never answers Incomplete, empty CCS/alert payloads and malformed first messages never yield a value, alerts decode pairwise in wire order with an odd trailing byte left as remainder. This is relative to the nom combinator contracts (complete / many1), which are assumptions in Verus and bounded Kani obligations on the real nom. Leaf message parsers: proved unbounded as well (Verus, unit messages: ChangeCipherSpec = the byte 1 else Error(Verify), Alert = level byte + description byte via the derive-generated TlsMessageAlert parser taken from the macro expansion, heartbeat, application data; unit dispatch_hs and the body units for handshake messages); Kani harnesses on the compiled code repeat them (full-domain for CCS/alert, bounded for heartbeat / application data).",
        level_note="Trusted: nom shim contracts for complete/many1 (Kani shim_* harnesses, bounded); 'fun_of(parse_x) is the function parse_x computes' for each abstract message parser (determinism of safe, state-free code) and 'remainder is never longer than the input' (checked as is_suffix in the Kani leaves); leaf contracts ccs_post/alert_post/appdata_post are assumed in unit many; they are proved in unit messages (same statements, the CCS one stronger) and are the assertions of fd_msg_ccs / fd_msg_alert / leaf_msg_appdata on the compiled code. One-step == two-step parsing is decided in C02 (plaintext glue), not here.",
        technique="contract-based deductive verification: Verus on the extracted container + Kani contract harnesses for the leaf message parsers",
        verus=["many", "plaintext", "messages", "dispatch_hs"],
        standins=[dict(name="framing_boundaries", kind="bounded-execution", bound="declared lengths {0,1,2,3,16383..16385,16639..16641,32768,65535} x 3 content types x 8 prefix cuts, TLS raw/encrypted/plaintext/tls_parser + DTLS record (372 cases)", payload={"framing_boundary_check": 1})],
        kani=[dict(quick=["fd_msg_ccs", "fd_msg_alert", "leaf_msg_appdata", "leaf_msg_heartbeat", "leaf_prwh_heartbeat", "leaf_prwh_appdata", "shim_complete", "shim_many1"], timeout=900)],
        paired={'many': ['leaf_prwh_heartbeat', 'leaf_prwh_appdata'], 'messages': ['fd_msg_ccs', 'fd_msg_alert', 'leaf_msg_heartbeat', 'leaf_msg_appdata']},
        explanation="see level_text",
    ),
    "C02": dict(
        level="proof",
        level_text="Unbounded deductive proof (Verus) on the real bodies of parse_tls_raw_record, parse_tls_encrypted and parse_tls_plaintext (sliced from /repo each run) of the RFC 8446 5.1 framing contract: header fields big-endian, cap 2^14+256 -> Error(TooLarge) whatever follows, Incomplete iff strict prefix with Needed == missing bytes, payload exactly the declared bytes, remainder untouched - for every input length. For plaintext the payload parser's verdict is glued on exactly (payload, header) and 'a whole record never answers Incomplete' is a lemma proved in unit `many`. Independently, Kani checks raw/encrypted on the compiled code, complete up to the cap in the thorough tier.",
        level_note="Trusted: nom shim contracts take / map_parser / make_error (Kani shim_take, shim_map_parser on the real nom, bounded in input length, full domain in count); the derive-generated header parser is proved from the macro expansion (R13) and is also a full-domain Kani obligation on the compiled code (fd_record_header); R4 (const -> exec const, value PROVED == 16640), R6, R9 (closure signature made explicit + its ensures spliced; elided lifetime named). The plaintext unit assumes axiom_prwh_never_incomplete, which is lemma_record_never_incomplete of unit `many` (both run by this check).",
        technique="contract-based deductive verification: Verus postconditions on the extracted framing functions; Kani full-domain harnesses on the compiled code",
        verus=["frame", "plaintext", "many"],
        kani=[dict(quick=["fd_record_header", "fd_raw_record_small", "fd_encrypted_small", "shim_take", "shim_be", "shim_map_parser", "shim_complete", "shim_many1", "leaf_prwh_heartbeat"],
                   thorough=["fd_raw_record_full", "fd_encrypted_full"], timeout=900, timeout_thorough=2400)],
        paired={"frame": ["fd_raw_record_small", "fd_encrypted_small"], "many": ["leaf_prwh_heartbeat", "leaf_prwh_appdata"], "plaintext": []},
        standins=[dict(name="framing_boundaries", kind="bounded-execution", bound="declared lengths {0,1,2,3,16383..16385,16639..16641,32768,65535} x 3 content types x 8 prefix cuts, TLS raw/encrypted/plaintext/tls_parser + DTLS record (372 cases)", payload={"framing_boundary_check": 1})],
        explanation="see level_text",
    ),
    "C04": dict(
        level="proof",
        level_text="Dispatcher: unbounded deductive proof (Verus) on the real parse_tls_message_handshake body - type/u24 framing, type -> body-parser table for all 256 codes, body isolated to exactly the declared bytes before any body parser runs, exact consumption, Switch for unknown types, Incomplete(missing) for cut-off messages. Bodies: one Kani contract harness per body parser on the compiled code against an index-based reference decoder written from the RFCs (every field, order, presence/absence, every rejection rule of the property as its own assertion, pointer-exact slices): complete in byte contents and in every integer parameter, BOUNDED in input length. Unbounded as well (Verus, units bodies / bodies2 / hellos, on the real bodies): ClientHello (every field at its offset, session id present iff its length byte is non-zero, cipher and compression ids in wire order, optional extension block; session-id length > 32, odd or overlong cipher list, overlong compression list rejected, every cut-off mandatory field Incomplete), ServerHello for SSL 3.0..TLS 1.2 and the draft-18 layout incl. the legacy-version switch of both entry points (0x0300 without extensions, 0x0301..0x0303 with, 0x7f12 draft 18, everything else Error(Tag)), HelloRetryRequest, NewSessionTicket, CertificateStatus, NextProtocol, HelloRequest, the one-blob bodies ServerKeyExchange / ServerDone / CertificateVerify / Finished, and Certificate (unit certs: u24 list length, the list window is exactly the declared bytes, certificates = the explicit accumulate-while-Ok loop of the u24-prefixed entry parser over the window, a list longer than the body is Incomplete) and CertificateRequest (unit certreq: both layouts field by field - certificate types = the counted bytes, signature algorithms = the explicit be_u16 loop over exactly the declared window, distinguished names = the explicit loop of the u16-prefixed name reader over exactly the declared window - and the entry point = the TLS 1.2 layout made complete, else the older layout made complete). The cipher-suite / compression list helpers parse_cipher_suites / parse_compressions_algs are proved in Verus as well (unit hellos, rule R17: guards, slicing and the element closure verbatim; only the std iterator chain `chunks(2).map(f).collect()` / `iter().map(f).collect()` is a shim function with the std definition as its assumed contract, checked on the real core/alloc by Kani shim_chunks_map_collect / shim_iter_map_collect). In Kani ClientHello is verified modularly against the contracts of those helpers, which have their own leaf harnesses.",
        level_note="Trusted: nom shim contracts be_u8/be_u24/take (Kani shim_be, shim_take); body parsers are uninterpreted in Verus with the assumed fact 'on success returns its own variant' (asserted by each Kani leaf); reference decoders in /verif/kani/pub_c04_handshake.rs are hand-written from RFC 5246/8446/5077/6066; the std iterator chains of the two list helpers (verus/shim_std.rs: assumed = std's definition, Kani shim_chunks_map_collect / shim_iter_map_collect, bounded in slice length); Kani contract stubs for parse_cipher_suites/parse_compressions_algs return an unconstrained (dummy) list content - the caller never inspects it.",
        technique="contract-based deductive verification: Verus on the extracted dispatcher + Kani contract harnesses per body parser (modular for ClientHello)",
        verus=["dispatch_hs", "bodies", "bodies2", "hellos", "certs", "certreq"],
        kani=[dict(quick=["leaf_hs_ske", "leaf_hs_serverdone", "leaf_hs_certverify", "leaf_hs_cke", "leaf_hs_finished", "fd_hs_hello_request", "fd_hs_key_update",
                          "leaf_hs_newsessionticket", "leaf_hs_hello_retry_request", "leaf_hs_server_hello_msg", "leaf_hs_server_hello", "leaf_hs_certificatestatus",
                          "leaf_hs_next_protocol", "leaf_hs_certificate", "mod_client_hello", "mod_client_hello_long", "leaf_hs_client_hello_sid33", "leaf_cipher_suites", "leaf_compressions",
                          "shim_be", "shim_take", "shim_length_data", "shim_opt_cond", "shim_verify", "shim_length_count", "shim_alt", "shim_map_parser", "shim_many0", "shim_complete", "shim_chunks_map_collect", "shim_iter_map_collect"],
                   thorough=["leaf_hs_certificate_request"], timeout=900, timeout_thorough=2400)],
        paired={'dispatch_hs': [], 'hellos': ['leaf_cipher_suites', 'leaf_compressions', 'leaf_hs_server_hello', 'leaf_hs_server_hello_msg', 'mod_client_hello', 'leaf_hs_ske', 'leaf_hs_cke', 'leaf_hs_finished'], 'certs': ['leaf_hs_certificate'], 'bodies': ['leaf_hs_newsessionticket', 'leaf_hs_certificatestatus', 'leaf_hs_next_protocol'], 'bodies2': ['leaf_hs_hello_retry_request', 'leaf_hs_server_hello_msg']},
        standins=[_LONG_LISTS],
        explanation="see level_text",
    ),
    "C10": dict(
        level="proof",
        level_text="Unbounded deductive proofs (Verus) on the real parse_dtls_message_handshake (12-byte header fields verbatim, take(fragment_length), is_fragment <=> offset>0 or fragment_length<length, Fragment of exactly fragment_length bytes, body table, Switch otherwise), parse_dtls_plaintext_record (13-byte header, cap, Incomplete iff truncated with exact Needed, glue), parse_dtls_record_with_header and parse_dtls_plaintext_records (explicit loops). The 13-byte header decode is proved in Verus too (unit dtls: type, version, the epoch as the top 16 bits and the sequence number as the low 48 bits of the 64-bit word - bit-vector lemma - and the length) and is a full-domain Kani proof on the compiled code; the body parsers ClientHello with cookie (unit hellos: every field at its offset incl. the cookie between session id and cipher suites, all rejection rules, every cut-off Incomplete) and HelloVerifyRequest (unit bodies2) are proved unbounded in Verus as well and cross-checked by Kani contract harnesses on the compiled code, bounded in input length.",
        level_note="Trusted: nom shims (be_u8/16/24, take, map, map_parser, complete, many1); DTLS body parsers uninterpreted in unit dtls (proved in units hellos / bodies2); R9 (closure signature + ensures), R10 (constructor eta-expanded into a closure with its trivial contract); ServerHello/Certificate/ServerDone/ClientKeyExchange bodies are the C04 parsers (checked there).",
        technique="contract-based deductive verification: Verus on extracted dispatcher/record glue + Kani full-domain header harness and leaf harnesses",
        verus=["dtls", "dtls_many", "bodies2", "hellos"],
        standins=[_LONG_LISTS, dict(name="framing_boundaries", kind="bounded-execution", bound="declared lengths {0,1,2,3,16383..16385,16639..16641,32768,65535} x 3 content types x 8 prefix cuts, TLS raw/encrypted/plaintext/tls_parser + DTLS record (372 cases)", payload={"framing_boundary_check": 1})],
        kani=[dict(quick=["fd_dtls_header", "fd_dtls_ccs_alert", "fd_dtls_is_fragment", "leaf_dtls_hvr", "leaf_dtls_fragment", "mod_dtls_client_hello", "leaf_cipher_suites", "leaf_compressions", "shim_be", "shim_be64", "shim_take", "shim_map_parser", "shim_many1", "shim_verify", "shim_chunks_map_collect", "shim_iter_map_collect"], timeout=900)],
        paired={'hellos': ['mod_dtls_client_hello', 'leaf_cipher_suites', 'leaf_compressions'], 'dtls': ['fd_dtls_header', 'fd_dtls_is_fragment', 'leaf_dtls_fragment'], 'bodies2': ['leaf_dtls_hvr']},
        explanation="see level_text",
    ),
    "C16": dict(
        level="proof",
        level_text="Unbounded deductive proof (Verus) that the real bodies of tls_parser_many and parse_dtls_plaintext_records are the explicit accumulate-while-Ok loop over the single-record parser (records in order, remainder at the first record that fails or is incomplete), that they fail iff the first record does not parse (lemma, for a record parser that consumes input on success and never answers Failure), and that tls_parser(i) == parse_tls_plaintext(i). Relative to the nom many1/complete contracts, which Kani checks on the real nom (bounded).",
        level_note="Trusted: nom shim contracts complete/many1 (assumed in Verus; Kani shim_complete / shim_many1 on the real nom with a cheap element type, input <= 4 bytes - bounded, NOT proved); 'fun_of(parse_tls_plaintext) is the function it computes' (determinism of safe state-free code); single-record parsers abstract here (their contracts: C02, C10).",
        technique="contract-based deductive verification: Verus postconditions on extracted one-line bodies over relational combinator contracts",
        verus=["many", "dtls_many", "plaintext", "dtls"],
        kani=[dict(quick=["shim_complete", "shim_many1"], timeout=900)],
        standins=[dict(name="framing_boundaries", kind="bounded-execution", bound="declared lengths {0,1,2,3,16383..16385,16639..16641,32768,65535} x 3 content types x 8 prefix cuts, TLS raw/encrypted/plaintext/tls_parser + DTLS record (372 cases)", payload={"framing_boundary_check": 1}),
                  dict(name="multi_record_vs_explicit_loop", kind="bounded-execution", bound="all concatenations of <= 3 pieces from 13 TLS / 7 DTLS records and tails (2540 buffers)", payload={"multi_record_check": 1})],
        explanation="see level_text",
    ),
    "C13": dict(
        level="proof",
        level_text="Unbounded (Verus, unit derived, on the nom-derive GENERATED parser bodies taken from the macro-expanded crate source on every run, rule R13): ServerDHParams (three u16-prefixed fields), ECPoint, ECCurve, ExplicitPrimeContent (six u8-prefixed fields in RFC 4492 order), ECParametersContent under its selector (1 explicit prime, 3 named curve, every other curve type rejected with ErrorKind::Switch before a byte is read), ECParameters, ServerECDHParams, the hand-written entry points parse_dh_params / parse_ec_parameters / parse_ecdh_params, both DigitallySigned forms and parse_content_and_signature (for EVERY content parser value `fun` and both flag values: fun's error unchanged, else fun's value followed by the RFC 5246 signature iff ext, the length-only form iff !ext) are proved against the wire layout for every input length: the value fields are exactly the bytes at the offsets an encoder wrote them, the remainder is exactly the bytes after the encoding, every truncation is Incomplete. Kani contract harnesses on the COMPILED derive-generated parsers (bounded input length, complete in byte contents) cross-check the same layout on the binary and supply replayable counterexamples.",
        level_note="Proof relative to: the nom shim contracts length_data / be_u8 / be_u16 / make_error / map / pair (Kani shim_* harnesses on the real nom, bounded); nom-derive's integer Parse impls are nom's big-endian readers (asserted against the bytes by the Kani leaves); the macro expansion printed by rustc -Zunpretty=expanded is the code rustc compiles; rules R13 (parse_be lifted from the expansion, paths shortened, `T::parse` checked to be the generated delegation) and R14 (applied closure beta-reduced), R9 for the one closure of parse_digitally_signed_old. Machine integers are machine integers.",
        technique="contract-based deductive verification: Verus on the mechanically extracted macro-expanded parser bodies (unbounded) + Kani contract harnesses on the compiled code (bounded length)",
        verus=["derived"],
        paired={"derived": ["leaf_dh_params", "leaf_digitally_signed", "leaf_ec_parameters", "leaf_ecdh_params", "leaf_content_and_signature"]},
        kani=[dict(quick=["leaf_dh_params", "leaf_digitally_signed", "leaf_ec_parameters", "leaf_ecdh_params", "leaf_content_and_signature", "shim_pair", "shim_length_data", "shim_be"], timeout=900)],
        explanation="see level_text",
    ),
    "C14": dict(
        level="proof",
        level_text="Framing, unbounded (Verus, unit sct, on the real closure-free bodies): the single-SCT parser is the content parser's verdict on EXACTLY the declared u16 window, consuming exactly one length-prefixed entry; the list parser is the explicit accumulate-while-Ok loop of the single-entry parser over EXACTLY the declared list window (entries in wire order, an entry or list longer than its container never yields an SCT). Content decode, unbounded as well (Verus, unit sct_content): version = byte 0, log id = bytes 1..33, timestamp = the big-endian u64 at 33, extensions = the u16-prefixed field at 41, then hash byte, signature byte and the u16-prefixed signature, remainder = what follows, every truncation Incomplete - for every input length. Cross-check on the compiled code: Kani contract harness - single SCT entry (u16 prefix, version, 32-byte log id by pointer, be64 timestamp over the full range, u16 extensions, hash/signature bytes, u16 signature, exact consumption; a field cut off by the entry length never yields an SCT) on inputs <= 52 bytes; list framing (u16 total, confinement, entry longer than the list / list longer than the input never yields an SCT) on short inputs. Bounded in input length; the n-entry in-order clause rests on the many0 shim contract (Kani shim_many0).",
        level_note="The field-by-field decode of one SCT is a Verus proof relative to be_u64 (Kani shim_be64) and to the std reference conversion `<&[u8] as TryInto<&[u8; 32]>>::try_into` (rule R18: named as the shim function slice_try_into_array with core's definition as its contract - Kani shim_slice_try_into_array, loop-free and complete; parse_log_id itself - take(32), the conversion's `.expect(..)` never panicking, the struct literal - is proved; Kani leaf_sct_entry asserts the log id by pointer on the compiled code), repeated by bounded model checking (input <= 52 bytes) on the compiled code; the framing/ordering part is a Verus proof relative to the nom shim contracts (map_parser, length_data, take, many0, complete: Kani shim_* harnesses, bounded) and to 'fun_of(parse_ct_signed_certificate_timestamp) is the function it computes'. R11 (operand of `?` bound to a local) is applied to the list parser.",
        technique="contract-based deductive verification: Verus on the extracted entry/list framing (unbounded) and content decode (unbounded) + Kani contract harness for the SCT content decode on the compiled code (bounded)",
        verus=["sct", "sct_content"],
        standins=[dict(name="sct_lists", kind="bounded-execution", bound="lists of 0..5 well-formed SCTs in 3 shapes (minimal 49-byte entries, with extensions/signature, mixed)", payload={"sct_list_check": 1})],
        kani=[dict(quick=["leaf_sct_entry", "leaf_sct_list_tiny", "shim_many0", "shim_map_parser", "shim_length_data", "shim_be64", "shim_be", "shim_take", "shim_slice_try_into_array"], thorough=["leaf_sct_list_short"], timeout=900, timeout_thorough=2400)],
        paired={'sct_content': ['leaf_sct_entry'], 'sct': ['leaf_sct_entry', 'leaf_sct_list_tiny']},
        explanation="see level_text",
    ),
    "C15": dict(
        level="proof",
        level_text="Unbounded (Verus, unit accessors, on the real bodies): the ClientHello trait is kept as a trait - each required accessor gets a ghost twin (`random_spec()` ...) and `ensures r == self.random_spec()`; both impls (TLS, DTLS) define the twin as the structure's own field and their method bodies are proved against the trait's ensures, so every accessor returns the structure's own version / random / session id / cipher list / compression list / extension block. The DEFAULT methods are verified inside the trait, for every implementor: rand_time() == the big-endian u32 of the first four random bytes (0 for a random shorter than four bytes), rand_bytes() == everything after the first four bytes (the remaining 28 of a 32-byte random; empty when shorter), cipher_suites() == one entry per advertised id, in order, each the registry lookup of that id - for every random length and every list length. get_ciphers() (same chain on the field), get_cipher(), TlsCipherSuiteID::get_ciphersuite (== from_id of the raw id), new() of TlsClientHelloContents / TlsServerHelloContents and get_version() likewise. The registry lookup itself (phf map) is an uninterpreted function of the id here; that it is the IANA table is C12 (fd_from_id, fd_route_get_ciphersuite, fd_c12_rows over all 65536 ids, run by this check too). Kani contract harnesses repeat the accessor, rand_time (all 2^32 leading words), rand_bytes (random lengths 4..36), constructor and cipher-list clauses on the compiled code (bounded in list length).",
        level_note="Proof relative to: vstd's specifications of <[T]>::get(range), Option::and_then / map / unwrap_or, Result::ok, Vec::as_slice; the std shims iter_map_collect (R17, Kani shim_iter_map_collect), slice_try_into_array_copy (R18) and u32_from_be_bytes (R19) (Kani shim_u32_from_be_bytes: complete); the receiver of `.iter()` made an explicit `.as_slice()` (auto-deref written out); TlsCipherSuite::from_id is external_body with an uninterpreted result (C12). A change that uses a Vec method vstd has no specification for (e.g. dedup_by_key) is outside the subset: exit 2 for the unit, decided by the Kani harnesses.",
        technique="contract-based deductive verification: Verus on the extracted trait (default methods verified against trait-level ensures, impls against the trait contract), unbounded; Kani contract harnesses on the compiled code",
        verus=["accessors"],
        kani=[dict(quick=["leaf_ch_accessors_tls", "leaf_ch_accessors_dtls", "fd_server_hello_ctor", "mod_ch_cipher_suites", "fd_route_get_ciphersuite", "fd_from_id", "shim_iter_map_collect", "shim_u32_from_be_bytes"], timeout=900)],
        paired={'accessors': ['leaf_ch_accessors_tls', 'leaf_ch_accessors_dtls', 'fd_server_hello_ctor', 'mod_ch_cipher_suites']},
        explanation="see level_text",
    ),
    "C17": dict(
        level="proof",
        level_text="Complete proofs over finite domains (Kani, loop-free, every u8/u16 value): 205 named constants equal their IANA values (oracle transcribed from the IANA registries), all integer conversions are the identity, SignatureScheme splits into high/low byte with 0xFE00-0xFEFF reserved, key_bits() is the field size the curve name states and None for unregistered groups. Display/Debug TEXT is outside both verifiers' reach (no str reasoning in Verus, core::fmt too costly in CBMC): decided by an exhaustive-execution stand-in over all values of all 16 printing registry types, labelled as such and not counted as proved.",
        level_note="Trusted: oracles/iana_registries.py (hand transcription). The name/format stand-in executes format!() on the real crate for every value (18 x <= 65536) in a normal build; it is exhaustive but not deductive.",
        technique="full-domain Kani harnesses (complete proofs); exhaustive execution stand-in for formatted text",
        generators=["gen_c17.py"],
        kani=[dict(quick=["fd_c17_consts", "fd_conversions", "fd_signature_scheme", "fd_key_bits"], timeout=900)],
        standins=[dict(name="registry_names", kind="exhaustive-execution", bound="every value of every printing registry newtype (16 types x 256 or 65536 values)", payload={"names_check": 1})],
        explanation="see level_text",
    ),
    "C12": dict(
        level="proof",
        level_text="Complete proofs over finite domains (Kani): every row of scripts/tls-ciphersuites.txt (independent parser) is in the phf registry with all 10 columns (352 x 10 generated assertions), the registry has exactly that many entries, for every 16-bit id each lookup route returns a suite iff listed, carrying that id, all routes the same entry; derived sizes consistent for every entry; the three size functions enc_key_size / enc_block_size / mac_length are also proved in Verus (unit ciphers, real bodies) to be key bits / 8 and the block-size / MAC-length tables of the property for EVERY value of the structure, registry row or not. The txt itself is checked against a frozen snapshot (assignments never altered) and against the algorithm tokens of each name. By-name lookup over all strings is intractable for CBMC: exhaustive-execution stand-in over the listed names and ~15k perturbations (bounded, not proof).",
        level_note="Trusted: oracles/ciphersuites.snapshot (copy of the txt at the pinned commit); the generator's token rules. Name text in the row assertions is probed (length + 2 characters); full name equality is part of the by-name stand-in.",
        technique="generated full-domain Kani harnesses; Verus postconditions on the extracted size functions (every structure value); exhaustive execution stand-in for by-name lookup",
        generators=["gen_c12.py"],
        verus=["ciphers"],
        paired={"ciphers": ["fd_cipher_sizes"]},
        kani=[dict(quick=["fd_from_id", "fd_route_try_from_u16", "fd_route_try_from_id", "fd_route_get_ciphersuite", "fd_ciphers_len", "fd_cipher_sizes", "fd_c12_rows"], timeout=900)],
        standins=[dict(name="cipher_by_name", kind="bounded-execution", bound="352 listed names + every proper prefix, 4 suffixes, case/space changes and 10 token swaps each (~15.7k strings)", payload={"cipher_names_check": 1})],
        explanation="see level_text",
    ),
    "C06": dict(
        level="model_checking",
        level_text="Locality: unbounded Verus lemmas derived from the proved contracts of the real functions - raw/encrypted records (lemma_framing_local), plaintext records, handshake messages, single extensions (all three dispatchers), DTLS handshake messages and DTLS records, and (unit derived) ServerDHParams, ECPoint, ECParameters, ServerECDHParams and both DigitallySigned forms: a success on b is the same success on b ++ x with the remainder extended by x, and the outcome class is stable once the declared length is present. Leaf self-delimiting parsers (DH, ECDH, digitally-signed, extension framing, DTLS header, raw record) additionally by Kani relational harnesses on the compiled code (bounded length). Zero-copy/aliasing: every Kani leaf contract states each returned slice as pointer-identical to a sub-range of the input inside the structure's declared length and the remainder as the exact suffix (these conjuncts are the ones run here), so nothing is copied and nothing beyond the declared length is referenced.",
        level_note="NOT decided: aliasing of TlsRecordsParser results (fast path / nocopy alias the caller's record, defragmented results alias the internal buffer) - Verus slices carry no addresses and CBMC does not finish on the defragmenter (measured); SCT / SCT-list locality beyond the leaf contract (52-byte inputs twice exceed the budget). PskExchangeModes is Vec<u8> by design (exempt). forbid(unsafe_code) (checked by rustc) rules out a borrowed result being a hidden copy with a forged lifetime.",
        technique="contract-based deductive verification: Verus corollary lemmas over proved contracts + Kani relational and pointer-range contract harnesses",
        verus=["frame", "plaintext", "dispatch_hs", "dispatch_ext", "dtls", "derived"],
        kani=[dict(quick=["rel_local_raw_record", "rel_local_dh_params", "rel_local_ecdh_params", "rel_local_digitally_signed", "rel_local_ext_unknown", "rel_local_dtls_header",
                          "fd_raw_record_small", "fd_encrypted_small", "leaf_msg_heartbeat", "leaf_msg_appdata", "leaf_hs_certificate", "leaf_hs_certificatestatus", "leaf_ext_sni",
                          "leaf_ext_alpn", "leaf_ext_unknown", "leaf_dh_params", "leaf_ec_parameters", "leaf_digitally_signed", "leaf_sct_entry", "leaf_dtls_hvr", "leaf_dtls_fragment"],
                   timeout=900)],
        explanation="see level_text",
    ),
    "C11": dict(
        level="proof",
        level_text="For each enumerated code point the property lists, the hosting function's contract contains the conjunct 'field == the raw integer at its offset' and the harness leaves that byte/word fully symbolic and unconstrained, so the conjunct is decided for all 256 / 65536 values: record type and version (fd_record_header, Verus frame), alert level/description (fd_msg_alert), heartbeat type, ClientHello/ServerHello versions, cipher-suite and compression ids, extension type (Verus dispatch_ext: Unknown(type, data) for every unrecognised type; leaf_ext_unknown), named groups, signature/hash algorithms, SNI name type, certificate-status type, PSK modes, EC point formats, CT version, key-update value, DTLS header fields. Complete in the field value. The hosting functions are Verus units (unbounded in the length of the surrounding structure) for every listed field, including the elements of the cipher-suite / compression / named-group / version lists (the four list helpers are proved in Verus since rule R17, relative to the std iterator-chain shim) and the DTLS record header (Verus unit dtls and Kani full domain).",
        level_note="Certificate types of CertificateRequest are hosted by leaf_hs_certificate_request, which only runs in the thorough tier (768 s). No harness assumes anything about a listed field (assumption scan: vassume! is only applied to lengths/selectors).",
        technique="contract conjuncts over fully symbolic enumerated fields: Kani harnesses + Verus postconditions",
        verus=["frame", "dispatch_ext", "ext_contents", "ext_lists2", "messages", "bodies", "hellos", "derived", "sct_content", "certreq", "tagged", "dtls"],
        kani=[dict(quick=["fd_record_header", "fd_raw_record_small", "fd_encrypted_small", "fd_msg_alert", "leaf_msg_heartbeat", "mod_client_hello", "leaf_cipher_suites", "leaf_compressions",
                          "leaf_hs_server_hello_msg", "leaf_hs_hello_retry_request", "leaf_ext_unknown", "leaf_named_groups", "leaf_ext_elliptic_curves", "leaf_ext_signature_algorithms",
                          "leaf_digitally_signed", "leaf_ext_sni", "leaf_ext_status_request", "leaf_hs_certificatestatus", "leaf_ext_psk_modes", "leaf_ext_ec_point_formats",
                          "leaf_sct_entry", "fd_hs_key_update", "leaf_ec_parameters", "fd_dtls_header", "leaf_ext_supported_versions", "leaf_tls_versions", "shim_chunks_map_collect", "shim_iter_map_collect"],
                   thorough=["leaf_hs_certificate_request"], timeout=900, timeout_thorough=2400)],
        standins=[_LONG_LISTS],
        explanation="see level_text",
    ),
    "C01": dict(
        level="model_checking",
        level_text="'f(b) returns' = every compiler-inserted check (slice bounds, arithmetic overflow, unwrap/expect, debug_assert, unreachable) reachable from the function is discharged. Verus discharges them for all inputs on the extracted bodies (record framing, plaintext glue, handshake / extension / DTLS dispatchers, record-payload containers, multi-record parsers, every handshake body parser, the 16 tag-specific and 20 content extension parsers, the derive-generated key-exchange / signature / header / alert parsers taken from the macro expansion, the SCT content parser) and - with NO precondition on the object state, hence for every finite call sequence - on all four TlsRecordsParser methods, including the 10 MiB buffer bound. Kani discharges them on the compiled code (crate + nom + core, overflow checks and debug assertions on) for every body/content/leaf parser, with each manual index/subtraction guard site driven by its numeric parameter over the full usize/u16 domain (len-4, ext_len-1, len%2, len>i.len(), chunk[1], take(32)->[u8;32] expect, heartbeat len<3); bounded in input length.",
        level_note="NOT decided: the heap-use bound (neither verifier has a resource model; only the defragmenter's buffer cap is proved); Debug/Display of structured values (core::fmt is beyond CBMC's budget; tls_debug.rs has no indexing and one multiplication dh_g.len()*8 bounded by the parser's u16 length; registry newtypes' Display/Debug run for every value in the C17 stand-in); termination of nom's many0/many1 loops beyond the stated input bounds (their progress guard is in nom's source; the shim harnesses exercise it).",
        technique="contract-based deductive verification (Verus, unbounded) + Kani panic-freedom obligations on the compiled code (bounded length)",
        verus=["defrag", "frame", "plaintext", "many", "dispatch_hs", "dispatch_ext", "ext_lists", "bodies", "bodies2", "messages", "ext_contents", "ext_lists2", "sct", "dtls", "dtls_many",
               "hellos", "certs", "certreq", "tagged", "derived", "sct_content", "accessors"],
        kani=[dict(quick=["leaf_cipher_suites", "leaf_compressions", "leaf_tls_versions", "leaf_named_groups", "leaf_hs_newsessionticket", "leaf_ext_status_request", "leaf_ext_supported_versions",
                          "leaf_sct_entry", "leaf_msg_heartbeat", "leaf_prwh_heartbeat", "leaf_prwh_appdata", "fd_raw_record_small", "mod_client_hello", "mod_dtls_client_hello",
                          "leaf_hs_certificate", "leaf_ext_sni", "leaf_ec_parameters", "fd_dtls_header", "fd_defrag_default", "shim_chunks_map_collect", "shim_iter_map_collect", "shim_slice_try_into_array"],
                   thorough=["leaf_hs_certificate_request", "leaf_sct_list_short", "mod_client_hello_long"], timeout=900, timeout_thorough=2400)],
        standins=[dict(name="debug_format", kind="bounded-execution", bound="22 public parsers x (all inputs of length <= 2 + 276 boundary inputs of length 3..48): every Ok value is formatted with {:?}", payload={"debug_format_check": 1})],
        witness_search={"defrag": {"defrag_search": True, "depth": 3}},
        explanation="see level_text",
    ),
    "C09": dict(
        level="model_checking",
        level_text="Unbounded (Verus, unit serialize, on the real bodies of src/tls_serialize.rs, relative to the cookie-factory shim): WHICH BYTES each serializer emits, for every value and every length - length_be_u16 / length_be_u24 (a u16 / u24 prefix whose value is the byte count of exactly what follows: lemma_len16/24_consistent give it as len/256, len%256 ... for every body that fits the field), tagged_extension, HelloRequest, Finished, the three ClientKeyExchange forms and their dispatcher, session id and optional extension block, ServerHello (TLS 1.0-1.2 layout) and the draft-18 ServerHello field by field in RFC order, the ChangeCipherSpec message (the single byte 1), max_fragment_length, one SNI entry, one named group; and the three DISPATCHERS gen_tls_messagehandshake / gen_tls_message / gen_tls_extension: each supported variant goes to its own serializer and every other variant yields GenError::NotYetImplemented with nothing emitted. NOT in Verus (measured tool limit: Verus 0.2026.09.13 dies with an internal error when a fn item returning `impl Fn` is used as a function value, which is how `all(iter.map(gen))` / `many_ref(list, gen)` receive their element generators): gen_tls_clienthello, gen_tls_ext_sni, gen_tls_ext_elliptic_curves, gen_tls_extensions, gen_tls_plaintext - abstract outcomes in the unit, decided by the Kani harnesses and the stand-in only, which is why the level stays model_checking. Kani contract harnesses (crate built with --features serialize): the bytes emitted for ClientHello, ServerHello (TLS 1.0-1.2 / SSLv3 / draft-18 forms), ClientKeyExchange (opaque, DH, ECDH), Finished, HelloRequest, the ChangeCipherSpec message, SNI and max-fragment-length extensions equal an independent reference encoder's bytes, Finished / CCS are parsed back by the body parsers, every unsupported handshake variant / message kind / extension yields GenError::NotYetImplemented; length helpers for EVERY body length up to 65535 / 70000 bytes. Contents fully symbolic; list lengths tiny and concrete (bounded). For ServerHello the composition is itself proved: lemma_server_hello_is_rfc_encoding (unit serialize) shows that what gen_tls_serverhello emits is the handshake framing of exactly the encoder function enc_sh whose inversion by the parser is lemma_server_hello_roundtrip of unit hellos (the function text is taken from that unit; an absent extension block is written as an empty one). Round trip through the parsers follows by composition: the parser side - ClientHello / ServerHello for every legacy version and draft 18, ClientKeyExchange, Finished, HelloRequest decode exactly the RFC layout - is the Verus proof of units hellos / bodies, which this check runs too; the stand-in executes the round trip on 18 message shapes.",
        level_note="Verus part relative to verus/shim_cf.rs: cookie-factory's be_u8/be_u16/be_u24, slice, gen, tuple (one function per arity: R21), Vec<u8>'s io::Write never failing, `&F` being the serializer F, Result::and_then - assumptions there, obligations of Kani shim_cf_bytes / shim_cf_tuple on the real cookie-factory 0.3.3; rules R20 (SerializeFn alias written out), R21, R9 (closure signatures and contracts), R8 (From impls lifted), `ref` patterns on a reference scrutinee written without `ref` (default binding modes). NOT decided by Kani: TlsPlaintext record serialization and the supported_groups extension (cookie_factory `all(iter.map(..))` exhausts CBMC memory, measured; stand-in only), hellos with more than 2 ciphers / 1 compression. Trusted: the reference encoder in /verif/kani/ser_c09.rs (hand-written from RFC 5246 7.4 / RFC 6066).",
        technique="contract-based deductive verification: Verus postconditions ('emits exactly these bytes') on the extracted serializer functions relative to a cookie-factory shim (unbounded) + Kani contract harnesses vs an independent reference encoder (bounded) + execution stand-in for the list-based serializers",
        kani=[dict(quick=_SER + _SER_SHIMS, features=["serialize"], target="kani-serialize", timeout=900)],
        verus=["serialize", "hellos", "bodies"],
        paired={"serialize": ["leaf_ser_finished", "leaf_ser_cke_unknown", "leaf_ser_cke_dh", "leaf_ser_cke_ecdh", "fd_ser_hello_request", "fd_ser_ccs", "leaf_ser_server_hello_full", "leaf_ser_server_hello_d18_full", "leaf_ser_ext_max_fragment_length", "leaf_ser_length_u24", "leaf_ser_length_u16", "fd_ser_unsupported_0"]},
        standins=[dict(name="serializer_roundtrip", kind="bounded-execution", bound="342 handshake records of 1-2 messages from 18 shapes (every ServerHello legacy version with and without extensions, draft 18, ClientHello SSLv3..TLS1.2), the CCS record, 18 single messages, one SNI/max-fragment/groups extension list: length fields, complete parse-back, re-serialization of the parsed value byte for byte", payload={"serializer_roundtrip_check": 1})],
        explanation="see level_text",
    ),
}
