"""Run a set of Kani harnesses on the real crate (current /repo working tree) and classify."""
import os
import re

from common import BUILD, REPO, VERIF, run

TOOL_MODEL_PATTERNS = ("rust_dealloc", "free argument", "dead object", "deallocated dynamic object",
                       "pointer NULL", "pointer invalid", "pointer outside object bounds in free")


def kani_cmd(harnesses, features=None, jobs=16, timeout_s=300, target="kani", extra=None):
    if os.path.realpath(REPO) != "/repo":
        import hashlib
        target = target + "_" + hashlib.md5(REPO.encode()).hexdigest()[:8]
    cmd = ["cargo", "kani", "--target-dir", os.path.join(BUILD, target), "-Z", "stubbing",
           "-Z", "unstable-options", "--harness-timeout", "%ds" % timeout_s, "--output-format", "terse",
           "--exact"]
    if jobs > 1:
        cmd += ["-j", str(jobs)]
    if features:
        cmd += ["--features", ",".join(features)]
    for h in harnesses:
        cmd += ["--harness", h]
    if extra:
        cmd += extra
    return cmd


def harness_full_names():
    """scan /verif/kani/*.rs for harness!(name, ...) -> {short: 'verif_kani::<mod>::<name>'}"""
    out = {}
    kd = os.path.join(VERIF, "kani")
    for root, _, files in os.walk(kd):
        for f in files:
            if not f.endswith(".rs"):
                continue
            rel = os.path.relpath(os.path.join(root, f), kd)
            mod = rel[:-3].replace("/", "::")
            txt = open(os.path.join(root, f)).read()
            for m in re.finditer(r"^\s*harness!\(\s*(\w+)\s*,", txt, re.M):
                out[m.group(1)] = "verif_kani::%s::%s" % (mod, m.group(1))
            # rows of the tag_harnesses! table: `rel_tag_rej_x, rel_tag_x, ...;`
            for m in re.finditer(r"^\s*local_harness!\(\s*(\w+)\s*,", txt, re.M):
                out[m.group(1)] = "verif_kani::%s::%s" % (mod, m.group(1))
            for m in re.finditer(r"^\s*(rel_tag_\w+),\s*h_t\w+,", txt, re.M):
                out[m.group(1)] = "verif_kani::%s::%s" % (mod, m.group(1))
    return out


def parse_output(text, harnesses):
    """-> {short_name: {status: ok|failed|undecided|missing, failed_checks:[...], covers:(sat,total), time_s, reason}}"""
    res = {h: {"status": "missing", "failed_checks": [], "covers": None, "time_s": None, "reason": "no result block"} for h in harnesses}
    # split into blocks starting at "Thread N: " or "Checking harness"
    cur_by_thread = {}
    lines = text.split("\n")
    i = 0
    blocks = []  # (harness_full, [lines])
    cur = None
    single = None
    while i < len(lines):
        ln = lines[i]
        m = re.match(r"^(?:Thread (\d+): )?Checking harness ([\w:<>]+)\.\.\.", ln)
        if m:
            t = m.group(1) or "0"
            cur_by_thread[t] = m.group(2)
            single = m.group(2)
            i += 1
            continue
        m = re.match(r"^Thread (\d+):\s*$", ln)
        if m:
            t = m.group(1)
            blk = []
            i += 1
            while i < len(lines) and not re.match(r"^Thread \d+:", lines[i]) and not lines[i].startswith("Manual Harness Summary") \
                    and not lines[i].startswith("Checking harness"):
                blk.append(lines[i])
                i += 1
            blocks.append((cur_by_thread.get(t), blk))
            continue
        if ln.startswith("VERIFICATION RESULT:") and single is not None and not any(b[0] == single for b in blocks):
            # sequential (-j 1) output has no Thread prefix
            blk = []
            while i < len(lines) and not lines[i].startswith("Checking harness") and not lines[i].startswith("Manual Harness Summary"):
                blk.append(lines[i])
                i += 1
            blocks.append((single, blk))
            continue
        i += 1
    for full, blk in blocks:
        if not full:
            continue
        short = full.split("::")[-1]
        if short not in res:
            continue
        body = "\n".join(blk)
        r = res[short]
        r["reason"] = ""
        m = re.search(r"Verification Time: ([0-9.]+)s", body)
        if m:
            r["time_s"] = float(m.group(1))
        m = re.search(r"\*\* (\d+) of (\d+) failed", body)
        if m:
            r["checks_failed"], r["checks_total"] = int(m.group(1)), int(m.group(2))
        m = re.search(r"\*\* (\d+) of (\d+) cover properties satisfied", body)
        if m:
            r["covers"] = (int(m.group(1)), int(m.group(2)))
        fcs = []
        for fm in re.finditer(r"Failed Checks: (.*)\n\s*File: \"([^\"]*)\", line (\d+), in (.*)", body):
            fcs.append({"description": fm.group(1).strip(), "file": fm.group(2), "line": int(fm.group(3)), "function": fm.group(4).strip()})
        r["failed_checks"] = fcs
        if "VERIFICATION:- SUCCESSFUL" in body:
            r["status"] = "ok"
            if r["covers"] and r["covers"][0] != r["covers"][1]:
                r["status"] = "undecided"
                r["reason"] = "vacuity: %d of %d cover points reached" % r["covers"]
        elif "CBMC failed" in body and "Failed Checks" not in body and "timed out" not in body:
            r["status"] = "undecided"
            r["reason"] = "CBMC aborted (memory watchdog or crash)"
        elif "CBMC timed out" in body or "timed out" in body:
            r["status"] = "undecided"
            r["reason"] = "harness timeout"
        elif "VERIFICATION:- FAILED" in body:
            real = [f for f in fcs if classify_check(f) == "violation"]
            if real:
                r["status"] = "failed"
            else:
                r["status"] = "undecided"
                kinds = sorted(set(classify_check(f) for f in fcs)) or ["no failed check listed"]
                r["reason"] = "failed only on: " + ", ".join(kinds)
        elif re.search(r"timed out|Timeout|TIMEOUT", body, re.I):
            r["status"] = "undecided"
            r["reason"] = "harness timeout"
        else:
            r["status"] = "undecided"
            r["reason"] = "unrecognised result block: " + body[-300:]
    # timeouts are sometimes reported outside blocks
    for m in re.finditer(r"Harness ([\w:]+) timed out", text):
        short = m.group(1).split("::")[-1]
        if short in res:
            res[short]["status"] = "undecided"
            res[short]["reason"] = "harness timeout"
    return res


def classify_check(fc):
    d = fc["description"]
    if d.startswith("unwinding assertion"):
        return "unwinding-bound"
    if any(p in d for p in TOOL_MODEL_PATTERNS):
        return "tool-model"
    if "not currently supported by Kani" in d or "is not supported by Kani" in d:
        return "unsupported-construct"
    return "violation"


def run_watched(cmd, cwd, timeout, mem_limit_kb=14 * 1024 * 1024):
    """run cmd; kill any cbmc descendant whose RSS exceeds the limit (-> that harness is undecided)"""
    import subprocess, threading, time as _t
    from common import env
    p = subprocess.Popen(cmd, cwd=cwd, env=env(), stdout=subprocess.PIPE, stderr=subprocess.STDOUT, text=True, errors="replace",
                         start_new_session=True)
    killed = []
    stop = threading.Event()

    def watch():
        import os as _os
        while not stop.is_set():
            try:
                out = subprocess.run(["ps", "-eo", "pid,ppid,sid,rss,comm"], stdout=subprocess.PIPE, text=True).stdout
                for ln in out.split("\n")[1:]:
                    f = ln.split()
                    if len(f) >= 5 and f[4].startswith("cbmc") and f[2] == str(p.pid) and int(f[3]) > mem_limit_kb:
                        try:
                            _os.kill(int(f[0]), 9)
                            killed.append(int(f[0]))
                        except Exception:
                            pass
            except Exception:
                pass
            stop.wait(3)
    th = threading.Thread(target=watch, daemon=True)
    th.start()
    t0 = _t.time()
    try:
        so, _ = p.communicate(timeout=timeout)
        rc = p.returncode
    except subprocess.TimeoutExpired:
        import os as _os, signal as _sig
        try:
            _os.killpg(p.pid, _sig.SIGKILL)
        except Exception:
            pass
        so, _ = p.communicate()
        rc = -9
        so = (so or "") + "\nTIMEOUT"
    stop.set()
    return rc, so or "", "", _t.time() - t0, killed


def run_harnesses(harnesses, features=None, jobs=16, timeout_s=300, target="kani", wall_timeout=None):
    names = harness_full_names()
    missing = [h for h in harnesses if h not in names]
    if missing:
        return {"error": "harness not defined in /verif/kani: %s" % missing, "results": {}, "wall_s": 0, "cmd": ""}
    cmd = kani_cmd([names[h] for h in harnesses], features, min(jobs, max(1, len(harnesses))), timeout_s, target)
    rc, so, se, wall, killed = run_watched(cmd, REPO, wall_timeout)
    text = so + "\n" + se
    out = {"cmd": " ".join(cmd), "rc": rc, "wall_s": round(wall, 1), "results": {}, "error": "", "oom_killed": len(killed)}
    if "error: could not compile" in text or "error[E" in text or re.search(r"^error: ", text, re.M) and "VERIFICATION" not in text:
        errs = re.findall(r"^(error(?:\[E\d+\])?: .*)$", text, re.M)
        out["error"] = "build failed: " + " | ".join(errs[:8])
        out["log_tail"] = text[-4000:]
        return out
    out["results"] = parse_output(text, harnesses)
    out["log_tail"] = text[-6000:]
    if rc == -9:
        for h, r in out["results"].items():
            if r["status"] == "missing":
                r["status"] = "undecided"
                r["reason"] = "wall-clock timeout of the whole run"
    return out


def playback(harness, features=None, target="kani", timeout_s=600):
    """Re-run one failed harness with concrete playback; returns [{kind, description, vals}] - one entry per
    failed check / satisfied cover, vals = one byte vector per kani::any() in call order"""
    names = harness_full_names()
    cmd = kani_cmd([names[harness]], features, 1, timeout_s, target,
                   extra=["-Z", "concrete-playback", "--concrete-playback=print"])
    rc, so, se, wall = run(cmd, cwd=REPO, timeout=timeout_s + 120)
    text = so + "\n" + se
    tests = []
    for tm in re.finditer(r"/// Check for `([^`]*)`: \"(.*?)\"\s*\n(.*?)kani::concrete_playback_run", text, re.S):
        body = tm.group(3)
        m = re.search(r"let concrete_vals: Vec<Vec<u8>> = vec!\[(.*?)\n\s*\];", body, re.S)
        if not m:
            continue
        vals = []
        for vm in re.finditer(r"vec!\[([0-9,\s]*)\]", m.group(1)):
            vals.append([int(x) for x in vm.group(1).replace(" ", "").split(",") if x != ""])
        tests.append({"kind": tm.group(1), "description": tm.group(2), "vals": vals})
    return tests, text[-3000:]
