import json
import os
import re
import subprocess
import time

VERIF = os.path.dirname(os.path.dirname(os.path.abspath(__file__)))
REPO = os.environ.get("VERIF_REPO", "/repo")
BUILD = os.path.join(VERIF, ".build")
EVID = os.environ.get("VERIF_EVID", os.path.join(VERIF, "evidence"))
REPLAY_DIR = os.path.join(EVID, "replay")

OFFLINE_ENV = {"CARGO_NET_OFFLINE": "true", "GOPROXY": "off", "PIP_NO_INDEX": "1"}


def env():
    e = dict(os.environ)
    e.update(OFFLINE_ENV)
    return e


def run(cmd, cwd=None, timeout=None, extra_env=None):
    e = env()
    if extra_env:
        e.update(extra_env)
    t0 = time.time()
    try:
        p = subprocess.run(cmd, cwd=cwd, env=e, stdout=subprocess.PIPE, stderr=subprocess.PIPE,
                           timeout=timeout, text=True, errors="replace")
        return p.returncode, p.stdout, p.stderr, time.time() - t0
    except subprocess.TimeoutExpired as ex:
        def s(x):
            if x is None:
                return ""
            return x if isinstance(x, str) else x.decode("utf-8", "replace")
        return -9, s(ex.stdout), s(ex.stderr) + "\nTIMEOUT", time.time() - t0


def load_known_findings():
    """known_findings.txt: lines
         finding: property=<id> obligation=<name> <what fails>
         fixed: property=<id> <commit> <what failed>
       Only 'finding:' lines suppress, and only the exact (property, obligation) pair."""
    path = os.path.join(VERIF, "known_findings.txt")
    out = []
    if not os.path.exists(path):
        return out
    for line in open(path):
        line = line.strip()
        if not line.startswith("finding:"):
            continue
        m = re.match(r"finding:\s+property=(\S+)\s+obligation=(\S+)\s+(.*)$", line)
        if m:
            out.append({"property": m.group(1), "obligation": m.group(2), "what": m.group(3)})
    return out


def safe_name(s):
    return re.sub(r"[^A-Za-z0-9_.-]+", "_", s)[:120]


def write_json(path, obj):
    os.makedirs(os.path.dirname(path), exist_ok=True)
    tmp = path + ".tmp"
    with open(tmp, "w") as f:
        json.dump(obj, f, indent=1, sort_keys=False)
        f.write("\n")
    os.replace(tmp, path)
