"""Run one Verus unit: extract from /repo, verify, classify every obligation."""
import json
import os
import re
import sys

from common import BUILD, REPO, VERIF, run

VERUS_DIR = os.path.join(VERIF, "verus")
sys.path.insert(0, VERUS_DIR)
import extract as X  # noqa: E402
import hashlib  # noqa: E402

# a tree other than /repo (evaluation of a seeded change on a scratch worktree) gets its own scratch files, so that
# it can run next to a check of /repo
_TAG = "" if os.path.realpath(REPO) == "/repo" else "_" + hashlib.md5(REPO.encode()).hexdigest()[:8]


def _origin(linemap, line):
    for e in linemap:
        if e["first"] <= line <= e["last"]:
            return e["origin"]
    return "?"


def _enclosing_fn(text_lines, line):
    for k in range(line - 1, -1, -1):
        m = re.match(r"\s*(pub(\([a-z]+\))?\s+)?(proof\s+|exec\s+|spec\s+|const\s+|open\s+|closed\s+)*fn\s+(\w+)", text_lines[k])
        if m:
            return m.group(4)
    return "?"


_CLEAN = set()


def _register_cleanup(d):
    if d in _CLEAN:
        return
    _CLEAN.add(d)
    import atexit, shutil

    def _rm():
        # keep the last generated files of this process next to the per-process directories, for inspection
        keep = os.path.dirname(d)
        try:
            for f in os.listdir(d):
                if f.endswith(".rs"):
                    os.replace(os.path.join(d, f), os.path.join(keep, f))
        except OSError:
            pass
        shutil.rmtree(d, ignore_errors=True)
    atexit.register(_rm)


def run_unit(name, canary=False, timeout=600):
    """returns dict(status=ok|failed|undecided, functions=[...], failures=[...], ...)"""
    unit_path = os.path.join(VERUS_DIR, "units", name + ".py")
    # one scratch directory per process: two checks that run the same unit at the same time never share a file
    out_dir = os.path.join(BUILD, "verus" + _TAG, "p%d" % os.getpid())
    os.makedirs(out_dir, exist_ok=True)
    _register_cleanup(out_dir)
    tag = name + ("_canary" if canary else "")
    rs = os.path.join(out_dir, tag + ".rs")
    res = {"unit": name, "canary": canary, "file": rs, "status": "undecided", "functions": [],
           "failures": [], "reason": "", "diffs": [], "wall_s": 0.0, "smt_s": 0.0,
           "cmd": "verus %s --output-json --time --multiple-errors 50 -- --error-format=json" % rs}
    X.CANARY = canary
    try:
        unit = X.load_unit(unit_path)
        if unit.get("needs_expanded"):
            err = expand_crate()
            X.EXPANDED_PATH = EXPANDED
            if err:
                res["reason"] = "macro expansion failed: " + err
                return res
        text, linemap, diffs, functions = X.extract(unit, REPO, VERUS_DIR)
    except X.AnchorLost as e:
        res["reason"] = "extraction: anchor lost: %s" % e
        return res
    finally:
        X.CANARY = False
    open(rs, "w").write(text)
    res["diffs"] = diffs
    res["unit_functions"] = [{"name": n, "file": f, "contract": c, "external_body": e} for n, f, c, e in functions]
    res["property"] = unit.get("property", [])
    _verify_text(res, rs, text, linemap, out_dir, timeout)
    if not canary:      # (the vacuity canary IS a failing assert at the head of each body: it must stay)
        _ablate_stale_hints(res, rs, text, linemap, out_dir, timeout)
    return res


def _ablate_stale_hints(res, rs, text, linemap, out_dir, timeout):
    """A failed `assert` inside an EXEC function of the extract is a failed proof HINT (the repository's code has no Verus
    asserts; debug_assert! reaches us through a macro expansion and is not touched).  A hint is not part of any contract:
    if it no longer describes the code, it is dropped (`assert(true)`) and the function is verified again, so that what
    gets reported is the verdict on the CONTRACT - a postcondition that still holds without the hint is not an alarm, one
    that fails is reported as the failed obligation."""
    modes = {f["function"].split("::")[-1]: f.get("mode", "") for f in res.get("functions", [])}
    dropped = []
    cur = text
    for _round in range(10):
        stale = [f for f in res.get("failures", []) if f["message"].strip() == "assertion failed" and f.get("span")
                 and modes.get(f["function"], "exec") == "exec"]
        if not stale:
            break
        # replace the asserted expression by `true` (a whole `assert forall .. implies .. by {..}` statement is removed),
        # last span first so that earlier offsets stay valid
        starts = [0]
        for ln in cur.split("\n"):
            starts.append(starts[-1] + len(ln) + 1)
        for f in sorted(stale, key=lambda f: (f["span"][0], f["span"][1]), reverse=True):
            l0, c0, l1, c1 = f["span"]
            a, b = starts[l0 - 1] + c0 - 1, starts[l1 - 1] + c1 - 1
            k = cur.rfind("assert", 0, a)
            if k >= 0 and re.match(r"assert\s+forall\b", cur[k:a]):
                m2 = re.match(r"\s*by\s*\{", cur[b:])
                if m2:
                    depth, e = 0, b + m2.end() - 1
                    while e < len(cur):
                        if cur[e] == "{":
                            depth += 1
                        elif cur[e] == "}":
                            depth -= 1
                            if depth == 0:
                                break
                        e += 1
                    e += 1
                else:
                    e = b
                if cur[e:e + 1] == ";":
                    e += 1
                cur = cur[:k] + re.sub(r"[^\n]", " ", cur[k:e]) + cur[e:]
            else:
                cur = cur[:a] + "true" + re.sub(r"[^\n]", " ", cur[a:b])[4:] + cur[b:] if b - a >= 4 else cur[:a] + "true" + cur[b:]
            dropped.append({"function": f["function"], "hint": f["clause"][:160], "origin": f["origin"]})
        res2 = {k: res[k] for k in ("unit", "canary", "file", "diffs", "unit_functions", "property", "cmd") if k in res}
        res2.update({"status": "undecided", "functions": [], "failures": [], "reason": "", "wall_s": res.get("wall_s", 0), "smt_s": 0.0})
        rs2 = rs[:-3] + "_nohint.rs"
        _verify_text(res2, rs2, cur, linemap, out_dir, timeout)
        for k in ("status", "functions", "failures", "undecided", "reason", "verified", "errors", "wall_s", "smt_s", "rendered"):
            if k in res2:
                res[k] = res2[k]
        res["file"] = rs2
    if dropped:
        res["stale_hints_dropped"] = dropped
        if res["status"] == "ok":
            res["note"] = "%d proof hint(s) no longer described the code and were dropped; every contract verifies without them" % len(dropped)


def _verify_text(res, rs, text, linemap, out_dir, timeout):
    """run verus on one generated file and classify every error; fills res (status, failures, undecided, functions ..)"""
    open(rs, "w").write(text)
    rc, so, se, wall = run(["verus", rs, "--output-json", "--time", "--multiple-errors", "50", "--",
                            "--error-format=json"], cwd=out_dir, timeout=timeout)
    res["wall_s"] = round(res.get("wall_s", 0) + wall, 2)
    try:
        data = json.loads(so)
    except Exception:
        res["reason"] = "verus produced no JSON (rc=%s): %s" % (rc, (se or so)[-2000:])
        return res
    vr = data.get("verification-results", {})
    lines = text.split("\n")
    errors = []
    for l in se.split("\n"):
        l = l.strip()
        if not l.startswith("{"):
            continue
        try:
            d = json.loads(l)
        except Exception:
            continue
        if d.get("level") != "error":
            continue
        if d.get("message", "").startswith("aborting due to"):
            continue
        spans = d.get("spans", [])
        errors.append({"message": d.get("message", ""), "spans": spans, "rendered": d.get("rendered", "")})
    if vr.get("encountered-vir-error") or (not vr.get("success") and vr.get("errors", 0) == 0) or "verified" not in vr:
        # front-end / unsupported construct / type error: not a verdict on the property
        res["reason"] = "verus front-end error (unsupported construct or type error): " + \
            "; ".join(e["message"] for e in errors)[:1500]
        res["rendered"] = "\n".join(e["rendered"] for e in errors)[:6000]
        return res
    try:
        fb = data["times-ms"]["smt"]["smt-run-module-times"][0]["function-breakdown"]
    except Exception:
        fb = []
    fns = []
    for f in fb:
        fns.append({"function": f["function"].split("::", 1)[-1], "mode": f.get("mode:", f.get("mode", "")),
                    "success": bool(f.get("success")), "time_us": f.get("time-micros", 0), "rlimit": f.get("rlimit", 0)})
    res["functions"] = fns
    res["smt_s"] = round(sum(f["time_us"] for f in fns) / 1e6, 3)
    res["verified"] = vr.get("verified", 0)
    res["errors"] = vr.get("errors", 0)
    # rlimit / timeout messages are "undecided", everything else is a failed obligation
    undecided_msgs = ("rlimit", "resource limit", "timed out", "timeout")
    fails = []
    undecided = []
    for e in errors:
        ours = [s for s in e["spans"] if os.path.basename(s.get("file_name", "")) == os.path.basename(rs)]
        sp_primary = [s for s in ours if s.get("is_primary")] or ours
        direct_span = bool(sp_primary)
        # a span inside a macro expansion (debug_assert!) points into std: follow the expansion back to our file
        if not sp_primary:
            for s0 in e["spans"]:
                ex = s0.get("expansion")
                while ex:
                    sp = ex.get("span", {})
                    if os.path.basename(sp.get("file_name", "")) == os.path.basename(rs):
                        sp_primary = [sp]
                        break
                    ex = sp.get("expansion")
                if sp_primary:
                    break
        line = sp_primary[0]["line_start"] if sp_primary else 0
        fn = _enclosing_fn(lines, line) if line else "?"
        clause = ""
        for s in (ours or sp_primary):
            lab = s.get("label") or ""
            if "failed" in lab or s.get("is_primary"):
                t = s.get("text") or []
                if t:
                    clause = t[0].get("text", "").strip()
                    cl_line = s["line_start"]
                    break
        origin = _origin(linemap, line)
        ob = {"function": fn, "message": e["message"], "clause": clause[:200], "line": line,
              "origin": origin, "rendered": e["rendered"][:3000],
              "span": ([sp_primary[0].get(k) for k in ("line_start", "column_start", "line_end", "column_end")] if sp_primary and direct_span else None)}
        if any(u in e["message"].lower() for u in undecided_msgs):
            undecided.append(ob)
        else:
            fails.append(ob)
    res["failures"] = fails
    res["undecided"] = undecided
    if fails:
        res["status"] = "failed"
    elif undecided or not vr.get("success"):
        res["status"] = "undecided"
        res["reason"] = "solver resource limit: " + "; ".join(u["function"] for u in undecided)
    else:
        res["status"] = "ok"
    return res




EXPANDED = os.path.join(BUILD, "expand", "expanded%s.rs" % _TAG)


def _tree_digest():
    h = hashlib.sha256()
    files = [os.path.join(REPO, "Cargo.toml"), os.path.join(REPO, "Cargo.lock"), os.path.join(REPO, "build.rs")]
    for d, _, fs in sorted(os.walk(os.path.join(REPO, "src"))):
        files += [os.path.join(d, f) for f in sorted(fs)]
    for d, _, fs in sorted(os.walk(os.path.join(REPO, "scripts"))):
        files += [os.path.join(d, f) for f in sorted(fs)]
    for f in files:
        if os.path.isfile(f):
            h.update(f.encode() + b"\0" + open(f, "rb").read() + b"\0")
    return h.hexdigest()


def expand_crate():
    """macro-expand the current /repo tree (derive(Nom) output) with the nightly toolchain; returns error text or ''.
    The expansion is reused only while the content digest of every input file of the crate is unchanged."""
    os.makedirs(os.path.dirname(EXPANDED), exist_ok=True)
    dig = _tree_digest()
    stamp = EXPANDED + ".digest"
    if os.path.exists(EXPANDED) and os.path.exists(stamp) and open(stamp).read() == dig:
        return ""
    tgt = os.path.join(BUILD, "expand", "target" + _TAG)
    rc, so, se, wall = run(["cargo", "+nightly", "rustc", "--offline", "--lib", "--target-dir", tgt, "--", "-Zunpretty=expanded"], cwd=REPO, timeout=900)
    if rc != 0 or "mod tls_dh" not in so:
        return (se or so)[-1500:]
    tmp = EXPANDED + ".tmp%d" % os.getpid()
    open(tmp, "w").write(so)
    os.replace(tmp, EXPANDED)
    open(stamp, "w").write(dig)
    return ""


def obligation_name(unit, f):
    kind = "closure_postcondition" if "post-condition of closure" in f["message"] else \
        "postcondition" if "postcondition" in f["message"] else \
        "precondition" if "precondition" in f["message"] else \
        "assertion" if "assert" in f["message"] else \
        "overflow" if "overflow" in f["message"] or "underflow" in f["message"] else \
        "invariant" if "invariant" in f["message"] else "obligation"
    slug = re.sub(r"[^A-Za-z0-9]+", "_", f.get("clause", ""))[:48].strip("_")
    return "verus:%s::%s::%s%s" % (unit, f["function"], kind, ("[" + slug + "]") if slug else "")


def canary_check(name, ok_result, timeout=600):
    """Re-run with assert(false) at the head of every contracted body; every one must FAIL."""
    r = run_unit(name, canary=True, timeout=timeout)
    contracted = [f["name"].split("::")[-1] for f in ok_result.get("unit_functions", []) if f["contract"] and not f["external_body"]]
    if r["status"] == "undecided":
        return {"ok": False, "reason": "canary run undecided: " + r["reason"], "wall_s": r["wall_s"]}
    failing = set(f["function"] for f in r["failures"])
    vac = [c for c in contracted if c not in failing]
    return {"ok": not vac, "vacuous": vac, "checked": contracted, "wall_s": r["wall_s"]}
