"""Property-level orchestration: run Verus units + Kani harness sets, classify, replay, evidence."""
import json
import os
import re
import sys
import time

import common
import kani_run
import verus_run
from common import EVID, REPLAY_DIR, VERIF, REPO, BUILD, run, write_json, safe_name

import checks  # /verif/checks.py

TRUSTED_BASE_COMMON = [
    "Verus 0.2026.09.13 + Z3, Kani 0.68 + CBMC 6.11 (CaDiCaL), rustc: the verifiers themselves",
    "nom 7.1.3 / nom-derive / phf / cookie-factory / core+alloc: executed for real (bit-precise) under Kani within the stated length bounds; under Verus only through the shim contracts in /verif/verus/shim_nom.rs, each of which is an obligation of a Kani shim_* harness",
    "Verus extraction rewrites R0-R19 and the trait item kind (DESIGN 2.2; logged per item as diffs in this file under coverage.extraction_diffs)",
    "vstd specifications of Vec / slice / Option / Result; the std shim verus/shim_std.rs (iterator chains, slice->array conversions, u32::from_be_bytes: assumed in Verus, each an obligation of a Kani shim_* harness on the real core/alloc)",
    "machine arithmetic is NOT treated as mathematical: Verus exec integers carry overflow obligations, Kani is bit-precise",
]


def _replay_build():
    """(re)build the replay crate against the current repo tree; returns path to binary or None"""
    src = os.path.join(VERIF, "replay")
    tdir = os.path.join(BUILD, "replay")
    run([sys.executable, os.path.join(src, "gen_registry.py")], cwd=src)
    if os.path.realpath(REPO) != "/repo":
        # evaluation of a scratch copy of the repository (VERIF_REPO): same crate sources, path dependency redirected
        import shutil, hashlib
        tag = hashlib.md5(REPO.encode()).hexdigest()[:8]
        alt = os.path.join(BUILD, "replay_src_" + tag)
        if os.path.isdir(alt):
            shutil.rmtree(alt)
        shutil.copytree(src, alt, ignore=shutil.ignore_patterns("target"))
        ct = open(os.path.join(alt, "Cargo.toml")).read().replace('path = "/repo"', 'path = "%s"' % REPO)
        open(os.path.join(alt, "Cargo.toml"), "w").write(ct)
        mr = open(os.path.join(alt, "src", "main.rs")).read()
        open(os.path.join(alt, "src", "main.rs"), "w").write(mr)
        src, tdir = alt, os.path.join(BUILD, "replay_" + tag)
    rc, so, se, wall = run(["cargo", "build", "--offline", "--release", "--features", "serialize", "--target-dir", tdir],
                           cwd=src, timeout=900)
    binp = os.path.join(tdir, "release", "replay")
    if rc != 0 or not os.path.exists(binp):
        return None, (se or so)[-3000:]
    return binp, ""


def _replay_run(binp, harness, vals):
    """run a recorded counterexample against the real code in a normal build"""
    payload = json.dumps({"harness": harness, "vals": vals})
    import subprocess
    try:
        p = subprocess.run([binp, "--stdin"], input=payload, stdout=subprocess.PIPE, stderr=subprocess.PIPE,
                           text=True, timeout=120, env=common.env())
    except subprocess.TimeoutExpired:
        return {"outcome": "timeout"}
    try:
        return json.loads(p.stdout.strip().split("\n")[-1])
    except Exception:
        return {"outcome": "error", "stdout": p.stdout[-1500:], "stderr": p.stderr[-1500:]}


def replay_file(prop, path):
    d = json.load(open(path))
    if d.get("witness_search") and d.get("inputs") and "defrag_search" not in d["witness_search"]:
        binp, err = _replay_build()
        if not binp:
            print("replay crate failed to build: " + err)
            return 2
        import subprocess
        pr = subprocess.run([binp, "--stdin"], input=json.dumps(d["witness_search"]), stdout=subprocess.PIPE,
                            stderr=subprocess.PIPE, text=True, timeout=600, env=common.env())
        print(pr.stdout.strip())
        if '"violation"' in pr.stdout:
            print("VIOLATION property=%s replay=%s" % (prop, path))
            return 1
        return 0
    if d.get("witness_search") and d.get("inputs"):
        binp, err = _replay_build()
        if not binp:
            print("replay crate failed to build: " + err)
            return 2
        import subprocess
        pr = subprocess.run([binp, "--stdin"], input=json.dumps({"defrag_history": d["inputs"]}), stdout=subprocess.PIPE,
                            stderr=subprocess.PIPE, text=True, timeout=120, env=common.env())
        print(pr.stdout.strip())
        if '"violation"' in pr.stdout:
            print("VIOLATION property=%s replay=%s" % (prop, path))
            return 1
        return 0
    if not d.get("inputs") or not d.get("harness"):
        print("replay file carries no concrete input (obligation %s); verifier output:\n%s" % (d.get("obligation"), d.get("verifier_output", "")[:3000]))
        return 1
    binp, err = _replay_build()
    if not binp:
        print("replay crate failed to build: " + err)
        return 2
    r = _replay_run(binp, d["harness"], d["inputs"])
    print(json.dumps(r, indent=1))
    if r.get("outcome") == "violation":
        print("VIOLATION property=%s replay=%s" % (prop, path))
        return 1
    return 0


def check_property(pid, tier, seed, canary=True):
    t0 = time.time()
    if pid not in checks.PROPS:
        print("unknown or not-applicable property " + pid)
        return 2
    cfg = checks.PROPS[pid]
    known = [k for k in common.load_known_findings() if k["property"] == pid]
    known_obl = {k["obligation"]: k for k in known}

    if os.path.isdir(REPLAY_DIR):
        for f in os.listdir(REPLAY_DIR):
            if f.startswith(pid + "-"):
                os.remove(os.path.join(REPLAY_DIR, f))

    violations = []     # dicts: obligation, kind, detail, harness?, verifier_output
    undecided = []      # strings
    discharged_P = []   # names
    discharged_B = []
    all_P = []
    all_B = []
    samples = []
    functions = set()
    diffs = []
    cmds = []
    solver_time = {}
    bounds = {}
    assumptions = list(cfg.get("assumptions", []))
    nontrivial = set()
    evaluations = 0

    # ------------------------------------------------------------------ generators (regenerate harness text from oracles / repo data)
    stand_in_results = []
    for gen in cfg.get("generators", []):
        rc, so, se, wall = run([sys.executable, os.path.join(VERIF, "bin", gen)], cwd=VERIF, timeout=300)
        cmds.append("bin/" + gen)
        if rc != 0:
            undecided.append("generator %s failed: %s" % (gen, (se or so)[-500:]))
        for ln in so.split("\n"):
            if ln.startswith("DATA-VIOLATION: "):
                d = ln[len("DATA-VIOLATION: "):]
                violations.append({"obligation": "data:%s:%s" % (gen, safe_name(d)[:70]), "engine": "generator", "detail": d, "verifier_output": ln})

    # ------------------------------------------------------------------ Verus units
    units = list(cfg.get("verus", []))
    if tier == "thorough":
        units += [u for u in cfg.get("verus_thorough", []) if u not in units]
    verus_fail_units = {}
    for u in units:
        r = verus_run.run_unit(u)
        cmds.append(r["cmd"])
        solver_time["verus:" + u] = r.get("smt_s", 0)
        for d in r.get("diffs", []):
            diffs.append({"unit": u, "item": d["item"], "rules": d["rules"], "diff_lines": len(d["diff"])})
        for f in r.get("unit_functions", []):
            if f["external_body"]:
                assumptions.append("verus:%s: %s is external_body - its contract is ASSUMED in Verus (checked by Kani where a shim_/leaf_ harness names it)" % (u, f["name"]))
            elif f["contract"]:
                functions.add("%s (%s) [verus:%s, unbounded]" % (f["name"], f["file"], u))
        for d in r.get("stale_hints_dropped", []):
            assumptions.append("verus:%s: a proof hint in %s no longer described the code and was dropped before the verdict (hints are not obligations): %s" % (u, d["function"], d["hint"][:120]))
        if r["status"] == "undecided":
            undecided.append("verus:%s: %s" % (u, r["reason"]))
            all_P.append("verus:%s" % u)
            continue
        contracted = set(x["name"].split("::")[-1] for x in r.get("unit_functions", []) if x["contract"] and not x["external_body"])
        for f in r["functions"]:
            name = "verus:%s::%s" % (u, f["function"])
            all_P.append(name)
            evaluations += 1
            if f["success"]:
                discharged_P.append(name)
                # non-trivial: a real function under contract, or a lemma about the contract (not a derived clone/eq impl)
                if f["function"].split("::")[-1] in contracted or f["mode"] == "proof":
                    nontrivial.add(name)
        for f in r["failures"]:
            ob = verus_run.obligation_name(u, f)
            violations.append({"obligation": ob, "engine": "verus", "unit": u, "function": f["function"],
                               "clause": f["clause"], "origin": f["origin"],
                               "detail": f["message"] + ": " + f["clause"], "verifier_output": f["rendered"]})
            verus_fail_units[u] = True
        for f in r.get("undecided", []):
            undecided.append("verus:%s::%s: %s" % (u, f["function"], f["message"]))
        if r["status"] == "ok":
            samples.append({"engine": "verus", "unit": u, "verified": r.get("verified"), "functions": [f["function"] for f in r["functions"] if f["mode"] in ("exec", "proof")][:40]})
            if canary and not cfg.get("no_canary"):
                c = verus_run.canary_check(u, r)
                solver_time["verus:%s:canary" % u] = c.get("wall_s", 0)
                if not c["ok"]:
                    undecided.append("verus:%s: vacuity canary: %s" % (u, c.get("reason") or ("assert(false) verified inside " + ",".join(c.get("vacuous", [])))))
                else:
                    samples.append({"engine": "verus", "unit": u, "vacuity_canary": "assert(false) rejected in " + ",".join(c["checked"])})

    # ------------------------------------------------------------------ Kani harness sets
    groups = []
    for g in cfg.get("kani", []):
        hs = list(g.get("quick", []))
        if tier == "thorough":
            hs += [h for h in g.get("thorough", []) if h not in hs]
        if hs:
            groups.append((g, hs))
    # paired harnesses of a failed verus unit are added so that a counterexample can be found
    failed_kani = []
    for g, hs in groups:
        feats = g.get("features")
        target = g.get("target", "kani")
        out = kani_run.run_harnesses(hs, feats, jobs=int(os.environ.get("VERIF_JOBS", "16")),
                                     timeout_s=g.get("timeout_%s" % tier, g.get("timeout", 300)), target=target,
                                     wall_timeout=g.get("wall_timeout", 3000))
        cmds.append(out["cmd"])
        if out["error"]:
            undecided.append("kani: " + out["error"])
            for h in hs:
                (all_P if checks.HARNESS.get(h, {}).get("proved") else all_B).append("kani:" + h)
            continue
        for h in hs:
            meta = checks.HARNESS.get(h, {})
            r = out["results"].get(h, {"status": "missing", "reason": "no output"})
            name = "kani:" + h
            evaluations += 1
            is_P = bool(meta.get("proved"))
            (all_P if is_P else all_B).append(name)
            for fn in meta.get("fns", []):
                functions.add("%s [kani:%s, %s]" % (fn, h, "full domain" if is_P else "bounded: " + meta.get("bound", "?")))
            if meta.get("bound"):
                bounds[h] = meta["bound"]
            if r.get("time_s") is not None:
                solver_time[name] = r["time_s"]
            if r["status"] == "ok":
                (discharged_P if is_P else discharged_B).append(name)
                nontrivial.add(name)
                samples.append({"engine": "kani", "harness": h, "kind": meta.get("kind"), "checks": r.get("checks_total"),
                                "covers": list(r["covers"]) if r.get("covers") else None, "time_s": r.get("time_s")})
            elif r["status"] == "failed":
                fcs = [f for f in r["failed_checks"] if kani_run.classify_check(f) == "violation"]
                for f in fcs:
                    violations.append({"obligation": "kani:%s::%s" % (h, safe_name(f["description"])[:80]), "engine": "kani",
                                       "harness": h, "features": feats, "target": target, "description": f["description"],
                                       "detail": "%s (%s:%d in %s)" % (f["description"], f["file"], f["line"], f["function"]),
                                       "verifier_output": json.dumps(r["failed_checks"], indent=1)})
            else:
                undecided.append("%s: %s" % (name, r.get("reason", r["status"])))

    # ------------------------------------------------------------------ bounded / exhaustive-execution stand-ins (never counted as proved)
    if cfg.get("standins"):
        binp0, err0 = _replay_build()
        for st in cfg["standins"]:
            if not binp0:
                undecided.append("stand-in %s: replay crate did not build: %s" % (st["name"], err0[-300:]))
                continue
            import subprocess
            try:
                pr = subprocess.run([binp0, "--stdin"], input=json.dumps(st["payload"]), stdout=subprocess.PIPE, stderr=subprocess.PIPE,
                                    text=True, timeout=900, env=common.env())
                rr = json.loads(pr.stdout.strip().split("\n")[-1])
            except Exception as ex:
                rr = {"outcome": "error", "detail": str(ex)}
            stand_in_results.append({"name": st["name"], "kind": st["kind"], "bound": st["bound"], "result": rr})
            if rr.get("outcome") == "violation":
                violations.append({"obligation": "standin:" + st["name"], "engine": "standin", "detail": rr.get("detail", ""),
                                   "verifier_output": json.dumps(rr), "standin_payload": st["payload"]})
            elif rr.get("outcome") != "ok":
                undecided.append("stand-in %s: %s" % (st["name"], rr))

    # ------------------------------------------------------------------ known findings, replay
    new_viol = []
    known_hit = []
    seen_obl = set()
    for v in violations:
        if v["obligation"] in seen_obl:
            continue
        seen_obl.add(v["obligation"])
        if v["obligation"] in known_obl:
            known_hit.append(known_obl[v["obligation"]])
        else:
            new_viol.append(v)
    for k in {k["obligation"]: k for k in known_hit}.values():
        print("KNOWN-FINDING: property=%s %s (obligation %s)" % (pid, k["what"], k["obligation"]))

    viol_lines = []
    if new_viol:
        os.makedirs(REPLAY_DIR, exist_ok=True)
        binp = None
        playback_cache = {}
        ws_cache = {}
        # paired Kani harnesses of failed Verus units: one parallel run to find the ones that fail
        paired_failed = {}
        need = []
        for v in new_viol:
            if v["engine"] == "verus":
                for hh in cfg.get("paired", {}).get(v.get("unit"), []):
                    if hh not in need:
                        need.append(hh)
        if need:
            g = _group_of(cfg, need[0]) or {}
            out = kani_run.run_harnesses(need, g.get("features"), jobs=16, timeout_s=g.get("timeout", 300), target=g.get("target", "kani"))
            cmds.append(out["cmd"])
            for hh in need:
                paired_failed[hh] = out["results"].get(hh, {}).get("status") == "failed"
        # concrete playback of every failed Kani harness, in parallel (one cargo-kani process each)
        pb_need = []
        for v in new_viol:
            hs = [v["harness"]] if v.get("harness") else [x for x in cfg.get("paired", {}).get(v.get("unit"), []) if paired_failed.get(x)]
            for hh in hs:
                if hh not in pb_need:
                    pb_need.append(hh)
        if pb_need:
            from concurrent.futures import ThreadPoolExecutor
            def _pb(hh):
                g = _group_of(cfg, hh)
                return hh, kani_run.playback(hh, g.get("features") if g else None, g.get("target", "kani") if g else "kani")
            with ThreadPoolExecutor(max_workers=8) as ex:
                for hh, res in ex.map(_pb, pb_need[:24]):
                    playback_cache[hh] = res
        for v in new_viol:
            path = os.path.join(REPLAY_DIR, "%s-%s.json" % (pid, safe_name(v["obligation"])))
            rep = {"property": pid, "obligation": v["obligation"], "engine": v["engine"], "detail": v["detail"],
                   "verifier_output": v["verifier_output"], "inputs": None, "harness": None, "replay": None}
            if v["engine"] == "standin":
                rep["witness_search"] = v["standin_payload"]
                rep["inputs"] = v["detail"]
                rep["replay"] = {"outcome": "violation", "detail": v["detail"]}
                write_json(path, rep)
                viol_lines.append("VIOLATION property=%s replay=%s" % (pid, path))
                print("  failed stand-in %s: %s" % (v["obligation"], v["detail"][:300]))
                continue
            h = v.get("harness")
            cand = [h] if h else [x for x in cfg.get("paired", {}).get(v.get("unit"), []) if paired_failed.get(x)]
            reproduced = False
            for hh in cand:
                if hh not in playback_cache:
                    g = _group_of(cfg, hh)
                    tests, log = kani_run.playback(hh, g.get("features") if g else None, g.get("target", "kani") if g else "kani")
                    playback_cache[hh] = (tests, log)
                tests, log = playback_cache[hh]
                # candidates: the playback of the failed check itself; failing that, any other concrete input Kani
                # printed for this harness (cover witnesses are ordinary inputs of the harness domain) - the
                # replay on the real code decides whether a candidate reproduces the violation
                allt = list(tests or [])
                non_cover = [t for t in allt if t["kind"] != "cover"]
                want = v.get("description", "") if v["engine"] == "kani" else None
                exact = [t for t in non_cover if want and t["description"] == want]
                tests = exact + [t for t in non_cover if t not in exact] + [t for t in allt if t["kind"] == "cover"]
                for t in tests:
                    rep["inputs"] = t["vals"]
                    rep["harness"] = hh
                    rep["playback_check"] = t["description"]
                    if binp is None:
                        binp, err = _replay_build()
                        if not binp:
                            rep["replay"] = {"outcome": "replay-build-failed", "detail": err}
                            break
                    rr = _replay_run(binp, hh, t["vals"])
                    rep["replay"] = rr
                    if rr.get("outcome") == "violation":
                        reproduced = True
                        break
                if reproduced:
                    break
            # units with an execution-based witness finder (bounded search on the real code; finder only)
            ws = cfg.get("witness_search", {}).get(v.get("unit")) if v["engine"] == "verus" else None
            if ws and not reproduced and json.dumps(ws) in ws_cache:
                rr = ws_cache[json.dumps(ws)]
                rep["replay"] = rr
                rep["witness_search"] = ws
                if rr.get("outcome") == "violation":
                    rep["inputs"] = rr.get("defrag_history") or rr.get("detail")
                    reproduced = True
            elif ws and not reproduced:
                if binp is None:
                    binp, err = _replay_build()
                if binp:
                    import subprocess
                    try:
                        pr = subprocess.run([binp, "--stdin"], input=json.dumps(ws), stdout=subprocess.PIPE, stderr=subprocess.PIPE,
                                            text=True, timeout=600, env=common.env())
                        rr = json.loads(pr.stdout.strip().split("\n")[-1])
                    except Exception as ex:
                        rr = {"outcome": "error", "detail": str(ex)}
                    ws_cache[json.dumps(ws)] = rr
                    rep["replay"] = rr
                    rep["witness_search"] = ws
                    if rr.get("outcome") == "violation":
                        rep["inputs"] = rr.get("defrag_history") or rr.get("detail")
                        reproduced = True
            write_json(path, rep)
            line = "VIOLATION property=%s replay=%s" % (pid, path)
            if not reproduced:
                line += " no-failing-input-found"
            viol_lines.append(line)
            print("  failed obligation %s: %s" % (v["obligation"], v["detail"][:300]))

    # ------------------------------------------------------------------ mechanical assumption scan
    scan = []
    for u in units:
        f = os.path.join(BUILD, "verus", u + ".rs")
        if os.path.exists(f):
            txt = open(f).read()
            for kw, what in (("#[verifier::external_body]", "external_body items (contract assumed, body not verified)"), ("assume_specification", "assume_specification"),
                             ("admit()", "admit()"), ("assume(", "assume(..)"), ("uninterp spec fn", "uninterpreted spec functions (abstract callees)")):
                n = txt.count(kw)
                if n:
                    scan.append("verus:%s: %d x %s" % (u, n, what))
    hfiles = set()
    names = kani_run.harness_full_names()
    for g, hs in groups:
        for h in hs:
            if h in names:
                hfiles.add(names[h].split("::")[1])
    for hf in sorted(hfiles):
        f = os.path.join(VERIF, "kani", hf + ".rs")
        if os.path.exists(f):
            txt = open(f).read()
            n1, n2 = txt.count("vassume!("), txt.count("stubs = [")
            scan.append("kani:%s.rs: %d x vassume! (input-domain constraints: lengths / selectors), %d stubbed harnesses" % (hf, n1, n2))
    assumptions.extend(scan)

    # ------------------------------------------------------------------ evidence
    level = cfg["level"]
    coverage = {
        "obligations": len(all_P), "discharged": len(discharged_P),
        "bounded_obligations": len(all_B), "bounded_discharged": len(discharged_B),
        "checker_cmd": " ;; ".join(cmds) or "none",
        "trusted_base": TRUSTED_BASE_COMMON + list(cfg.get("trusted", [])),
        "functions_under_contract": sorted(functions),
        "bounds": bounds,
        "undecided": undecided,
        "backends": {"verus": "Verus 0.2026.09.13 / Z3 4.12.5 (bundled)", "kani": "Kani 0.68.0 / CBMC 6.11.0 / CaDiCaL"},
        "solver_time_s": solver_time,
        "evaluations": evaluations,
        "distinct_nontrivial": len(nontrivial),
        "rule": "one evaluation = one obligation set: a function verified by Verus, or one Kani harness (each over fully symbolic inputs). Counted distinct and non-trivial when it was DISCHARGED and is not boilerplate: Verus - a real function under a spliced contract or a lemma about the contracts (derived clone/eq impls are evaluated but not counted); Kani - a harness whose contract assertions all hold and whose kani::cover reachability points were all satisfiable (an unreachable cover makes the harness 'undecided', so it is never counted)",
        "samples": samples[:60],
        "extraction_diffs": diffs,
        "known_findings_reported": [k["obligation"] for k in known_hit],
        "stand_ins": stand_in_results,
        "explanation": cfg.get("explanation", ""),
        "not_decided": cfg.get("not_decided", []),
    }
    ev = {"property_id": pid, "tier": tier, "seed": seed, "level": level, "coverage": coverage,
          "assumptions": sorted(set(assumptions)), "wall_s": round(time.time() - t0, 1),
          "violations": len(new_viol)}
    write_json(os.path.join(EVID, pid + ".json"), ev)

    for l in viol_lines:
        print(l)
    print("%s %s: P %d/%d discharged, bounded %d/%d, undecided %d, violations %d, %.0fs" % (
        pid, tier, len(discharged_P), len(all_P), len(discharged_B), len(all_B), len(undecided), len(new_viol), time.time() - t0))
    if new_viol:
        return 1
    if undecided:
        for u in undecided:
            print("UNDECIDED: " + u[:400])
        return 2
    return 0


def _group_of(cfg, h):
    for g in cfg.get("kani", []):
        if h in g.get("quick", []) or h in g.get("thorough", []) or h in g.get("paired", []):
            return g
    return None
