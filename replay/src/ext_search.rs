// Witness finder for the extension dispatch contract (C05): runs the REAL dispatchers on
// (type, len, data) for all 65536 types x a few small bodies and compares with the table oracle
// (IANA code points, RFC 8701 GREASE set). Execution-based; finds replayable inputs for failed
// Verus obligations of unit dispatch_ext. Never decides the property.
use tls_parser::*;

pub fn is_grease(t: u16) -> bool { (t & 0x0f0f) == 0x0a0a && (t >> 8) == (t & 0xff) }

// wire types each dispatcher recognises (oracle = the same TABLE as /verif/verus/units/dispatch_ext.py)
const GENERIC: &[u16] = &[0, 1, 5, 10, 11, 13, 15, 16, 18, 21, 22, 23, 28, 35, 40, 41, 42, 43, 44, 45, 48, 49, 51, 13172, 0xff01, 0xffce];
const CLIENT: &[u16] = &[0, 1, 5, 10, 11, 13, 15, 16, 18, 21, 22, 23, 28, 35, 41, 42, 43, 44, 45, 48, 49, 51, 13172, 0xff01, 0xffce];
const SERVER: &[u16] = &[0, 1, 5, 11, 13, 15, 16, 18, 22, 23, 28, 35, 41, 42, 43, 44, 51, 13172, 0xff01];

fn check(which: &str, table: &[u16], f: fn(&[u8]) -> IResult<&[u8], TlsExtension>, t: u16, body: &[u8]) -> Option<String> {
    let mut inp = vec![(t >> 8) as u8, t as u8, (body.len() >> 8) as u8, body.len() as u8];
    inp.extend_from_slice(body);
    inp.extend_from_slice(&[0xee, 0xee]);
    let r = f(&inp);
    let bad = |m: &str| Some(format!("{} on {:02x?}: {} (got {:?})", which, inp, m, r));
    if is_grease(t) {
        return match &r { Ok((rem, TlsExtension::Grease(t2, d))) if *t2 == t && *d == body && rem.len() == 2 => None, _ => bad("GREASE code point must decode to Grease(type, data)") };
    }
    if table.contains(&t) {
        return match &r {
            Ok((rem, e)) => {
                if TlsExtensionType::from(e).0 != t { bad("known type decoded to a variant whose tag differs from the wire type") }
                else if rem.len() != 2 { bad("consumption is not 4 + length") } else { None }
            }
            Err(_) => None, // content rejected: fine for this finder
        };
    }
    match &r {
        Ok((rem, TlsExtension::Unknown(t2, d))) if t2.0 == t && *d == body && rem.len() == 2 => None,
        _ => bad("unrecognised type must decode to Unknown(type, data) byte-for-byte"),
    }
}

pub fn search() -> Option<String> {
    let bodies: [&[u8]; 4] = [&[], &[1], &[0, 1, 0], &[0, 2, 3, 4]];
    for t in 0..=0xffffu16 {
        for b in bodies.iter() {
            if let Some(d) = check("parse_tls_extension", GENERIC, parse_tls_extension, t, b) { return Some(d); }
            if let Some(d) = check("parse_tls_client_hello_extension", CLIENT, parse_tls_client_hello_extension, t, b) { return Some(d); }
            if let Some(d) = check("parse_tls_server_hello_extension", SERVER, parse_tls_server_hello_extension, t, b) { return Some(d); }
        }
    }
    None
}
