// Defragmenter history runner: executes a sequence of operations on the REAL TlsRecordsParser
// (normal build) next to an executable transcription of the C07 step contract (the same
// case split as `record_ok` / `nocopy_ok` in /verif/verus/units/defrag.py, with the real one-shot
// parser in the role of spec_prwh).  Used (a) to replay a history, (b) as a bounded witness search
// when a Verus obligation of the defrag unit fails (Verus gives no counterexample).  The search
// is a witness finder only: it never decides the property.
use std::panic;
use tls_parser::nom::error::ErrorKind;
use tls_parser::nom::Err;
use tls_parser::*;

#[derive(Clone, Debug)]
pub enum Op { Record(u8, u16, Vec<u8>), NoCopy(u8, u16, Vec<u8>), Reset }

const TEN_MIB: usize = 10 * 1024 * 1024;

fn hdr(ty: u8, ver: u16, len: usize) -> TlsRecordHeader {
    TlsRecordHeader { record_type: TlsRecordType(ty), version: TlsVersion(ver), len: len as u16 }
}

fn show<T: core::fmt::Debug>(r: &IResult<&[u8], T>) -> String { format!("{:?}", r) }

fn is_err_complete<T>(r: &IResult<&[u8], T>) -> bool {
    matches!(r, Err(Err::Error(e)) | Err(Err::Failure(e)) if e.code == ErrorKind::Complete)
}
fn is_incomplete<T>(r: &IResult<&[u8], T>) -> bool { matches!(r, Err(Err::Incomplete(_))) }

const INC_UNKNOWN: &str = "Err(Incomplete(Unknown))";

pub struct Model { pub buf: Vec<u8>, pub cur: Option<u8> }

impl Model {
    fn nocopy(&self, ty: u8, ver: u16, data: &[u8]) -> String {
        if self.cur.is_some() { return "REFUSE Failure NonEmpty".into(); }
        let h = hdr(ty, ver, data.len());
        let p = parse_tls_record_with_header(data, &h);
        if is_err_complete(&p) { INC_UNKNOWN.into() } else { show(&p) }
    }
    fn record(&mut self, ty: u8, ver: u16, data: &[u8]) -> String {
        match self.cur {
            None => {
                if ty == 0x14 || ty == 0x15 { return self.nocopy(ty, ver, data); }
                let h = hdr(ty, ver, data.len());
                let p = parse_tls_record_with_header(data, &h);
                if p.is_ok() { show(&p) }
                else if is_incomplete(&p) || is_err_complete(&p) {
                    self.cur = Some(ty);
                    self.buf = data.to_vec();
                    INC_UNKNOWN.into()
                } else { show(&p) }
            }
            Some(c) => {
                if c != ty { return "REFUSE Error Tag".into(); }
                if self.buf.len().saturating_add(data.len()) >= TEN_MIB { return "REFUSE Error TooLarge".into(); }
                self.buf.extend_from_slice(data);
                let h = hdr(ty, ver, self.buf.len());
                let p = parse_tls_record_with_header(&self.buf, &h);
                if p.is_ok() { self.cur = None; show(&p) }
                else if is_err_complete(&p) { INC_UNKNOWN.into() }
                else { show(&p) }
            }
        }
    }
}

fn norm<T: core::fmt::Debug>(r: &IResult<&[u8], T>) -> String {
    match r {
        Err(Err::Error(e)) if e.input.is_empty() && (e.code == ErrorKind::Tag || e.code == ErrorKind::TooLarge) => format!("REFUSE Error {:?}", e.code),
        Err(Err::Failure(e)) if e.input.is_empty() && e.code == ErrorKind::NonEmpty => "REFUSE Failure NonEmpty".into(),
        _ => show(r),
    }
}

/// returns None if the real parser agrees with the contract on every step, else a description
pub fn run_history(ops: &[Op]) -> Option<String> {
    let ops2 = ops.to_vec();
    let res = panic::catch_unwind(move || {
        let mut real = TlsRecordsParser::default();
        let mut model = Model { buf: Vec::new(), cur: None };
        for (k, op) in ops2.iter().enumerate() {
            match op {
                Op::Reset => { real.reset(); model.cur = None; model.buf.clear(); }
                Op::Record(ty, ver, data) => {
                    let want = model.record(*ty, *ver, data);
                    let got = {
                        let r = real.parse_record(TlsRawRecord { hdr: hdr(*ty, *ver, data.len()), data });
                        norm(&r)
                    };
                    // a REFUSE in the model that the real parser reports with a non-empty input slice is still a refusal of that kind
                    if want != got { return Some(format!("step {} {:?}: contract says {} but real parser returned {}", k, op, want, got)); }
                }
                Op::NoCopy(ty, ver, data) => {
                    let want = model.nocopy(*ty, *ver, data);
                    let got = {
                        let r = real.parse_record_nocopy(TlsRawRecord { hdr: hdr(*ty, *ver, data.len()), data });
                        norm(&r)
                    };
                    if want != got { return Some(format!("step {} {:?}: contract says {} but real parser returned {}", k, op, want, got)); }
                }
            }
            if real.defrag_in_progress() != model.cur.is_some() {
                return Some(format!("step {} {:?}: defrag_in_progress() is {} but the contract says {}", k, op, real.defrag_in_progress(), model.cur.is_some()));
            }
        }
        None
    });
    match res {
        Ok(x) => x,
        Err(e) => {
            let msg = if let Some(m) = e.downcast_ref::<String>() { m.clone() } else if let Some(m) = e.downcast_ref::<&str>() { m.to_string() } else { "panic".into() };
            Some(format!("real parser panicked: {}", msg))
        }
    }
}

pub fn alphabet() -> Vec<Op> {
    let datas: Vec<Vec<u8>> = vec![
        vec![], vec![1], vec![0x0e, 0, 0], vec![0x0e, 0, 0, 0], vec![0], vec![0, 0x0e, 0, 0, 0],
        vec![1, 0, 1], vec![0xaa], vec![1, 0, 0], vec![2, 40], vec![0x14, 0, 0, 2, 7], vec![9],
    ];
    let mut v = vec![Op::Reset];
    for ty in [0x16u8, 0x18, 0x17, 0x15, 0x14] {
        for d in &datas {
            v.push(Op::Record(ty, 0x0303, d.clone()));
            if d.len() <= 4 { v.push(Op::NoCopy(ty, 0x0303, d.clone())); }
        }
    }
    v
}

/// bounded witness search: all histories of length <= depth over the alphabet
pub fn search(depth: usize) -> Option<(Vec<Op>, String)> {
    let alpha = alphabet();
    let mut idx = vec![0usize; 1];
    for len in 1..=depth {
        idx = vec![0usize; len];
        loop {
            let ops: Vec<Op> = idx.iter().map(|&i| alpha[i].clone()).collect();
            if let Some(d) = run_history(&ops) { return Some((ops, d)); }
            let mut k = len;
            loop {
                if k == 0 { break; }
                k -= 1;
                idx[k] += 1;
                if idx[k] < alpha.len() { break; }
                idx[k] = 0;
                if k == 0 { k = usize::MAX; break; }
            }
            if k == usize::MAX { break; }
        }
    }
    None
}

pub fn ops_to_json(ops: &[Op]) -> String {
    let mut parts = Vec::new();
    for op in ops {
        parts.push(match op {
            Op::Reset => "{\"op\": \"reset\"}".to_string(),
            Op::Record(t, v, d) => format!("{{\"op\": \"record\", \"type\": {}, \"version\": {}, \"data\": {:?}}}", t, v, d),
            Op::NoCopy(t, v, d) => format!("{{\"op\": \"nocopy\", \"type\": {}, \"version\": {}, \"data\": {:?}}}", t, v, d),
        });
    }
    format!("[{}]", parts.join(", "))
}

pub fn ops_from_json(s: &str) -> Vec<Op> {
    // tiny reader for the format written by ops_to_json
    let mut ops = Vec::new();
    for chunk in s.split("{\"op\":").skip(1) {
        let kind = chunk.split('"').nth(1).unwrap_or("");
        let num = |key: &str| -> u64 {
            chunk.split(key).nth(1).map(|t| t.trim_start_matches(|c: char| c == '"' || c == ':' || c == ' ')
                .chars().take_while(|c| c.is_ascii_digit()).collect::<String>().parse().unwrap_or(0)).unwrap_or(0)
        };
        let data: Vec<u8> = chunk.split("\"data\":").nth(1).map(|t| {
            let t = &t[t.find('[').unwrap_or(0) + 1..];
            let t = &t[..t.find(']').unwrap_or(0)];
            t.split(',').filter_map(|x| x.trim().parse().ok()).collect()
        }).unwrap_or_default();
        match kind {
            "reset" => ops.push(Op::Reset),
            "record" => ops.push(Op::Record(num("\"type\"") as u8, num("\"version\"") as u16, data)),
            "nocopy" => ops.push(Op::NoCopy(num("\"type\"") as u8, num("\"version\"") as u16, data)),
            _ => {}
        }
    }
    ops
}
