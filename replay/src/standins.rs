// Bounded / exhaustive-execution STAND-INS (not deductive; never counted as proved):
//  * registry names: Display/Debug text of every value of every registry newtype vs the IANA oracle
//  * cipher lookup by name over the listed names and a generated perturbation set
use std::convert::TryFrom;
use tls_parser::*;
use tls_parser::nom::Err;

include!("gen_names.rs");
include!("gen_ciphers.rs");

pub fn check_cipher_names() -> (usize, Option<String>) {
    let mut tried = 0usize;
    let listed: std::collections::HashMap<&str, u16> = ROWS.iter().map(|(i, n)| (*n, *i)).collect();
    let expect = |s: &str| -> Option<u16> { listed.get(s).copied() };
    let mut probe = |s: &str| -> Option<String> {
        let want = expect(s);
        let a = TlsCipherSuite::from_name(s).map(|c| c.id.0);
        let b = <&TlsCipherSuite>::try_from(s).ok().map(|c| c.id.0);
        if a != want { return Some(format!("from_name({:?}) = {:?}, expected {:?}", s, a, want)); }
        if b != want { return Some(format!("TryFrom<&str>({:?}) = {:?}, expected {:?}", s, b, want)); }
        if let Some(c) = TlsCipherSuite::from_name(s) { if c.name != s { return Some(format!("from_name({:?}) returned the suite named {:?}", s, c.name)); } }
        None
    };
    for (id, name) in ROWS.iter() {
        tried += 1;
        if let Some(d) = probe(name) { return (tried, Some(d)); }
        // the registry entry carries exactly this name
        match TlsCipherSuite::from_id(*id) { Some(c) if c.name == *name => {}, other => return (tried, Some(format!("from_id(0x{:04x}) name is {:?}, listed name is {:?}", id, other.map(|c| c.name), name))) }
        // perturbations: every proper prefix, one appended char, case changes, one token swapped with a neighbour's
        for k in 0..name.len() { tried += 1; if let Some(d) = probe(&name[..k]) { return (tried, Some(d)); } }
        for suffix in ["X", "_", " ", "8"] { tried += 1; if let Some(d) = probe(&format!("{}{}", name, suffix)) { return (tried, Some(d)); } }
        tried += 2;
        if let Some(d) = probe(&name.to_lowercase()) { return (tried, Some(d)); }
        if let Some(d) = probe(&format!(" {}", name)) { return (tried, Some(d)); }
        for (from, to) in [("128", "256"), ("256", "128"), ("SHA256", "SHA384"), ("SHA384", "SHA256"), ("_SHA", "_MD5"), ("GCM", "CBC"), ("CBC", "GCM"), ("ECDHE", "DHE"), ("RSA", "DSS"), ("AES", "ARIA")] {
            if name.contains(from) { tried += 1; if let Some(d) = probe(&name.replacen(from, to, 1)) { return (tried, Some(d)); } }
        }
    }
    (tried, None)
}

// ---------------------------------------------------------------------------------------------
// C16 bounded stand-in: tls_parser_many / parse_dtls_plaintext_records against the explicit loop over the
// single-record parser, on all concatenations of <= 3 pieces from a small alphabet of records and tails.
// (The deductive decision is the Verus units `many` / `dtls_many`; this only stands in when a rewritten body
// falls outside what the contracts cover.)
fn explicit_loop<'a, T, F>(mut i: &'a [u8], f: F) -> Result<(usize, usize), String>
where F: Fn(&'a [u8]) -> IResult<&'a [u8], T> {
    // returns (number of records, remainder length) or the class of the first record's failure
    let mut n = 0usize;
    loop {
        match f(i) {
            Ok((rem, _)) => { if rem.len() == i.len() { return Err("no-progress".into()); } n += 1; i = rem; }
            Err(e) => {
                if n == 0 { return Err(match e { Err::Incomplete(_) => "first-fails".into(), Err::Error(_) => "first-fails".into(), Err::Failure(_) => "first-fails".into() }); }
                return match e { Err::Failure(_) => Err("failure-propagated".into()), _ => Ok((n, i.len())) };
            }
        }
    }
}

pub fn check_multi_record() -> (usize, Option<String>) {
    let tls: Vec<Vec<u8>> = vec![
        vec![0x15, 3, 3, 0, 2, 1, 0], vec![0x14, 3, 3, 0, 1, 1], vec![0x17, 3, 3, 0, 0], vec![0x17, 3, 3, 0, 2, 9, 9],
        vec![0x18, 3, 3, 0, 3, 1, 0, 0], vec![0x16, 3, 3, 0, 4, 0, 0, 0, 0], vec![0x15, 3, 3, 0, 4, 1, 0, 2, 40],
        vec![0x15, 3, 3, 0, 2, 1], vec![0x15, 3, 3, 0x41, 0x01], vec![0x15, 3, 3], vec![0xff, 0, 0, 0, 0], vec![0x15, 3, 3, 0, 0], vec![],
    ];
    let dtls: Vec<Vec<u8>> = vec![
        vec![0x14, 0xfe, 0xfd, 0, 0, 0, 0, 0, 0, 0, 1, 0, 1, 1], vec![0x15, 0xfe, 0xfd, 0, 0, 0, 0, 0, 0, 0, 2, 0, 2, 2, 40],
        vec![0x16, 0xfe, 0xfd, 0, 0, 0, 0, 0, 0, 0, 3, 0x41, 0x01], vec![0x15, 0xfe, 0xfd, 0, 0, 0, 0, 0, 0, 0, 2, 0, 2, 2],
        vec![0x17, 0xfe, 0xfd, 0, 0, 0, 0, 0, 0, 0, 4, 0, 0], vec![0x15, 0xfe, 0xfd, 0], vec![],
    ];
    let mut tried = 0;
    for (which, alpha) in [(0, &tls), (1, &dtls)] {
        let k = alpha.len();
        for a in 0..k { for b in 0..k { for c in 0..k {
            let mut buf = alpha[a].clone();
            buf.extend_from_slice(&alpha[b]);
            buf.extend_from_slice(&alpha[c]);
            tried += 1;
            let (want, got): (Result<(usize, usize), String>, Result<(usize, usize), String>) = if which == 0 {
                (explicit_loop(&buf, parse_tls_plaintext), match tls_parser_many(&buf) { Ok((rem, v)) => Ok((v.len(), rem.len())), Err(_) => Err("first-fails".into()) })
            } else {
                (explicit_loop(&buf, parse_dtls_plaintext_record), match parse_dtls_plaintext_records(&buf) { Ok((rem, v)) => Ok((v.len(), rem.len())), Err(_) => Err("first-fails".into()) })
            };
            if let Err(ref w) = want { if w == "failure-propagated" || w == "no-progress" {
                return (tried, Some(format!("{} single-record parser answered {} on {:02x?}", if which == 0 { "TLS" } else { "DTLS" }, w, buf)));
            } }
            if want != got {
                return (tried, Some(format!("{} on {:02x?}: explicit loop over the single-record parser gives {:?} (records, remainder length) but the multi-record parser gives {:?}",
                    if which == 0 { "tls_parser_many" } else { "parse_dtls_plaintext_records" }, buf, want, got)));
            }
            #[allow(deprecated)]
            if which == 0 { if format!("{:?}", tls_parser(&buf)) != format!("{:?}", parse_tls_plaintext(&buf)) { return (tried, Some(format!("tls_parser differs from parse_tls_plaintext on {:02x?}", buf))); } }
        } } }
    }
    (tried, None)
}

// ---------------------------------------------------------------------------------------------
// C02 / C03 / C10 bounded stand-in: the framing entry points at the boundary lengths of the record cap.
// (Deductive decision: Verus units frame / plaintext / dtls; this stands in when a rewritten body falls outside them.)
pub fn check_framing_boundaries() -> (usize, Option<String>) {
    let mut tried = 0;
    let cap = 16640usize;
    for &l in &[0usize, 1, 2, 3, 16383, 16384, 16385, 16639, 16640, 16641, 32768, 65535] {
        for &ty in &[0x17u8, 0x15, 0x18] {
            let mut rec = vec![ty, 3, 3, (l >> 8) as u8, l as u8];
            // payload: alerts are pairs (1,0); appdata anything; heartbeat: type 1, payload_len 0, padding
            let mut payload = vec![0u8; l];
            if ty == 0x15 { for k in 0..l { payload[k] = if k % 2 == 0 { 1 } else { 0 }; } }
            if ty == 0x18 && l >= 3 { payload[0] = 1; }
            rec.extend_from_slice(&payload);
            rec.extend_from_slice(&[0xee, 0xee, 0xee]);
            for &cut in &[0usize, 4, 5, 6, 5 + l / 2, 5 + l - 1.min(l), 5 + l, 5 + l + 3] {
                let n = cut.min(rec.len());
                let i = &rec[..n];
                tried += 1;
                let want: String = if n < 5 { "Incomplete".into() }
                    else if l > cap { "TooLarge".into() }
                    else if n < 5 + l { format!("Incomplete({})", 5 + l - n) }
                    else { format!("Framed(rem={})", n - 5 - l) };
                let cls = |r: Result<usize, Err<tls_parser::nom::error::Error<&[u8]>>>| -> String { match r {
                    Ok(rem) => format!("Framed(rem={})", rem),
                    Err(Err::Incomplete(tls_parser::nom::Needed::Size(k))) => if n < 5 { "Incomplete".into() } else { format!("Incomplete({})", k) },
                    Err(Err::Incomplete(_)) => "Incomplete".into(),
                    Err(Err::Error(e)) | Err(Err::Failure(e)) => if e.code == tls_parser::nom::error::ErrorKind::TooLarge { "TooLarge".into() } else { format!("Error({:?})", e.code) },
                } };
                let raw = cls(parse_tls_raw_record(i).map(|(rem, _)| rem.len()));
                let enc = cls(parse_tls_encrypted(i).map(|(rem, _)| rem.len()));
                if raw != want { return (tried, Some(format!("parse_tls_raw_record: declared length {} type {:#x} input length {}: {} expected {}", l, ty, n, raw, want))); }
                if enc != want { return (tried, Some(format!("parse_tls_encrypted: declared length {} type {:#x} input length {}: {} expected {}", l, ty, n, enc, want))); }
                // plaintext: same framing; a whole record never answers Incomplete; payload errors are content errors
                let pt = parse_tls_plaintext(i);
                let ptc = cls(pt.as_ref().map(|(rem, _)| rem.len()).map_err(|e| match e { Err::Incomplete(x) => Err::Incomplete(*x), Err::Error(e) => Err::Error(tls_parser::nom::error::Error { input: e.input, code: e.code }), Err::Failure(e) => Err::Failure(tls_parser::nom::error::Error { input: e.input, code: e.code }) }));
                let framed = want.starts_with("Framed");
                if !framed && ptc != want { return (tried, Some(format!("parse_tls_plaintext: declared length {} type {:#x} input length {}: {} expected {}", l, ty, n, ptc, want))); }
                if framed && ptc.starts_with("Incomplete") { return (tried, Some(format!("parse_tls_plaintext answered Incomplete on a whole record (declared length {} type {:#x})", l, ty))); }
                if framed && ptc == "TooLarge" { return (tried, Some(format!("parse_tls_plaintext rejected a record within the cap as TooLarge (declared length {} type {:#x})", l, ty))); }
                // one-step == two-step
                if framed {
                    if let Ok((_, raw_rec)) = parse_tls_raw_record(i) {
                        let two = parse_tls_record_with_header(raw_rec.data, &raw_rec.hdr);
                        match (&pt, &two) {
                            (Ok((_, p)), Ok((_, m))) => if format!("{:?}", p.msg) != format!("{:?}", m) { return (tried, Some(format!("one-step and two-step parsing disagree (declared length {} type {:#x})", l, ty))); },
                            (Err(_), Err(_)) => {}
                            _ => return (tried, Some(format!("one-step and two-step parsing disagree on acceptance (declared length {} type {:#x}): {:?} vs {:?}", l, ty, pt.is_ok(), two.is_ok()))),
                        }
                    }
                }
                #[allow(deprecated)]
                { if format!("{:?}", tls_parser(i).map(|(r, p)| (r.len(), p.msg.len()))) != format!("{:?}", parse_tls_plaintext(i).map(|(r, p)| (r.len(), p.msg.len()))) { return (tried, Some(format!("tls_parser differs from parse_tls_plaintext (declared length {} type {:#x} input length {})", l, ty, n))); } }
            }
        }
        // DTLS: 13-byte header, same cap
        let mut rec = vec![0x15u8, 0xfe, 0xfd, 0, 1, 0, 0, 0, 0, 0, 2, (l >> 8) as u8, l as u8];
        let mut payload = vec![0u8; l];
        for k in 0..l { payload[k] = if k % 2 == 0 { 1 } else { 0 }; }
        rec.extend_from_slice(&payload);
        rec.extend_from_slice(&[0xee, 0xee]);
        for &cut in &[0usize, 12, 13, 14, 13 + l / 2, 13 + l, 13 + l + 2] {
            let n = cut.min(rec.len());
            let i = &rec[..n];
            tried += 1;
            let r = parse_dtls_plaintext_record(i);
            let got = match &r { Ok((rem, _)) => format!("Framed(rem={})", rem.len()),
                Err(Err::Incomplete(tls_parser::nom::Needed::Size(k))) => if n < 13 { "Incomplete".into() } else { format!("Incomplete({})", k) },
                Err(Err::Incomplete(_)) => "Incomplete".into(),
                Err(Err::Error(e)) | Err(Err::Failure(e)) => if e.code == tls_parser::nom::error::ErrorKind::TooLarge { "TooLarge".into() } else { "ContentError".into() } };
            let want: String = if n < 13 { "Incomplete".into() } else if l > cap { "TooLarge".into() } else if n < 13 + l { format!("Incomplete({})", 13 + l - n) }
                else if l >= 2 { format!("Framed(rem={})", n - 13 - l) } else { "ContentError".into() };
            if got != want { return (tried, Some(format!("parse_dtls_plaintext_record: declared length {} input length {}: {} expected {}", l, n, got, want))); }
        }
    }
    (tried, None)
}

// ---------------------------------------------------------------------------------------------
// C14 bounded stand-in: SCT lists of k = 0..5 well-formed entries (minimal 49-byte entries and entries with
// extensions / signature bytes), every field pattern distinct, decoded in order with every field exact.
pub fn check_sct_lists() -> (usize, Option<String>) {
    use tls_parser::parse_ct_signed_certificate_timestamp_list as plist;
    let mk = |k: u8, el: usize, sl: usize| -> Vec<u8> {
        let mut b = vec![];
        b.push(k);                                  // version (any value)
        b.extend((0..32).map(|x| x as u8 ^ k));     // log id
        b.extend_from_slice(&(0x0102030405060700u64 + k as u64).to_be_bytes());
        b.extend_from_slice(&(el as u16).to_be_bytes());
        b.extend((0..el).map(|x| 0xa0 + x as u8 + k));
        b.push(4); b.push(3);
        b.extend_from_slice(&(sl as u16).to_be_bytes());
        b.extend((0..sl).map(|x| 0x50 + x as u8 + k));
        let mut e = (b.len() as u16).to_be_bytes().to_vec();
        e.extend(b);
        e
    };
    let mut tried = 0;
    for n in 0..=5usize {
        for shape in 0..3 {
            let entries: Vec<Vec<u8>> = (0..n).map(|k| match shape { 0 => mk(k as u8, 0, 0), 1 => mk(k as u8, 2, 3), _ => mk(k as u8, (k % 2) * 5, (k % 3) as usize) }).collect();
            let total: usize = entries.iter().map(|e| e.len()).sum();
            let mut buf = (total as u16).to_be_bytes().to_vec();
            for e in &entries { buf.extend_from_slice(e); }
            buf.extend_from_slice(&[0xee, 0xee]);
            tried += 1;
            match plist(&buf) {
                Ok((rem, v)) => {
                    if rem.len() != 2 { return (tried, Some(format!("SCT list of {} entries (shape {}): remainder {} bytes, expected 2", n, shape, rem.len()))); }
                    if v.len() != n { return (tried, Some(format!("SCT list of {} well-formed entries (shape {}) decoded to {} SCTs", n, shape, v.len()))); }
                    for (k, (t, e)) in v.iter().zip(entries.iter()).enumerate() {
                        let b = &e[2..];
                        let el = u16::from_be_bytes([b[41], b[42]]) as usize;
                        let so = 43 + el;
                        let sl = u16::from_be_bytes([b[so + 2], b[so + 3]]) as usize;
                        let ok = t.version.0 == b[0] && t.id.key_id[..] == b[1..33] && t.timestamp == u64::from_be_bytes([b[33], b[34], b[35], b[36], b[37], b[38], b[39], b[40]])
                            && t.extensions.0 == &b[43..43 + el] && t.signature.data == &b[so + 4..so + 4 + sl]
                            && t.signature.alg.as_ref().map(|a| (a.hash.0, a.sign.0)) == Some((b[so], b[so + 1]));
                        if !ok { return (tried, Some(format!("SCT #{} of a {}-entry list (shape {}) decoded with a wrong field: {:?}", k, n, shape, t))); }
                    }
                }
                Err(e) => return (tried, Some(format!("SCT list of {} well-formed entries (shape {}) rejected: {:?}", n, shape, e))),
            }
        }
    }
    (tried, None)
}

// ---------------------------------------------------------------------------------------------
// C09 bounded stand-in (the record / supported_groups serializers exhaust CBMC): serialize small records and
// extension lists, check the emitted length fields, parse the bytes back completely, and re-serialize.
pub fn check_serializer_roundtrip() -> (usize, Option<String>) {
    use tls_parser::rusticata_macros::Serialize;
    let random = [7u8; 32];
    let sid = [1u8, 2, 3];
    let ext = [0u8, 23, 0, 0];
    let d1 = [1u8, 2];
    let hs = |k: usize| -> TlsMessageHandshake { match k {
        0 => TlsMessageHandshake::Finished(&d1[..0]),
        1 => TlsMessageHandshake::Finished(&d1),
        2 => TlsMessageHandshake::HelloRequest,
        3 => TlsMessageHandshake::ClientKeyExchange(TlsClientKeyExchangeContents::Unknown(&d1)),
        4 => TlsMessageHandshake::ClientKeyExchange(TlsClientKeyExchangeContents::Dh(&d1)),
        5 => TlsMessageHandshake::ClientKeyExchange(TlsClientKeyExchangeContents::Ecdh(ECPoint { point: &d1 })),
        6 => TlsMessageHandshake::ClientHello(TlsClientHelloContents::new(0x0303, &random, None, vec![TlsCipherSuiteID(0x2f), TlsCipherSuiteID(0xc02f)], vec![TlsCompressionID(0)], None)),
        7 => TlsMessageHandshake::ClientHello(TlsClientHelloContents::new(0x0301, &random, Some(&sid), vec![], vec![], Some(&ext))),
        8 => TlsMessageHandshake::ServerHello(TlsServerHelloContents::new(0x0303, &random, Some(&sid), 0x2f, 0, Some(&ext))),
        9 => TlsMessageHandshake::ServerHello(TlsServerHelloContents::new(0x0302, &random, None, 0x35, 1, None)),
        10 => TlsMessageHandshake::ServerHello(TlsServerHelloContents::new(0x0300, &random, None, 0x35, 0, None)),
        // every legacy version with and without an extension block (the property quantifies over all versions)
        12 => TlsMessageHandshake::ServerHello(TlsServerHelloContents::new(0x0301, &random, Some(&sid), 0x2f, 0, Some(&ext))),
        13 => TlsMessageHandshake::ServerHello(TlsServerHelloContents::new(0x0301, &random, None, 0x2f, 0, None)),
        14 => TlsMessageHandshake::ServerHello(TlsServerHelloContents::new(0x0302, &random, None, 0x2f, 0, Some(&ext))),
        15 => TlsMessageHandshake::ServerHello(TlsServerHelloContents::new(0x0303, &random, None, 0x2f, 0, None)),
        16 => TlsMessageHandshake::ClientHello(TlsClientHelloContents::new(0x0300, &random, None, vec![TlsCipherSuiteID(0x0a)], vec![TlsCompressionID(0)], None)),
        17 => TlsMessageHandshake::ClientHello(TlsClientHelloContents::new(0x0302, &random, Some(&sid), vec![TlsCipherSuiteID(0x0a)], vec![TlsCompressionID(0), TlsCompressionID(1)], Some(&ext))),
        _ => TlsMessageHandshake::ServerHelloV13Draft18(TlsServerHelloV13Draft18Contents { version: TlsVersion(0x7f12), random: &random, cipher: TlsCipherSuiteID(0x1301), ext: Some(&ext) }),
    } };
    let mut tried = 0;
    let mut check_record = |msgs: Vec<TlsMessage>, ty: u8, what: String| -> Option<String> {
        let rec = TlsPlaintext { hdr: TlsRecordHeader { record_type: TlsRecordType(ty), version: TlsVersion(0x0303), len: 0 }, msg: msgs };
        let b = match rec.serialize() { Ok(b) => b, Err(e) => return Some(format!("serializing a record of {} failed: {:?}", what, e)) };
        if b.len() < 5 || ((b[3] as usize) << 8 | b[4] as usize) != b.len() - 5 { return Some(format!("record of {}: u16 length field {:02x}{:02x} does not equal the payload length {}", what, b[3], b[4], b.len().saturating_sub(5))); }
        match parse_tls_plaintext(&b) {
            Ok((rem, p)) => {
                if !rem.is_empty() { return Some(format!("record of {}: parsing the produced bytes leaves {} bytes", what, rem.len())); }
                if p.msg.len() != rec.msg.len() { return Some(format!("record of {}: {} messages serialized, {} parsed back", what, rec.msg.len(), p.msg.len())); }
                match p.serialize() { Ok(b2) => if b2 != b { return Some(format!("record of {}: re-serializing the parsed value gives different bytes", what)); }, Err(e) => return Some(format!("record of {}: re-serialization failed: {:?}", what, e)) }
            }
            Err(e) => return Some(format!("record of {}: the produced bytes do not parse back: {:?}", what, e)),
        }
        None
    };
    for a in 0..18 { for b in 0..19 {
        tried += 1;
        let mut msgs = vec![TlsMessage::Handshake(hs(a))];
        if b < 18 { msgs.push(TlsMessage::Handshake(hs(b))); }
        if let Some(d) = check_record(msgs, 0x16, format!("handshake messages #{} #{}", a, b)) { return (tried, Some(d)); }
    } }
    tried += 1;
    if let Some(d) = check_record(vec![TlsMessage::ChangeCipherSpec], 0x14, "ChangeCipherSpec".into()) { return (tried, Some(d)); }
    // handshake-level: every message parses back alone, u24 length == body length
    for a in 0..18 {
        tried += 1;
        let m = hs(a);
        let b = match m.serialize() { Ok(b) => b, Err(e) => return (tried, Some(format!("serializing handshake message #{} failed: {:?}", a, e))) };
        let l = ((b[1] as usize) << 16) | ((b[2] as usize) << 8) | b[3] as usize;
        if l != b.len() - 4 { return (tried, Some(format!("handshake message #{}: u24 length {} != body length {}", a, l, b.len() - 4))); }
        match parse_tls_message_handshake(&b) {
            Ok((rem, TlsMessage::Handshake(back))) if rem.is_empty() => {
                match back.serialize() { Ok(b2) => if b2 != b { return (tried, Some(format!("handshake message #{}: re-serializing the parsed message gives different bytes (a field was lost or changed on the way back)", a))); },
                                         Err(e) => return (tried, Some(format!("handshake message #{}: re-serialization failed: {:?}", a, e))) }
            }
            other => return (tried, Some(format!("handshake message #{} does not parse back completely: {:?}", a, other.map(|(r, _)| r.len())))) }
    }
    // extensions
    let name = *b"ab";
    let exts = vec![TlsExtension::SNI(vec![(SNIType(0), &name[..]), (SNIType(7), &name[..1])]), TlsExtension::MaxFragmentLength(2), TlsExtension::EllipticCurves(vec![NamedGroup(23), NamedGroup(0xfafa)])];
    tried += 1;
    match cookie_factory_gen(&exts) {
        Ok(b) => {
            if ((b[0] as usize) << 8 | b[1] as usize) != b.len() - 2 { return (tried, Some("gen_tls_extensions: u16 block length does not equal the block's byte length".into())); }
            match parse_tls_extensions(&b[2..]) {
                Ok((rem, v)) => if !rem.is_empty() || v != exts { return (tried, Some(format!("gen_tls_extensions: SNI / max_fragment_length / supported_groups do not round-trip: {:?}", v))); },
                Err(e) => return (tried, Some(format!("gen_tls_extensions output does not parse: {:?}", e))),
            }
        }
        Err(e) => return (tried, Some(format!("gen_tls_extensions failed: {:?}", e))),
    }
    (tried, None)
}

fn cookie_factory_gen(exts: &[TlsExtension]) -> Result<Vec<u8>, GenError> {
    cookie_factory::gen_simple(gen_tls_extensions(exts), Vec::new())
}

// ---------------------------------------------------------------------------------------------
// C01 bounded stand-in for "Debug/Display of any returned value terminates without panic" (core::fmt is beyond
// CBMC's budget): every public parser is run on ALL inputs of length <= 2 and on a boundary corpus of longer
// inputs (constant / counting / zero-length-field patterns up to 48 bytes); every Ok value is formatted.
pub fn check_debug_format() -> (usize, Option<String>) {
    use std::panic;
    let mut corpus: Vec<Vec<u8>> = vec![vec![]];
    for a in 0..=255u8 { corpus.push(vec![a]); }
    for a in 0..=255u8 { for b in 0..=255u8 { corpus.push(vec![a, b]); } }
    for len in 3..=48usize {
        corpus.push(vec![0u8; len]);
        corpus.push(vec![1u8; len]);
        corpus.push((0..len).map(|k| k as u8).collect());
        let mut v = vec![0u8; len]; v[len - 1] = 1; corpus.push(v);
        let mut v = vec![0u8; len]; v[0] = 3; corpus.push(v.clone()); v[0] = 1; corpus.push(v);
    }
    macro_rules! fmt_all {
        ($tried:ident, $name:literal, $f:expr) => {
            for inp in corpus.iter() {
                $tried += 1;
                let i: &[u8] = inp;
                let r = panic::catch_unwind(|| { if let Ok((_, v)) = ($f)(i) { let s = format!("{:?}", v); s.len() } else { 0 } });
                if r.is_err() { return ($tried, Some(format!("{}: formatting (or parsing) panicked on input {:02x?}", $name, inp))); }
            }
        };
    }
    let mut tried = 0usize;
    fmt_all!(tried, "parse_dh_params", parse_dh_params);
    fmt_all!(tried, "parse_ecdh_params", parse_ecdh_params);
    fmt_all!(tried, "parse_ec_parameters", parse_ec_parameters);
    fmt_all!(tried, "parse_digitally_signed", parse_digitally_signed);
    fmt_all!(tried, "parse_digitally_signed_old", parse_digitally_signed_old);
    fmt_all!(tried, "parse_tls_plaintext", parse_tls_plaintext);
    fmt_all!(tried, "parse_tls_encrypted", parse_tls_encrypted);
    fmt_all!(tried, "parse_tls_raw_record", parse_tls_raw_record);
    fmt_all!(tried, "parse_tls_message_handshake", parse_tls_message_handshake);
    fmt_all!(tried, "parse_tls_handshake_client_hello", parse_tls_handshake_client_hello);
    fmt_all!(tried, "parse_tls_handshake_server_hello", parse_tls_handshake_server_hello);
    fmt_all!(tried, "parse_tls_handshake_msg_certificate", parse_tls_handshake_msg_certificate);
    fmt_all!(tried, "parse_tls_handshake_msg_certificaterequest", parse_tls_handshake_msg_certificaterequest);
    fmt_all!(tried, "parse_tls_extension", parse_tls_extension);
    fmt_all!(tried, "parse_tls_extensions", parse_tls_extensions);
    fmt_all!(tried, "parse_tls_client_hello_extensions", parse_tls_client_hello_extensions);
    fmt_all!(tried, "parse_tls_server_hello_extensions", parse_tls_server_hello_extensions);
    fmt_all!(tried, "parse_dtls_plaintext_record", parse_dtls_plaintext_record);
    fmt_all!(tried, "parse_dtls_message_handshake", parse_dtls_message_handshake);
    fmt_all!(tried, "parse_dtls_record_header", parse_dtls_record_header);
    fmt_all!(tried, "parse_ct_signed_certificate_timestamp_list", parse_ct_signed_certificate_timestamp_list);
    fmt_all!(tried, "parse_ct_signed_certificate_timestamp", parse_ct_signed_certificate_timestamp);
    (tried, None)
}

// ---------------------------------------------------------------------------------------------
// C04 / C10 / C11 / C05 bounded stand-in for LONG lists (the Kani leaves bound the list helpers at 7 bytes; the Verus
// proofs of the helpers are unbounded, but a rewritten helper body - an explicit loop, an extra adapter in the chain -
// falls outside the extraction and would only be "undecided"): ClientHello (TLS and DTLS) with n cipher suites and m
// compression methods, and supported_groups / supported_versions extensions with g groups / v versions, for list
// lengths around every power-of-two boundary up to the wire maximum; every element value distinct and checked in order.
pub fn check_long_lists() -> (usize, Option<String>) {
    let ns: [usize; 22] = [0, 1, 2, 3, 15, 16, 17, 127, 128, 129, 255, 256, 257, 511, 512, 513, 1023, 1024, 1025, 4097, 16385, 32767];
    let ms: [usize; 6] = [0, 1, 2, 128, 254, 255];
    let elem = |k: usize| -> u16 { ((k as u32 * 0x9e37 + 0x0a0a) & 0xffff) as u16 };       // spreads over both bytes, incl. 0x?a?a shapes
    let mut tried = 0usize;
    for (ni, &n) in ns.iter().enumerate() {
        let m = ms[ni % ms.len()];
        // body: version, random, empty session id, cipher list, compression list, no extensions
        let mut body = vec![0x03u8, 0x03];
        body.extend((0..32).map(|x| x as u8));
        body.push(0);
        let mut dtls_body = body.clone();
        dtls_body.push(0);                                           // empty cookie
        let mut lists = vec![];
        lists.extend_from_slice(&((2 * n) as u16).to_be_bytes());
        for k in 0..n { lists.extend_from_slice(&elem(k).to_be_bytes()); }
        lists.push(m as u8);
        lists.extend((0..m).map(|k| (k as u8).wrapping_mul(7).wrapping_add(1)));
        body.extend_from_slice(&lists);
        dtls_body.extend_from_slice(&lists);
        let check = |what: &str, ciphers: &Vec<TlsCipherSuiteID>, comp: &Vec<TlsCompressionID>| -> Option<String> {
            if ciphers.len() != n { return Some(format!("{} with {} cipher suites decoded to {} suites", what, n, ciphers.len())); }
            for k in 0..n { if ciphers[k].0 != elem(k) { return Some(format!("{} with {} cipher suites: suite #{} is {:#06x}, the encoder wrote {:#06x}", what, n, k, ciphers[k].0, elem(k))); } }
            if comp.len() != m { return Some(format!("{} with {} compression methods decoded to {}", what, m, comp.len())); }
            for k in 0..m { if comp[k].0 != (k as u8).wrapping_mul(7).wrapping_add(1) { return Some(format!("{} with {} compression methods: method #{} is {:#04x}", what, m, k, comp[k].0)); } }
            None
        };
        // TLS
        let mut msg = vec![1u8, (body.len() >> 16) as u8, (body.len() >> 8) as u8, body.len() as u8];
        msg.extend_from_slice(&body);
        tried += 1;
        match parse_tls_message_handshake(&msg) {
            Ok((rem, TlsMessage::Handshake(TlsMessageHandshake::ClientHello(ch)))) => {
                if !rem.is_empty() { return (tried, Some(format!("TLS ClientHello with {} cipher suites: {} bytes left over", n, rem.len()))); }
                if let Some(d) = check("TLS ClientHello", &ch.ciphers, &ch.comp) { return (tried, Some(d)); }
                let cs = ch.cipher_suites();
                if cs.len() != n { return (tried, Some(format!("cipher_suites() of a ClientHello with {} suites has {} entries", n, cs.len()))); }
            }
            other => return (tried, Some(format!("TLS ClientHello with {} cipher suites / {} compression methods not decoded: {:?}", n, m, other.map(|(r, _)| r.len()))))
        }
        // DTLS
        let l = dtls_body.len();
        let mut dmsg = vec![1u8, (l >> 16) as u8, (l >> 8) as u8, l as u8, 0, 0, 0, 0, 0, (l >> 16) as u8, (l >> 8) as u8, l as u8];
        dmsg.extend_from_slice(&dtls_body);
        tried += 1;
        match parse_dtls_message_handshake(&dmsg) {
            Ok((rem, DTLSMessage::Handshake(h))) => match &h.body {
                DTLSMessageHandshakeBody::ClientHello(ch) => {
                    if !rem.is_empty() { return (tried, Some(format!("DTLS ClientHello with {} cipher suites: {} bytes left over", n, rem.len()))); }
                    if let Some(d) = check("DTLS ClientHello", &ch.ciphers, &ch.comp) { return (tried, Some(d)); }
                }
                _ => return (tried, Some(format!("DTLS ClientHello with {} cipher suites decoded to another body", n))),
            },
            other => return (tried, Some(format!("DTLS ClientHello with {} cipher suites / {} compression methods not decoded: {:?}", n, m, other.map(|(r, _)| r.len()))))
        }
        // supported_groups with n groups (u16 list length <= 65534), supported_versions with v = min(n, 127) versions (u8 length)
        let n = n.min(32766);                                        // extension data = 2n + 2 bytes must fit the u16 length
        let v = n.min(127);
        let mut ext = vec![0u8, 10];
        ext.extend_from_slice(&((2 * n + 2) as u16).to_be_bytes());
        ext.extend_from_slice(&((2 * n) as u16).to_be_bytes());
        for k in 0..n { ext.extend_from_slice(&elem(k + 1).to_be_bytes()); }
        ext.extend_from_slice(&[0, 43]);
        ext.extend_from_slice(&((2 * v + 1) as u16).to_be_bytes());
        ext.push((2 * v) as u8);
        for k in 0..v { ext.extend_from_slice(&elem(k + 2).to_be_bytes()); }
        tried += 1;
        match parse_tls_client_hello_extensions(&ext) {
            Ok((rem, l)) => {
                if !rem.is_empty() || l.len() != 2 { return (tried, Some(format!("extension block with {} groups / {} versions: {} extensions, {} bytes left", n, v, l.len(), rem.len()))); }
                match (&l[0], &l[1]) {
                    (TlsExtension::EllipticCurves(g), TlsExtension::SupportedVersions(vs)) => {
                        if g.len() != n { return (tried, Some(format!("supported_groups with {} groups decoded to {}", n, g.len()))); }
                        for k in 0..n { if g[k].0 != elem(k + 1) { return (tried, Some(format!("supported_groups with {} groups: group #{} is {:#06x}, the encoder wrote {:#06x}", n, k, g[k].0, elem(k + 1)))); } }
                        if vs.len() != v { return (tried, Some(format!("supported_versions with {} versions decoded to {}", v, vs.len()))); }
                        for k in 0..v { if vs[k].0 != elem(k + 2) { return (tried, Some(format!("supported_versions with {} versions: version #{} is {:#06x}, the encoder wrote {:#06x}", v, k, vs[k].0, elem(k + 2)))); } }
                    }
                    _ => return (tried, Some(format!("extension block with {} groups / {} versions decoded to other variants: {:?}", n, v, l))),
                }
            }
            Err(e) => return (tried, Some(format!("extension block with {} groups / {} versions rejected: {:?}", n, v, e.map(|x| x.code)))),
        }
    }
    (tried, None)
}
