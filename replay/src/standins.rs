// Bounded / exhaustive-execution STAND-INS (not deductive; never counted as proved):
//  * registry names: Display/Debug text of every value of every registry newtype vs the IANA oracle
//  * cipher lookup by name over the listed names and a generated perturbation set
use std::convert::TryFrom;
use tls_parser::*;
use tls_parser::nom::Err;

include!("gen_names.rs");
include!("gen_ciphers.rs");

pub fn check_cipher_names() -> (usize, Option<String>) {
    let mut tried = 0usize;
    let listed: std::collections::HashMap<&str, u16> = ROWS.iter().map(|(i, n)| (*n, *i)).collect();
    let expect = |s: &str| -> Option<u16> { listed.get(s).copied() };
    let mut probe = |s: &str| -> Option<String> {
        let want = expect(s);
        let a = TlsCipherSuite::from_name(s).map(|c| c.id.0);
        let b = <&TlsCipherSuite>::try_from(s).ok().map(|c| c.id.0);
        if a != want { return Some(format!("from_name({:?}) = {:?}, expected {:?}", s, a, want)); }
        if b != want { return Some(format!("TryFrom<&str>({:?}) = {:?}, expected {:?}", s, b, want)); }
        if let Some(c) = TlsCipherSuite::from_name(s) { if c.name != s { return Some(format!("from_name({:?}) returned the suite named {:?}", s, c.name)); } }
        None
    };
    for (id, name) in ROWS.iter() {
        tried += 1;
        if let Some(d) = probe(name) { return (tried, Some(d)); }
        // the registry entry carries exactly this name
        match TlsCipherSuite::from_id(*id) { Some(c) if c.name == *name => {}, other => return (tried, Some(format!("from_id(0x{:04x}) name is {:?}, listed name is {:?}", id, other.map(|c| c.name), name))) }
        // perturbations: every proper prefix, one appended char, case changes, one token swapped with a neighbour's
        for k in 0..name.len() { tried += 1; if let Some(d) = probe(&name[..k]) { return (tried, Some(d)); } }
        for suffix in ["X", "_", " ", "8"] { tried += 1; if let Some(d) = probe(&format!("{}{}", name, suffix)) { return (tried, Some(d)); } }
        tried += 2;
        if let Some(d) = probe(&name.to_lowercase()) { return (tried, Some(d)); }
        if let Some(d) = probe(&format!(" {}", name)) { return (tried, Some(d)); }
        for (from, to) in [("128", "256"), ("256", "128"), ("SHA256", "SHA384"), ("SHA384", "SHA256"), ("_SHA", "_MD5"), ("GCM", "CBC"), ("CBC", "GCM"), ("ECDHE", "DHE"), ("RSA", "DSS"), ("AES", "ARIA")] {
            if name.contains(from) { tried += 1; if let Some(d) = probe(&name.replacen(from, to, 1)) { return (tried, Some(d)); } }
        }
    }
    (tried, None)
}

// ---------------------------------------------------------------------------------------------
// C16 bounded stand-in: tls_parser_many / parse_dtls_plaintext_records against the explicit loop over the
// single-record parser, on all concatenations of <= 3 pieces from a small alphabet of records and tails.
// (The deductive decision is the Verus units `many` / `dtls_many`; this only stands in when a rewritten body
// falls outside what the contracts cover.)
fn explicit_loop<'a, T, F>(mut i: &'a [u8], f: F) -> Result<(usize, usize), String>
where F: Fn(&'a [u8]) -> IResult<&'a [u8], T> {
    // returns (number of records, remainder length) or the class of the first record's failure
    let mut n = 0usize;
    loop {
        match f(i) {
            Ok((rem, _)) => { if rem.len() == i.len() { return Err("no-progress".into()); } n += 1; i = rem; }
            Err(e) => {
                if n == 0 { return Err(match e { Err::Incomplete(_) => "first-fails".into(), Err::Error(_) => "first-fails".into(), Err::Failure(_) => "first-fails".into() }); }
                return match e { Err::Failure(_) => Err("failure-propagated".into()), _ => Ok((n, i.len())) };
            }
        }
    }
}

pub fn check_multi_record() -> (usize, Option<String>) {
    let tls: Vec<Vec<u8>> = vec![
        vec![0x15, 3, 3, 0, 2, 1, 0], vec![0x14, 3, 3, 0, 1, 1], vec![0x17, 3, 3, 0, 0], vec![0x17, 3, 3, 0, 2, 9, 9],
        vec![0x18, 3, 3, 0, 3, 1, 0, 0], vec![0x16, 3, 3, 0, 4, 0, 0, 0, 0], vec![0x15, 3, 3, 0, 4, 1, 0, 2, 40],
        vec![0x15, 3, 3, 0, 2, 1], vec![0x15, 3, 3, 0x41, 0x01], vec![0x15, 3, 3], vec![0xff, 0, 0, 0, 0], vec![0x15, 3, 3, 0, 0], vec![],
    ];
    let dtls: Vec<Vec<u8>> = vec![
        vec![0x14, 0xfe, 0xfd, 0, 0, 0, 0, 0, 0, 0, 1, 0, 1, 1], vec![0x15, 0xfe, 0xfd, 0, 0, 0, 0, 0, 0, 0, 2, 0, 2, 2, 40],
        vec![0x16, 0xfe, 0xfd, 0, 0, 0, 0, 0, 0, 0, 3, 0x41, 0x01], vec![0x15, 0xfe, 0xfd, 0, 0, 0, 0, 0, 0, 0, 2, 0, 2, 2],
        vec![0x17, 0xfe, 0xfd, 0, 0, 0, 0, 0, 0, 0, 4, 0, 0], vec![0x15, 0xfe, 0xfd, 0], vec![],
    ];
    let mut tried = 0;
    for (which, alpha) in [(0, &tls), (1, &dtls)] {
        let k = alpha.len();
        for a in 0..k { for b in 0..k { for c in 0..k {
            let mut buf = alpha[a].clone();
            buf.extend_from_slice(&alpha[b]);
            buf.extend_from_slice(&alpha[c]);
            tried += 1;
            let (want, got): (Result<(usize, usize), String>, Result<(usize, usize), String>) = if which == 0 {
                (explicit_loop(&buf, parse_tls_plaintext), match tls_parser_many(&buf) { Ok((rem, v)) => Ok((v.len(), rem.len())), Err(_) => Err("first-fails".into()) })
            } else {
                (explicit_loop(&buf, parse_dtls_plaintext_record), match parse_dtls_plaintext_records(&buf) { Ok((rem, v)) => Ok((v.len(), rem.len())), Err(_) => Err("first-fails".into()) })
            };
            if let Err(ref w) = want { if w == "failure-propagated" || w == "no-progress" {
                return (tried, Some(format!("{} single-record parser answered {} on {:02x?}", if which == 0 { "TLS" } else { "DTLS" }, w, buf)));
            } }
            if want != got {
                return (tried, Some(format!("{} on {:02x?}: explicit loop over the single-record parser gives {:?} (records, remainder length) but the multi-record parser gives {:?}",
                    if which == 0 { "tls_parser_many" } else { "parse_dtls_plaintext_records" }, buf, want, got)));
            }
            #[allow(deprecated)]
            if which == 0 { if format!("{:?}", tls_parser(&buf)) != format!("{:?}", parse_tls_plaintext(&buf)) { return (tried, Some(format!("tls_parser differs from parse_tls_plaintext on {:02x?}", buf))); } }
        } } }
    }
    (tried, None)
}
