// Bounded / exhaustive-execution STAND-INS (not deductive; never counted as proved):
//  * registry names: Display/Debug text of every value of every registry newtype vs the IANA oracle
//  * cipher lookup by name over the listed names and a generated perturbation set
use std::convert::TryFrom;
use tls_parser::*;

include!("gen_names.rs");
include!("gen_ciphers.rs");

pub fn check_cipher_names() -> (usize, Option<String>) {
    let mut tried = 0usize;
    let listed: std::collections::HashMap<&str, u16> = ROWS.iter().map(|(i, n)| (*n, *i)).collect();
    let expect = |s: &str| -> Option<u16> { listed.get(s).copied() };
    let mut probe = |s: &str| -> Option<String> {
        let want = expect(s);
        let a = TlsCipherSuite::from_name(s).map(|c| c.id.0);
        let b = <&TlsCipherSuite>::try_from(s).ok().map(|c| c.id.0);
        if a != want { return Some(format!("from_name({:?}) = {:?}, expected {:?}", s, a, want)); }
        if b != want { return Some(format!("TryFrom<&str>({:?}) = {:?}, expected {:?}", s, b, want)); }
        if let Some(c) = TlsCipherSuite::from_name(s) { if c.name != s { return Some(format!("from_name({:?}) returned the suite named {:?}", s, c.name)); } }
        None
    };
    for (id, name) in ROWS.iter() {
        tried += 1;
        if let Some(d) = probe(name) { return (tried, Some(d)); }
        // the registry entry carries exactly this name
        match TlsCipherSuite::from_id(*id) { Some(c) if c.name == *name => {}, other => return (tried, Some(format!("from_id(0x{:04x}) name is {:?}, listed name is {:?}", id, other.map(|c| c.name), name))) }
        // perturbations: every proper prefix, one appended char, case changes, one token swapped with a neighbour's
        for k in 0..name.len() { tried += 1; if let Some(d) = probe(&name[..k]) { return (tried, Some(d)); } }
        for suffix in ["X", "_", " ", "8"] { tried += 1; if let Some(d) = probe(&format!("{}{}", name, suffix)) { return (tried, Some(d)); } }
        tried += 2;
        if let Some(d) = probe(&name.to_lowercase()) { return (tried, Some(d)); }
        if let Some(d) = probe(&format!(" {}", name)) { return (tried, Some(d)); }
        for (from, to) in [("128", "256"), ("256", "128"), ("SHA256", "SHA384"), ("SHA384", "SHA256"), ("_SHA", "_MD5"), ("GCM", "CBC"), ("CBC", "GCM"), ("ECDHE", "DHE"), ("RSA", "DSS"), ("AES", "ARIA")] {
            if name.contains(from) { tried += 1; if let Some(d) = probe(&name.replacen(from, to, 1)) { return (tried, Some(d)); } }
        }
    }
    (tried, None)
}
