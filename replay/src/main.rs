// Replays a Kani concrete-playback counterexample against the REAL crate in a normal build.
// The harness bodies and contracts are the very same source files Kani verified
// (/verif/kani/pub_*.rs), instantiated with ReplaySrc instead of KaniSrc.
#![allow(dead_code, unused_imports, unused_macros, unused_variables, deprecated)]
use std::io::Read;
use std::panic;

pub use tls_parser as tp;
extern crate alloc;

#[macro_use]
#[path = "/verif/kani/src.rs"]
pub mod src;
#[path = "/verif/kani/util.rs"]
pub mod util;
include!("mods.rs");
mod registry;
mod defrag_hist;
mod ext_search;
mod standins;

fn parse_vals(s: &str) -> (String, Vec<Vec<u8>>) {
    // minimal JSON reader for {"harness": "...", "vals": [[..],[..]]}
    let h = s.split("\"harness\"").nth(1).and_then(|t| t.split('"').nth(1)).unwrap_or("").to_string();
    let mut vals = Vec::new();
    if let Some(p) = s.find("\"vals\"") {
        let t = &s[p + 6..];
        let mut depth = 0;
        let mut cur: Vec<u8> = Vec::new();
        let mut num = String::new();
        for c in t.chars() {
            match c {
                '[' => { depth += 1; if depth == 2 { cur = Vec::new(); } }
                ']' => {
                    if depth == 2 { if !num.is_empty() { cur.push(num.parse().unwrap()); num.clear(); } vals.push(cur.clone()); }
                    depth -= 1;
                    if depth == 0 { break; }
                }
                '0'..='9' => num.push(c),
                ',' => { if depth == 2 && !num.is_empty() { cur.push(num.parse().unwrap()); num.clear(); } }
                _ => {}
            }
        }
    }
    (h, vals)
}

fn esc(s: &str) -> String { s.replace('\\', "\\\\").replace('"', "\\\"").replace('\n', " ") }

fn main() {
    let mut inp = String::new();
    std::io::stdin().read_to_string(&mut inp).unwrap();
    panic::set_hook(Box::new(|_| {}));
    if inp.contains("\"defrag_search\"") {
        // bounded witness search over defragmenter histories (witness finder only)
        let depth: usize = inp.split("\"depth\":").nth(1).and_then(|t| t.trim().chars().take_while(|c| c.is_ascii_digit()).collect::<String>().parse().ok()).unwrap_or(3);
        match defrag_hist::search(depth) {
            Some((ops, d)) => println!("{{\"outcome\": \"violation\", \"detail\": \"{}\", \"defrag_history\": {}}}", esc(&d), defrag_hist::ops_to_json(&ops)),
            None => println!("{{\"outcome\": \"not-reproduced\", \"detail\": \"no diverging history of length <= {} over the witness alphabet\"}}", depth),
        }
        return;
    }
    if inp.contains("\"names_check\"") {
        match standins::check_all_names() {
            Some(d) => println!("{{\"outcome\": \"violation\", \"detail\": \"{}\"}}", esc(&d)),
            None => println!("{{\"outcome\": \"ok\", \"detail\": \"every value of every registry newtype prints its constant name or a numeric fallback containing the value\"}}"),
        }
        return;
    }
    if inp.contains("\"framing_boundary_check\"") {
        let (n, r) = standins::check_framing_boundaries();
        match r {
            Some(d) => println!("{{\"outcome\": \"violation\", \"detail\": \"{}\", \"tried\": {}}}", esc(&d), n),
            None => println!("{{\"outcome\": \"ok\", \"detail\": \"framing entry points agree with the contract on {} boundary cases\", \"tried\": {}}}", n, n),
        }
        return;
    }
    if inp.contains("\"serializer_roundtrip_check\"") {
        let (n, r) = standins::check_serializer_roundtrip();
        match r {
            Some(d) => println!("{{\"outcome\": \"violation\", \"detail\": \"{}\", \"tried\": {}}}", esc(&d), n),
            None => println!("{{\"outcome\": \"ok\", \"detail\": \"{} records / messages / extension lists serialize with exact length fields, parse back completely and re-serialize identically\", \"tried\": {}}}", n, n),
        }
        return;
    }
    if inp.contains("\"debug_format_check\"") {
        let (n, r) = standins::check_debug_format();
        match r {
            Some(d) => println!("{{\"outcome\": \"violation\", \"detail\": \"{}\", \"tried\": {}}}", esc(&d), n),
            None => println!("{{\"outcome\": \"ok\", \"detail\": \"{} (parser, input) pairs: every Ok value formats with Debug without panic\", \"tried\": {}}}", n, n),
        }
        return;
    }
    if inp.contains("\"sct_list_check\"") {
        let (n, r) = standins::check_sct_lists();
        match r {
            Some(d) => println!("{{\"outcome\": \"violation\", \"detail\": \"{}\", \"tried\": {}}}", esc(&d), n),
            None => println!("{{\"outcome\": \"ok\", \"detail\": \"{} SCT lists of 0..5 well-formed entries decode in order with every field exact\", \"tried\": {}}}", n, n),
        }
        return;
    }
    if inp.contains("\"long_list_check\"") {
        let (n, r) = standins::check_long_lists();
        match r {
            Some(d) => println!("{{\"outcome\": \"violation\", \"detail\": \"{}\", \"tried\": {}}}", esc(&d), n),
            None => println!("{{\"outcome\": \"ok\", \"detail\": \"{} ClientHello / extension blocks with lists of 0..32767 elements decode element for element\", \"tried\": {}}}", n, n),
        }
        return;
    }
    if inp.contains("\"multi_record_check\"") {
        let (n, r) = standins::check_multi_record();
        match r {
            Some(d) => println!("{{\"outcome\": \"violation\", \"detail\": \"{}\", \"tried\": {}}}", esc(&d), n),
            None => println!("{{\"outcome\": \"ok\", \"detail\": \"multi-record parsers equal the explicit loop on {} buffers\", \"tried\": {}}}", n, n),
        }
        return;
    }
    if inp.contains("\"cipher_names_check\"") {
        let (n, r) = standins::check_cipher_names();
        match r {
            Some(d) => println!("{{\"outcome\": \"violation\", \"detail\": \"{}\", \"tried\": {}}}", esc(&d), n),
            None => println!("{{\"outcome\": \"ok\", \"detail\": \"by-name lookup correct on {} strings (listed names + perturbations)\", \"tried\": {}}}", n, n),
        }
        return;
    }
    if inp.contains("\"ext_search\"") {
        match ext_search::search() {
            Some(d) => println!("{{\"outcome\": \"violation\", \"detail\": \"{}\"}}", esc(&d)),
            None => println!("{{\"outcome\": \"not-reproduced\", \"detail\": \"all 65536 types x 4 bodies x 3 dispatchers follow the table\"}}"),
        }
        return;
    }
    if inp.contains("\"defrag_history\"") {
        let ops = defrag_hist::ops_from_json(&inp);
        match defrag_hist::run_history(&ops) {
            Some(d) => println!("{{\"outcome\": \"violation\", \"detail\": \"{}\"}}", esc(&d)),
            None => println!("{{\"outcome\": \"not-reproduced\", \"detail\": \"real parser follows the contract on this history ({} ops)\"}}", ops.len()),
        }
        return;
    }
    let (h, vals) = parse_vals(&inp);
    let mut s = src::ReplaySrc::new(vals);
    let res = panic::catch_unwind(panic::AssertUnwindSafe(|| registry::run(&h, &mut s)));
    let (outcome, detail) = match res {
        Ok(false) => ("not-replayable".to_string(), "harness is not in the replay registry (in-crate or stubbed harness)".to_string()),
        Ok(true) => {
            if s.rejected { ("input-rejected-by-precondition".to_string(), String::new()) }
            else if !s.failed.is_empty() { ("violation".to_string(), s.failed.join(" | ")) }
            else { ("not-reproduced".to_string(), String::new()) }
        }
        Err(e) => {
            let msg = if let Some(m) = e.downcast_ref::<String>() { m.clone() } else if let Some(m) = e.downcast_ref::<&str>() { m.to_string() } else { "panic".to_string() };
            if msg == "REPLAY-ASSUME-FAILED" { ("input-rejected-by-precondition".to_string(), String::new()) }
            else if msg == "REPLAY-OUT-OF-VALUES" { ("not-reproduced".to_string(), "recorded values exhausted".to_string()) }
            else { ("violation".to_string(), format!("real code panicked: {}", msg)) }
        }
    };
    println!("{{\"harness\": \"{}\", \"outcome\": \"{}\", \"detail\": \"{}\", \"checks_run\": {}}}", esc(&h), outcome, esc(&detail), s.checks);
}
