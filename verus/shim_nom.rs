// ---------------------------------------------------------------------------------------------
// nom shim for Verus units.  TYPES are transcribed variant-for-variant from nom 7.1.3
// (internal.rs / error.rs); the one deviation: Needed::Size carries a usize (nom: NonZeroUsize),
// with the non-zero invariant stated in the contracts that produce it.
// FUNCTIONS are external_body: their `ensures` is an ASSUMPTION in Verus and an OBLIGATION of the
// Kani harness named in the comment above each (checked against the real nom).
// ---------------------------------------------------------------------------------------------
#[derive(Clone, Copy, PartialEq, Eq, Structural)]
pub enum ErrorKind {
  Tag, MapRes, MapOpt, Alt, IsNot, IsA, SeparatedList, SeparatedNonEmptyList, Many0, Many1, ManyTill,
  Count, TakeUntil, LengthValue, TagClosure, Alpha, Digit, HexDigit, OctDigit, AlphaNumeric, Space,
  MultiSpace, LengthValueFn, Eof, Switch, TagBits, OneOf, NoneOf, Char, CrLf, RegexpMatch,
  RegexpMatches, RegexpFind, RegexpCapture, RegexpCaptures, TakeWhile1, Complete, Fix, Escaped,
  EscapedTransform, NonEmpty, ManyMN, Not, Permutation, Verify, TakeTill1, TakeWhileMN, TooLarge,
  Many0Count, Many1Count, Float, Satisfy, Fail,
}

pub enum Needed { Unknown, Size(usize) }

pub struct Error<I> { pub input: I, pub code: ErrorKind }

impl<I> Error<I> {
    pub fn new(input: I, code: ErrorKind) -> (e: Error<I>)
        ensures e.input == input, e.code == code,
    { Error { input, code } }
}

pub enum Err<E> { Incomplete(Needed), Error(E), Failure(E) }

pub type IResult<I, O> = Result<(I, O), Err<Error<I>>>;

// nom::error::make_error(input, kind) == Error::from_error_kind(input, kind) == Error{input, code}
pub fn make_error<I>(input: I, kind: ErrorKind) -> (e: Error<I>)
    ensures e.input == input, e.code == kind,
{ Error { input, code: kind } }

// nom::bytes::streaming::take(count): streaming take over &[u8].
// ASSUMED here; OBLIGATION of Kani harness shim_take (real nom, input <= 12 bytes, count full-domain).
pub open spec fn take_post(count: int, i: Seq<u8>, r: IResult<&[u8], &[u8]>) -> bool {
    if i.len() >= count {
        match r {
            Ok((rem, out)) => rem@ =~= i.subrange(count, i.len() as int) && out@ =~= i.subrange(0, count),
            Err(_) => false,
        }
    } else {
        r == Err::<(&[u8], &[u8]), Err<Error<&[u8]>>>(Err::Incomplete(Needed::Size((count - i.len()) as usize)))
    }
}

#[verifier::external_body]
pub fn take<'a>(count: usize) -> (f: impl Fn(&'a [u8]) -> IResult<&'a [u8], &'a [u8]>)
    ensures
        forall|i: &'a [u8]| #[trigger] f.requires((i,)),
        forall|i: &'a [u8], r: IResult<&'a [u8], &'a [u8]>| #[trigger] f.ensures((i,), r) ==> take_post(count as int, i@, r),
{ |i: &'a [u8]| -> IResult<&'a [u8], &'a [u8]> { unimplemented!() } }
