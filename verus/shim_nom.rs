// ---------------------------------------------------------------------------------------------
// nom shim for Verus units.  TYPES are transcribed variant-for-variant from nom 7.1.3
// (internal.rs / error.rs); the one deviation: Needed::Size carries a usize (nom: NonZeroUsize),
// with the non-zero invariant stated in the contracts that produce it.
// FUNCTIONS are external_body: their `ensures` is an ASSUMPTION in Verus and an OBLIGATION of the
// Kani harness named in the comment above each (checked against the real nom).
// ---------------------------------------------------------------------------------------------
#[derive(Clone, Copy, PartialEq, Eq, Structural)]
pub enum ErrorKind {
  Tag, MapRes, MapOpt, Alt, IsNot, IsA, SeparatedList, SeparatedNonEmptyList, Many0, Many1, ManyTill,
  Count, TakeUntil, LengthValue, TagClosure, Alpha, Digit, HexDigit, OctDigit, AlphaNumeric, Space,
  MultiSpace, LengthValueFn, Eof, Switch, TagBits, OneOf, NoneOf, Char, CrLf, RegexpMatch,
  RegexpMatches, RegexpFind, RegexpCapture, RegexpCaptures, TakeWhile1, Complete, Fix, Escaped,
  EscapedTransform, NonEmpty, ManyMN, Not, Permutation, Verify, TakeTill1, TakeWhileMN, TooLarge,
  Many0Count, Many1Count, Float, Satisfy, Fail,
}

pub enum Needed { Unknown, Size(usize) }

pub struct Error<I> { pub input: I, pub code: ErrorKind }

impl<I> Error<I> {
    pub fn new(input: I, code: ErrorKind) -> (e: Error<I>)
        ensures e.input == input, e.code == code,
    { Error { input, code } }
}

pub enum Err<E> { Incomplete(Needed), Error(E), Failure(E) }

pub type IResult<I, O> = Result<(I, O), Err<Error<I>>>;

// nom::error::make_error(input, kind) == Error::from_error_kind(input, kind) == Error{input, code}
pub fn make_error<I>(input: I, kind: ErrorKind) -> (e: Error<I>)
    ensures e.input == input, e.code == kind,
{ Error { input, code: kind } }

pub trait ToUsizeSpec: Sized { spec fn as_int(self) -> int; }
impl ToUsizeSpec for u8 { open spec fn as_int(self) -> int { self as int } }
impl ToUsizeSpec for u16 { open spec fn as_int(self) -> int { self as int } }
impl ToUsizeSpec for u32 { open spec fn as_int(self) -> int { self as int } }
impl ToUsizeSpec for usize { open spec fn as_int(self) -> int { self as int } }

// nom::bytes::streaming::take(count): streaming take over &[u8].
// ASSUMED here; OBLIGATION of Kani harness shim_take (real nom, input <= 12 bytes, count full-domain).
pub open spec fn take_post(count: int, i: Seq<u8>, r: IResult<&[u8], &[u8]>) -> bool {
    if i.len() >= count {
        match r {
            Ok((rem, out)) => rem@ =~= i.subrange(count, i.len() as int) && out@ =~= i.subrange(0, count),
            Err(_) => false,
        }
    } else {
        r == Err::<(&[u8], &[u8]), Err<Error<&[u8]>>>(Err::Incomplete(Needed::Size((count - i.len()) as usize)))
    }
}

#[verifier::external_body]
pub fn take<'a, C: ToUsizeSpec>(count: C) -> (f: impl Fn(&'a [u8]) -> IResult<&'a [u8], &'a [u8]>)
    ensures
        forall|i: &'a [u8]| #[trigger] f.requires((i,)),
        forall|i: &'a [u8], r: IResult<&'a [u8], &'a [u8]>| #[trigger] f.ensures((i,), r) ==> take_post(count.as_int(), i@, r),
{ |i: &'a [u8]| -> IResult<&'a [u8], &'a [u8]> { unimplemented!() } }

// nom::number::streaming::be_u8 / be_u16 / be_u24 / be_u32 over &[u8].
// ASSUMED here; OBLIGATIONS of Kani harnesses shim_be_u8 / shim_be_u16 / shim_be_u24 / shim_be_u32 (full domain).
pub open spec fn be_val(i: Seq<u8>, w: int) -> int
    decreases w
{
    if w <= 0 { 0 } else { be_val(i, w - 1) * 256 + (i[w - 1] as int) }
}
pub open spec fn be_post<T>(w: int, i: Seq<u8>, r: IResult<&[u8], T>, val: spec_fn(T) -> int) -> bool {
    if i.len() >= w {
        match r {
            Ok((rem, v)) => rem@ =~= i.subrange(w, i.len() as int) && val(v) == be_val(i, w),
            Err(_) => false,
        }
    } else {
        r == Err::<(&[u8], T), Err<Error<&[u8]>>>(Err::Incomplete(Needed::Size((w - i.len()) as usize)))
    }
}
#[verifier::external_body]
pub fn be_u8<'a>(i: &'a [u8]) -> (r: IResult<&'a [u8], u8>)
    ensures be_post(1, i@, r, |v: u8| v as int),
{ unimplemented!() }
#[verifier::external_body]
pub fn be_u16<'a>(i: &'a [u8]) -> (r: IResult<&'a [u8], u16>)
    ensures be_post(2, i@, r, |v: u16| v as int),
{ unimplemented!() }
#[verifier::external_body]
pub fn be_u24<'a>(i: &'a [u8]) -> (r: IResult<&'a [u8], u32>)
    ensures be_post(3, i@, r, |v: u32| v as int),
{ unimplemented!() }
#[verifier::external_body]
pub fn be_u32<'a>(i: &'a [u8]) -> (r: IResult<&'a [u8], u32>)
    ensures be_post(4, i@, r, |v: u32| v as int),
{ unimplemented!() }

// nom::multi::length_data(f): run f for the length, then streaming-take that many bytes.
// ASSUMED here; OBLIGATION of Kani harnesses shim_length_data_u8 / _u16 / _u24 (real nom, bounded input).
pub open spec fn length_data_post<N: ToUsizeSpec>(r0: IResult<&[u8], N>, r: IResult<&[u8], &[u8]>) -> bool {
    match r0 {
        Ok((rest, n)) => take_post(n.as_int(), rest@, r),
        Err(Err::Incomplete(nd)) => r == Err::<(&[u8], &[u8]), Err<Error<&[u8]>>>(Err::Incomplete(nd)),
        Err(Err::Error(e)) => r == Err::<(&[u8], &[u8]), Err<Error<&[u8]>>>(Err::Error(e)),
        Err(Err::Failure(e)) => r == Err::<(&[u8], &[u8]), Err<Error<&[u8]>>>(Err::Failure(e)),
    }
}

#[verifier::external_body]
pub fn length_data<'a, N: ToUsizeSpec, F: Fn(&'a [u8]) -> IResult<&'a [u8], N>>(f: F) -> (g: impl Fn(&'a [u8]) -> IResult<&'a [u8], &'a [u8]>)
    requires forall|i: &'a [u8]| #[trigger] f.requires((i,)),
    ensures
        forall|i: &'a [u8]| #[trigger] g.requires((i,)),
        forall|i: &'a [u8], r: IResult<&'a [u8], &'a [u8]>| #[trigger] g.ensures((i,), r) ==>
            exists|r0: IResult<&'a [u8], N>| #[trigger] f.ensures((i,), r0) && length_data_post(r0, r),
{ |i: &'a [u8]| -> IResult<&'a [u8], &'a [u8]> { unimplemented!() } }
