// ---------------------------------------------------------------------------------------------
// nom shim for Verus units.  TYPES are transcribed variant-for-variant from nom 7.1.3
// (internal.rs / error.rs); the one deviation: Needed::Size carries a usize (nom: NonZeroUsize),
// with the non-zero invariant stated in the contracts that produce it.
// FUNCTIONS are external_body: their `ensures` is an ASSUMPTION in Verus and an OBLIGATION of the
// Kani harness named in the comment above each (checked against the real nom).
// ---------------------------------------------------------------------------------------------
#[derive(Clone, Copy, PartialEq, Eq, Structural)]
pub enum ErrorKind {
  Tag, MapRes, MapOpt, Alt, IsNot, IsA, SeparatedList, SeparatedNonEmptyList, Many0, Many1, ManyTill,
  Count, TakeUntil, LengthValue, TagClosure, Alpha, Digit, HexDigit, OctDigit, AlphaNumeric, Space,
  MultiSpace, LengthValueFn, Eof, Switch, TagBits, OneOf, NoneOf, Char, CrLf, RegexpMatch,
  RegexpMatches, RegexpFind, RegexpCapture, RegexpCaptures, TakeWhile1, Complete, Fix, Escaped,
  EscapedTransform, NonEmpty, ManyMN, Not, Permutation, Verify, TakeTill1, TakeWhileMN, TooLarge,
  Many0Count, Many1Count, Float, Satisfy, Fail,
}

pub enum Needed { Unknown, Size(usize) }

pub struct Error<I> { pub input: I, pub code: ErrorKind }

impl<I> Error<I> {
    pub fn new(input: I, code: ErrorKind) -> (e: Error<I>)
        ensures e.input == input, e.code == code,
    { Error { input, code } }
}

pub enum Err<E> { Incomplete(Needed), Error(E), Failure(E) }

pub type IResult<I, O> = Result<(I, O), Err<Error<I>>>;

// nom::error::make_error(input, kind) == Error::from_error_kind(input, kind) == Error{input, code}
pub fn make_error<I>(input: I, kind: ErrorKind) -> (e: Error<I>)
    ensures e.input == input, e.code == kind,
{ Error { input, code: kind } }

pub trait ToUsizeSpec: Sized { spec fn as_int(self) -> int; }
impl ToUsizeSpec for u8 { open spec fn as_int(self) -> int { self as int } }
impl ToUsizeSpec for u16 { open spec fn as_int(self) -> int { self as int } }
impl ToUsizeSpec for u32 { open spec fn as_int(self) -> int { self as int } }
impl ToUsizeSpec for usize { open spec fn as_int(self) -> int { self as int } }

// fun_of(f): the mathematical function computed by the parser value f.  Parser values in this crate are
// safe, state-free Rust (forbid(unsafe_code), no statics, no interior mutability), hence deterministic
// functions of their input; that they terminate on every input is property C01 (checked by Kani).
pub uninterp spec fn fun_of<'a, O, F: Fn(&'a [u8]) -> IResult<&'a [u8], O>>(f: F) -> spec_fn(&'a [u8]) -> IResult<&'a [u8], O>;

// nom::bytes::streaming::take(count): streaming take over &[u8].
// ASSUMED here; OBLIGATION of Kani harness shim_take (real nom, input <= 12 bytes, count full-domain).
pub open spec fn take_post(count: int, i: Seq<u8>, r: IResult<&[u8], &[u8]>) -> bool {
    if i.len() >= count {
        match r {
            Ok((rem, out)) => rem@ =~= i.subrange(count, i.len() as int) && out@ =~= i.subrange(0, count),
            Err(_) => false,
        }
    } else {
        r == Err::<(&[u8], &[u8]), Err<Error<&[u8]>>>(Err::Incomplete(Needed::Size((count - i.len()) as usize)))
    }
}

#[verifier::external_body]
pub fn take<'a, C: ToUsizeSpec>(count: C) -> (f: impl Fn(&'a [u8]) -> IResult<&'a [u8], &'a [u8]>)
    ensures
        forall|i: &'a [u8]| #[trigger] f.requires((i,)),
        forall|i: &'a [u8], r: IResult<&'a [u8], &'a [u8]>| #[trigger] f.ensures((i,), r) ==> take_post(count.as_int(), i@, r),
        // ... and as a function (see fun_of below): total, deterministic, its value satisfies the same contract
        forall|i: &'a [u8], r: IResult<&'a [u8], &'a [u8]>| #[trigger] f.ensures((i,), r) ==> r == fun_of(f)(i),
        forall|i: &'a [u8]| take_post(count.as_int(), i@, #[trigger] fun_of(f)(i)),
{ |i: &'a [u8]| -> IResult<&'a [u8], &'a [u8]> { unimplemented!() } }

// nom::number::streaming::be_u8 / be_u16 / be_u24 / be_u32 over &[u8].
// ASSUMED here; OBLIGATIONS of Kani harnesses shim_be_u8 / shim_be_u16 / shim_be_u24 / shim_be_u32 (full domain).
pub open spec fn be_val(i: Seq<u8>, w: int) -> int
    decreases w
{
    if w <= 0 { 0 } else { be_val(i, w - 1) * 256 + (i[w - 1] as int) }
}
pub open spec fn be_post<T>(w: int, i: Seq<u8>, r: IResult<&[u8], T>, val: spec_fn(T) -> int) -> bool {
    if i.len() >= w {
        match r {
            Ok((rem, v)) => rem@ =~= i.subrange(w, i.len() as int) && val(v) == be_val(i, w),
            Err(_) => false,
        }
    } else {
        r == Err::<(&[u8], T), Err<Error<&[u8]>>>(Err::Incomplete(Needed::Size((w - i.len()) as usize)))
    }
}
#[verifier::external_body]
pub fn be_u8<'a>(i: &'a [u8]) -> (r: IResult<&'a [u8], u8>)
    ensures be_post(1, i@, r, |v: u8| v as int),
{ unimplemented!() }
#[verifier::external_body]
pub fn be_u16<'a>(i: &'a [u8]) -> (r: IResult<&'a [u8], u16>)
    ensures be_post(2, i@, r, |v: u16| v as int),
{ unimplemented!() }
#[verifier::external_body]
pub fn be_u24<'a>(i: &'a [u8]) -> (r: IResult<&'a [u8], u32>)
    ensures be_post(3, i@, r, |v: u32| v as int),
{ unimplemented!() }
#[verifier::external_body]
pub fn be_u32<'a>(i: &'a [u8]) -> (r: IResult<&'a [u8], u32>)
    ensures be_post(4, i@, r, |v: u32| v as int),
{ unimplemented!() }

// nom::multi::length_data(f): run f for the length, then streaming-take that many bytes.
// ASSUMED here; OBLIGATION of Kani harnesses shim_length_data_u8 / _u16 / _u24 (real nom, bounded input).
pub open spec fn length_data_post<N: ToUsizeSpec>(r0: IResult<&[u8], N>, r: IResult<&[u8], &[u8]>) -> bool {
    match r0 {
        Ok((rest, n)) => take_post(n.as_int(), rest@, r),
        Err(Err::Incomplete(nd)) => r == Err::<(&[u8], &[u8]), Err<Error<&[u8]>>>(Err::Incomplete(nd)),
        Err(Err::Error(e)) => r == Err::<(&[u8], &[u8]), Err<Error<&[u8]>>>(Err::Error(e)),
        Err(Err::Failure(e)) => r == Err::<(&[u8], &[u8]), Err<Error<&[u8]>>>(Err::Failure(e)),
    }
}

#[verifier::external_body]
pub fn length_data<'a, N: ToUsizeSpec, F: Fn(&'a [u8]) -> IResult<&'a [u8], N>>(f: F) -> (g: impl Fn(&'a [u8]) -> IResult<&'a [u8], &'a [u8]>)
    requires forall|i: &'a [u8]| #[trigger] f.requires((i,)),
    ensures
        forall|i: &'a [u8]| #[trigger] g.requires((i,)),
        forall|i: &'a [u8], r: IResult<&'a [u8], &'a [u8]>| #[trigger] g.ensures((i,), r) ==>
            exists|r0: IResult<&'a [u8], N>| #[trigger] f.ensures((i,), r0) && length_data_post(r0, r),
        // the same statement without existentials, for a prefix parser whose results are those of fun_of
        (forall|i: &'a [u8], r0: IResult<&'a [u8], N>| #[trigger] f.ensures((i,), r0) ==> r0 == fun_of(f)(i))
        ==> ((forall|i: &'a [u8], r: IResult<&'a [u8], &'a [u8]>| #[trigger] g.ensures((i,), r) ==> r == fun_of(g)(i))
             && (forall|i: &'a [u8]| length_data_post(fun_of(f)(i), #[trigger] fun_of(g)(i)))),
{ |i: &'a [u8]| -> IResult<&'a [u8], &'a [u8]> { unimplemented!() } }

// ---------------------------------------------------------------------------------------------
// Combinators over parsers-as-values.  `res_of(f, i)` is THE result of a deterministic, total
// parser value f on input i; the combinator contracts below are stated over it, so a caller's
// proof never sees an existential.
//   complete(f): Incomplete -> Error(Complete), everything else passed through   [combinator/mod.rs]
//   many1(f) / many0(f): the explicit accumulate-while-Ok loop, incl. the no-progress check  [multi/mod.rs]
// ASSUMED here; OBLIGATIONS of Kani harnesses shim_complete / shim_many1 / shim_many0 (real nom,
// a cheap element parser, bounded input).
// ---------------------------------------------------------------------------------------------
// a parser never returns a remainder longer than its input
pub open spec fn nongrowing<'a, O>(p: spec_fn(&'a [u8]) -> IResult<&'a [u8], O>) -> bool {
    forall|j: &'a [u8]| (#[trigger] p(j)) is Ok ==> p(j)->Ok_0.0@.len() <= j@.len()
}
// f can be used as a combinator argument: callable on every input, results are those of fun_of(f), non-growing
pub open spec fn is_fun<'a, O, F: Fn(&'a [u8]) -> IResult<&'a [u8], O>>(f: F) -> bool {
    (forall|i: &'a [u8]| #[trigger] f.requires((i,)))
    && (forall|i: &'a [u8], r: IResult<&'a [u8], O>| #[trigger] f.ensures((i,), r) ==> r == fun_of(f)(i))
    && nongrowing(fun_of(f))
}

pub open spec fn complete_map<'a, O>(r0: IResult<&'a [u8], O>, i: &'a [u8]) -> IResult<&'a [u8], O> {
    match r0 {
        Err(Err::Incomplete(_)) => Err(Err::Error(Error { input: i, code: ErrorKind::Complete })),
        _ => r0,
    }
}
pub open spec fn completed<'a, O>(p: spec_fn(&'a [u8]) -> IResult<&'a [u8], O>) -> spec_fn(&'a [u8]) -> IResult<&'a [u8], O> {
    |j: &'a [u8]| complete_map(p(j), j)
}

#[verifier::external_body]
pub fn complete<'a, O, F: Fn(&'a [u8]) -> IResult<&'a [u8], O>>(f: F) -> (g: impl Fn(&'a [u8]) -> IResult<&'a [u8], O>)
    requires is_fun(f),
    ensures is_fun(g), fun_of(g) == completed(fun_of(f)),
{ |i: &'a [u8]| -> IResult<&'a [u8], O> { unimplemented!() } }

// the loop of many0 / many1 standing at input i with `acc` already collected
pub open spec fn loop_from<'a, O>(p: spec_fn(&'a [u8]) -> IResult<&'a [u8], O>, i: &'a [u8], acc: Seq<O>, code: ErrorKind,
                                  r: IResult<&'a [u8], Vec<O>>) -> bool
    decreases i@.len()
{
    match p(i) {
        Err(Err::Error(_)) => (match r { Ok((rem, v)) => rem@ == i@ && v@ == acc, Err(_) => false }),
        Err(Err::Incomplete(n)) => r == Err::<(&[u8], Vec<O>), Err<Error<&[u8]>>>(Err::Incomplete(n)),
        Err(Err::Failure(e)) => r == Err::<(&[u8], Vec<O>), Err<Error<&[u8]>>>(Err::Failure(e)),
        Ok((i1, o)) =>
            if i1@.len() == i@.len() { r == Err::<(&[u8], Vec<O>), Err<Error<&[u8]>>>(Err::Error(Error { input: i, code: code })) }
            else if i1@.len() < i@.len() { loop_from(p, i1, acc.push(o), code, r) }
            else { true },   // a parser that grows its input: outside nom's contract
    }
}
pub open spec fn many1_post<'a, O>(p: spec_fn(&'a [u8]) -> IResult<&'a [u8], O>, i: &'a [u8], r: IResult<&'a [u8], Vec<O>>) -> bool {
    match p(i) {
        Err(e) => r == Err::<(&[u8], Vec<O>), Err<Error<&[u8]>>>(e),        // incl. Error: nom's Error::append keeps the inner error
        Ok((i1, o)) => loop_from(p, i1, seq![o], ErrorKind::Many1, r),
    }
}
pub open spec fn many0_post<'a, O>(p: spec_fn(&'a [u8]) -> IResult<&'a [u8], O>, i: &'a [u8], r: IResult<&'a [u8], Vec<O>>) -> bool {
    loop_from(p, i, Seq::<O>::empty(), ErrorKind::Many0, r)
}

#[verifier::external_body]
pub fn many1<'a, O, F: Fn(&'a [u8]) -> IResult<&'a [u8], O>>(f: F) -> (g: impl Fn(&'a [u8]) -> IResult<&'a [u8], Vec<O>>)
    requires is_fun(f),
    ensures
        forall|i: &'a [u8]| #[trigger] g.requires((i,)),
        forall|i: &'a [u8], r: IResult<&'a [u8], Vec<O>>| #[trigger] g.ensures((i,), r) ==> many1_post(fun_of(f), i, r),
        forall|i: &'a [u8], r: IResult<&'a [u8], Vec<O>>| #[trigger] g.ensures((i,), r) ==> r == fun_of(g)(i),
        forall|i: &'a [u8]| many1_post(fun_of(f), i, #[trigger] fun_of(g)(i)),
{ |i: &'a [u8]| -> IResult<&'a [u8], Vec<O>> { unimplemented!() } }

#[verifier::external_body]
pub fn many0<'a, O, F: Fn(&'a [u8]) -> IResult<&'a [u8], O>>(f: F) -> (g: impl Fn(&'a [u8]) -> IResult<&'a [u8], Vec<O>>)
    requires is_fun(f),
    ensures
        forall|i: &'a [u8]| #[trigger] g.requires((i,)),
        forall|i: &'a [u8], r: IResult<&'a [u8], Vec<O>>| #[trigger] g.ensures((i,), r) ==> many0_post(fun_of(f), i, r),
        forall|i: &'a [u8], r: IResult<&'a [u8], Vec<O>>| #[trigger] g.ensures((i,), r) ==> r == fun_of(g)(i),
        forall|i: &'a [u8]| many0_post(fun_of(f), i, #[trigger] fun_of(g)(i)),
{ |i: &'a [u8]| -> IResult<&'a [u8], Vec<O>> { unimplemented!() } }

// nom::combinator::map_parser(f, g): run f, then g on f's OUTPUT; f's remainder is kept, g's remainder is
// dropped, errors of either are propagated unchanged.      [combinator/mod.rs]
// ASSUMED here; OBLIGATION of Kani harness shim_map_parser (real nom, cheap inner parser, bounded input).
pub open spec fn map_parser_fn<'a, O2>(pf: spec_fn(&'a [u8]) -> IResult<&'a [u8], &'a [u8]>, pg: spec_fn(&'a [u8]) -> IResult<&'a [u8], O2>, i: &'a [u8]) -> IResult<&'a [u8], O2> {
    match pf(i) {
        Ok((rem, o1)) => match pg(o1) {
            Ok((_, o2)) => Ok((rem, o2)),
            Err(e) => Err(e),
        },
        Err(e) => Err(e),
    }
}

#[verifier::external_body]
pub fn map_parser<'a, O2, F: Fn(&'a [u8]) -> IResult<&'a [u8], &'a [u8]>, G: Fn(&'a [u8]) -> IResult<&'a [u8], O2>>(f: F, g: G) -> (h: impl Fn(&'a [u8]) -> IResult<&'a [u8], O2>)
    requires forall|i: &'a [u8]| #[trigger] f.requires((i,)), forall|i: &'a [u8]| #[trigger] g.requires((i,)),
    ensures
        forall|i: &'a [u8]| #[trigger] h.requires((i,)),
        forall|i: &'a [u8], r: IResult<&'a [u8], O2>| #[trigger] h.ensures((i,), r) ==>
            exists|r1: IResult<&'a [u8], &'a [u8]>| #[trigger] f.ensures((i,), r1) && match r1 {
                Ok((rem, o1)) => exists|r2: IResult<&'a [u8], O2>| #[trigger] g.ensures((o1,), r2) && match r2 {
                    Ok((_, o2)) => r == Ok::<(&'a [u8], O2), Err<Error<&'a [u8]>>>((rem, o2)),
                    Err(e) => r == Err::<(&'a [u8], O2), Err<Error<&'a [u8]>>>(e),
                },
                Err(e) => r == Err::<(&'a [u8], O2), Err<Error<&'a [u8]>>>(e),
            },
        // the same statement without existentials, for parser values whose results are those of fun_of
        ((forall|i: &'a [u8], r: IResult<&'a [u8], &'a [u8]>| #[trigger] f.ensures((i,), r) ==> r == fun_of(f)(i))
         && (forall|i: &'a [u8], r: IResult<&'a [u8], O2>| #[trigger] g.ensures((i,), r) ==> r == fun_of(g)(i)))
        ==> (forall|i: &'a [u8], r: IResult<&'a [u8], O2>| #[trigger] h.ensures((i,), r) ==> r == map_parser_fn(fun_of(f), fun_of(g), i)),
{ |i: &'a [u8]| -> IResult<&'a [u8], O2> { unimplemented!() } }

// nom::combinator::map(p, f): run p, apply f to its output; remainder and errors unchanged.  [combinator/mod.rs]
// ASSUMED here; OBLIGATION of Kani harness shim_map.
pub open spec fn map_rel<'a, O1, O2, G: Fn(O1) -> O2>(r0: IResult<&'a [u8], O1>, r: IResult<&'a [u8], O2>, f: G) -> bool {
    match r0 {
        Ok((rem, o1)) => (match r { Ok((rem2, o2)) => rem2 == rem && f.ensures((o1,), o2), Err(_) => false }),
        Err(e) => r == Err::<(&'a [u8], O2), Err<Error<&'a [u8]>>>(e),
    }
}
#[verifier::external_body]
pub fn map<'a, O1, O2, F: Fn(&'a [u8]) -> IResult<&'a [u8], O1>, G: Fn(O1) -> O2>(p: F, f: G) -> (h: impl Fn(&'a [u8]) -> IResult<&'a [u8], O2>)
    requires forall|i: &'a [u8]| #[trigger] p.requires((i,)), forall|x: O1| #[trigger] f.requires((x,)),
    ensures
        forall|i: &'a [u8]| #[trigger] h.requires((i,)),
        forall|i: &'a [u8], r: IResult<&'a [u8], O2>| #[trigger] h.ensures((i,), r) ==>
            exists|r1: IResult<&'a [u8], O1>| #[trigger] p.ensures((i,), r1) && match r1 {
                Ok((rem, o1)) => exists|o2: O2| #[trigger] f.ensures((o1,), o2) && r == Ok::<(&'a [u8], O2), Err<Error<&'a [u8]>>>((rem, o2)),
                Err(e) => r == Err::<(&'a [u8], O2), Err<Error<&'a [u8]>>>(e),
            },
        // the same statement for a function-like parser value p (no existential): the result on i is p's result with
        // an output that satisfies the closure's contract on p's output (closure values in the extracted code are
        // total: their bodies are verified and return)
        is_fun(p) ==> (is_fun(h) && forall|i: &'a [u8]| map_rel(fun_of(p)(i), #[trigger] fun_of(h)(i), f)),
{ |i: &'a [u8]| -> IResult<&'a [u8], O2> { unimplemented!() } }

// the integer readers as functions (same status as the other fun_of facts: ASSUMED; Kani shim_be checks be_post)
#[verifier::external_body]
pub proof fn axiom_be_fun<'a>()
    ensures
        forall|i: &'a [u8], r: IResult<&'a [u8], u8>| #[trigger] be_u8.ensures((i,), r) ==> r == fun_of(be_u8)(i),
        forall|i: &'a [u8]| be_post(1, i@, #[trigger] fun_of(be_u8)(i), |v: u8| v as int),
        forall|i: &'a [u8], r: IResult<&'a [u8], u16>| #[trigger] be_u16.ensures((i,), r) ==> r == fun_of(be_u16)(i),
        forall|i: &'a [u8]| be_post(2, i@, #[trigger] fun_of(be_u16)(i), |v: u16| v as int),
        forall|i: &'a [u8], r: IResult<&'a [u8], u32>| #[trigger] be_u24.ensures((i,), r) ==> r == fun_of(be_u24)(i),
        forall|i: &'a [u8]| be_post(3, i@, #[trigger] fun_of(be_u24)(i), |v: u32| v as int),
        forall|i: &'a [u8], r: IResult<&'a [u8], u32>| #[trigger] be_u32.ensures((i,), r) ==> r == fun_of(be_u32)(i),
        forall|i: &'a [u8]| be_post(4, i@, #[trigger] fun_of(be_u32)(i), |v: u32| v as int),
{}

// nom::combinator::opt(f): Error -> Ok((input, None)); Ok -> Some; Incomplete / Failure propagated.   [combinator/mod.rs]
// nom::combinator::cond(b, f): b ? f wrapped in Some : Ok((input, None)).
// Functional form (for parser values whose results are those of fun_of).  ASSUMED here; OBLIGATION of Kani shim_opt_cond.
pub open spec fn opt_map<'a, O>(r0: IResult<&'a [u8], O>, i: &'a [u8]) -> IResult<&'a [u8], Option<O>> {
    match r0 {
        Ok((rem, o)) => Ok((rem, Some(o))),
        Err(Err::Error(_)) => Ok((i, None)),
        Err(Err::Incomplete(n)) => Err(Err::Incomplete(n)),
        Err(Err::Failure(e)) => Err(Err::Failure(e)),
    }
}
#[verifier::external_body]
pub fn opt<'a, O, F: Fn(&'a [u8]) -> IResult<&'a [u8], O>>(f: F) -> (g: impl Fn(&'a [u8]) -> IResult<&'a [u8], Option<O>>)
    requires forall|i: &'a [u8]| #[trigger] f.requires((i,)),
             forall|i: &'a [u8], r: IResult<&'a [u8], O>| #[trigger] f.ensures((i,), r) ==> r == fun_of(f)(i),
    ensures
        forall|i: &'a [u8]| #[trigger] g.requires((i,)),
        forall|i: &'a [u8], r: IResult<&'a [u8], Option<O>>| #[trigger] g.ensures((i,), r) ==> r == opt_map(fun_of(f)(i), i),
        forall|i: &'a [u8], r: IResult<&'a [u8], Option<O>>| #[trigger] g.ensures((i,), r) ==> r == fun_of(g)(i),
        forall|i: &'a [u8]| #[trigger] fun_of(g)(i) == opt_map(fun_of(f)(i), i),
{ |i: &'a [u8]| -> IResult<&'a [u8], Option<O>> { unimplemented!() } }

pub open spec fn cond_map<'a, O>(b: bool, r0: IResult<&'a [u8], O>, i: &'a [u8]) -> IResult<&'a [u8], Option<O>> {
    if b { match r0 { Ok((rem, o)) => Ok((rem, Some(o))), Err(e) => Err(e) } } else { Ok((i, None)) }
}
#[verifier::external_body]
pub fn cond<'a, O, F: Fn(&'a [u8]) -> IResult<&'a [u8], O>>(b: bool, f: F) -> (g: impl Fn(&'a [u8]) -> IResult<&'a [u8], Option<O>>)
    requires forall|i: &'a [u8]| #[trigger] f.requires((i,)),
             forall|i: &'a [u8], r: IResult<&'a [u8], O>| #[trigger] f.ensures((i,), r) ==> r == fun_of(f)(i),
    ensures
        forall|i: &'a [u8]| #[trigger] g.requires((i,)),
        forall|i: &'a [u8], r: IResult<&'a [u8], Option<O>>| #[trigger] g.ensures((i,), r) ==> r == cond_map(b, fun_of(f)(i), i),
{ |i: &'a [u8]| -> IResult<&'a [u8], Option<O>> { unimplemented!() } }

// nom::multi::length_count(f, g): run f for the count, then g exactly that many times, collecting; the first error of
// either is returned (Error::append(_, Count, e) is e for nom::error::Error).   [multi/mod.rs]
// nom::branch::alt((a, b)): a's result unless it is Err(Error), in which case b's result (Error::or keeps b's error,
// Error::append(_, Alt, e) is e).                                                 [branch/mod.rs]
// ASSUMED here; OBLIGATIONS of Kani harnesses shim_length_count / shim_alt (real nom, cheap element parser, bounded input).
pub open spec fn count_from<'a, O>(pg: spec_fn(&'a [u8]) -> IResult<&'a [u8], O>, i: &'a [u8], k: int, acc: Seq<O>, r: IResult<&'a [u8], Vec<O>>) -> bool
    decreases k
{
    if k <= 0 { match r { Ok((rem, v)) => rem@ == i@ && v@ == acc, Err(_) => false } }
    else { match pg(i) {
        Ok((i1, o)) => count_from(pg, i1, k - 1, acc.push(o), r),
        Err(e) => r == Err::<(&[u8], Vec<O>), Err<Error<&[u8]>>>(e),
    } }
}
pub open spec fn length_count_post<'a, N: ToUsizeSpec, O>(pf: spec_fn(&'a [u8]) -> IResult<&'a [u8], N>, pg: spec_fn(&'a [u8]) -> IResult<&'a [u8], O>,
                                                         i: &'a [u8], r: IResult<&'a [u8], Vec<O>>) -> bool {
    match pf(i) {
        Ok((i1, n)) => count_from(pg, i1, n.as_int(), Seq::<O>::empty(), r),
        Err(e) => r == Err::<(&[u8], Vec<O>), Err<Error<&[u8]>>>(e),
    }
}
#[verifier::external_body]
pub fn length_count<'a, N: ToUsizeSpec, O, F: Fn(&'a [u8]) -> IResult<&'a [u8], N>, G: Fn(&'a [u8]) -> IResult<&'a [u8], O>>(f: F, g: G) -> (h: impl Fn(&'a [u8]) -> IResult<&'a [u8], Vec<O>>)
    requires is_fun(f), is_fun(g),
    ensures
        forall|i: &'a [u8]| #[trigger] h.requires((i,)),
        forall|i: &'a [u8], r: IResult<&'a [u8], Vec<O>>| #[trigger] h.ensures((i,), r) ==> length_count_post(fun_of(f), fun_of(g), i, r),
{ |i: &'a [u8]| -> IResult<&'a [u8], Vec<O>> { unimplemented!() } }

pub open spec fn alt2_fn<'a, O>(pa: spec_fn(&'a [u8]) -> IResult<&'a [u8], O>, pb: spec_fn(&'a [u8]) -> IResult<&'a [u8], O>, i: &'a [u8]) -> IResult<&'a [u8], O> {
    match pa(i) {
        Err(Err::Error(_)) => pb(i),
        r => r,
    }
}
#[verifier::external_body]
pub fn alt<'a, O, A: Fn(&'a [u8]) -> IResult<&'a [u8], O>, B: Fn(&'a [u8]) -> IResult<&'a [u8], O>>(l: (A, B)) -> (h: impl Fn(&'a [u8]) -> IResult<&'a [u8], O>)
    requires is_fun(l.0), is_fun(l.1),
    ensures
        forall|i: &'a [u8]| #[trigger] h.requires((i,)),
        forall|i: &'a [u8], r: IResult<&'a [u8], O>| #[trigger] h.ensures((i,), r) ==> r == alt2_fn(fun_of(l.0), fun_of(l.1), i),
{ |i: &'a [u8]| -> IResult<&'a [u8], O> { unimplemented!() } }

// nom::bytes::streaming::tag(t) for a 2-byte tag over &[u8]: compare the common prefix first (a mismatch is
// Error(Tag) even on a short input), then Incomplete(Size(missing)) if the input is shorter than the tag.   [bytes/streaming.rs]
// ASSUMED here; OBLIGATION of Kani harness shim_tag (real nom, every tag value, inputs of length 0..4).
pub open spec fn tag2_post(t: Seq<u8>, i: Seq<u8>, r: IResult<&[u8], &[u8]>) -> bool {
    if i.len() >= 1 && i[0] != t[0] { r is Err && r->Err_0 is Error && r->Err_0->Error_0.code == ErrorKind::Tag && r->Err_0->Error_0.input@ =~= i }
    else if i.len() >= 2 && i[1] != t[1] { r is Err && r->Err_0 is Error && r->Err_0->Error_0.code == ErrorKind::Tag && r->Err_0->Error_0.input@ =~= i }
    else if i.len() < 2 { r == Err::<(&[u8], &[u8]), Err<Error<&[u8]>>>(Err::Incomplete(Needed::Size((2 - i.len()) as usize))) }
    else { match r { Ok((rem, out)) => out@ =~= i.subrange(0, 2) && rem@ =~= i.subrange(2, i.len() as int), Err(_) => false } }
}
#[verifier::external_body]
pub fn tag<'a>(t: [u8; 2]) -> (f: impl Fn(&'a [u8]) -> IResult<&'a [u8], &'a [u8]>)
    ensures
        forall|i: &'a [u8]| #[trigger] f.requires((i,)),
        forall|i: &'a [u8], r: IResult<&'a [u8], &'a [u8]>| #[trigger] f.ensures((i,), r) ==> tag2_post(t@, i@, r),
{ |i: &'a [u8]| -> IResult<&'a [u8], &'a [u8]> { unimplemented!() } }

// nom::combinator::verify(first, second): run first; keep its Ok iff second(&output), otherwise
// Error(make_error(input, Verify)) at the ORIGINAL input; errors of first propagated unchanged.   [combinator/mod.rs]
// ASSUMED here; OBLIGATION of Kani harness shim_verify (real nom, bounded input).
#[verifier::external_body]
pub fn verify<'a, O, F: Fn(&'a [u8]) -> IResult<&'a [u8], O>, G: Fn(&O) -> bool>(first: F, second: G) -> (h: impl Fn(&'a [u8]) -> IResult<&'a [u8], O>)
    requires forall|i: &'a [u8]| #[trigger] first.requires((i,)), forall|x: &O| #[trigger] second.requires((x,)),
    ensures
        forall|i: &'a [u8]| #[trigger] h.requires((i,)),
        forall|i: &'a [u8], r: IResult<&'a [u8], O>| #[trigger] h.ensures((i,), r) ==>
            exists|r1: IResult<&'a [u8], O>| #[trigger] first.ensures((i,), r1) && match r1 {
                Ok((rem, o)) => exists|b: bool| #[trigger] second.ensures((&o,), b) && (if b { r == r1 }
                    else { r == Err::<(&'a [u8], O), Err<Error<&'a [u8]>>>(Err::Error(Error { input: i, code: ErrorKind::Verify })) }),
                Err(e) => r == r1,
            },
{ |i: &'a [u8]| -> IResult<&'a [u8], O> { unimplemented!() } }

// the u16-length-prefixed block reader as a parser value usable under complete()/opt(): derived facts, proved once
pub proof fn lemma_length_data_u16_is_fun<'a, G: Fn(&'a [u8]) -> IResult<&'a [u8], &'a [u8]>>(g: G)
    requires
        forall|i: &'a [u8]| #[trigger] g.requires((i,)),
        forall|i: &'a [u8], r: IResult<&'a [u8], &'a [u8]>| #[trigger] g.ensures((i,), r) ==> r == fun_of(g)(i),
        forall|i: &'a [u8]| length_data_post(fun_of(be_u16)(i), #[trigger] fun_of(g)(i)),
        forall|i: &'a [u8]| be_post(2, i@, #[trigger] fun_of(be_u16)(i), |v: u16| v as int),
    ensures is_fun(g),
{
    assert forall|j: &'a [u8]| (#[trigger] fun_of(g)(j)) is Ok implies fun_of(g)(j)->Ok_0.0@.len() <= j@.len() by {
        let r0 = fun_of(be_u16)(j);
        assert(be_post(2, j@, r0, |v: u16| v as int));
        assert(length_data_post(r0, fun_of(g)(j)));
    }
}
