// ---------------------------------------------------------------------------------------------
// std iterator-adapter shim for Verus units (rule R17).  Verus has no model of `Iterator::map` /
// `collect`, so the two adapter CHAINS the repository uses are named as functions whose body is
// the chain itself and whose `ensures` is the std definition of the chain:
//     chunks_map_collect(s, c, f) == s.chunks(c).map(f).collect::<Vec<_>>()
//     iter_map_collect(s, f)      == s.iter().map(f).collect::<Vec<_>>()
// ASSUMED in Verus, OBLIGATIONS of Kani `shim_chunks_map_collect` / `shim_iter_map_collect`
// (the real core/alloc code against the same statements, bounded in slice length).
// The closure is the caller's: its precondition must hold for every chunk the chain produces
// (the last chunk may be SHORTER than c) and its contract is all the caller learns of an element.
// ---------------------------------------------------------------------------------------------
pub open spec fn nchunks(n: int, c: int) -> int { if n % c == 0 { n / c } else { n / c + 1 } }
pub open spec fn chunk_of<T>(s: Seq<T>, c: int, k: int) -> Seq<T> {
    s.subrange(k * c, if (k + 1) * c <= s.len() { (k + 1) * c } else { s.len() as int })
}
pub open spec fn is_chunk<T>(s: Seq<T>, c: int, ch: Seq<T>) -> bool {
    exists|k: int| 0 <= k < nchunks(s.len() as int, c) && ch == #[trigger] chunk_of(s, c, k)
}
pub open spec fn chunk_elem_ok<'a, T: 'a, U, F: Fn(&'a [T]) -> U>(s: Seq<T>, c: int, f: F, k: int, e: U) -> bool {
    exists|ch: &'a [T]| ch@ == chunk_of(s, c, k) && #[trigger] f.ensures((ch,), e)
}
#[verifier::external_body]
pub fn chunks_map_collect<'a, T: 'a, U, F: Fn(&'a [T]) -> U>(s: &'a [T], c: usize, f: F) -> (v: Vec<U>)
    requires c > 0,                                                              // <[T]>::chunks panics on 0
        forall|ch: &'a [T]| is_chunk(s@, c as int, ch@) ==> #[trigger] f.requires((ch,)),
    ensures v@.len() == nchunks(s@.len() as int, c as int),
        forall|k: int| 0 <= k < v@.len() ==> chunk_elem_ok(s@, c as int, f, k, #[trigger] v@[k]),
{
    s.chunks(c).map(f).collect()
}
pub open spec fn iter_elem_ok<'a, T: 'a, U, F: Fn(&'a T) -> U>(s: Seq<T>, f: F, k: int, e: U) -> bool {
    exists|x: &'a T| *x == s[k] && #[trigger] f.ensures((x,), e)
}
#[verifier::external_body]
pub fn iter_map_collect<'a, T: 'a, U, F: Fn(&'a T) -> U>(s: &'a [T], f: F) -> (v: Vec<U>)
    requires forall|x: &'a T| s@.contains(*x) ==> #[trigger] f.requires((x,)),
    ensures v@.len() == s@.len(),
        forall|k: int| 0 <= k < v@.len() ==> iter_elem_ok(s@, f, k, #[trigger] v@[k]),
{
    s.iter().map(f).collect()
}
// (a << 8 | b) on u16 is the big-endian value of the two bytes, in the spellings a maintainer might use (bit-vector facts, PROVED)
pub proof fn lemma_shl8_or(a: u8, b: u8)
    ensures ((a as u16) << 8 | b as u16) as int == (a as int) * 256 + (b as int),
            (b as u16 | (a as u16) << 8) as int == (a as int) * 256 + (b as int),
            (((a as u16) << 8) + b as u16) as int == (a as int) * 256 + (b as int),
            ((a as u16) * 256 + b as u16) as int == (a as int) * 256 + (b as int),
            ((a as u16) << 8 ^ b as u16) as int == (a as int) * 256 + (b as int),
{
    assert(((a as u16) << 8 | b as u16) == (a as u16) * 256 + (b as u16)) by (bit_vector);
    assert((b as u16 | (a as u16) << 8) == (a as u16) * 256 + (b as u16)) by (bit_vector);
    assert(((a as u16) << 8) == (a as u16) * 256) by (bit_vector);
    assert(((a as u16) << 8 ^ b as u16) == (a as u16) * 256 + (b as u16)) by (bit_vector);
}
// parity of a length, in both spellings
pub proof fn lemma_parity(n: usize) ensures (n & 1) == n % 2 { assert((n & 1) == n % 2) by (bit_vector); }
// ---------------------------------------------------------------------------------------------
// Rule R18: `<&[u8] as TryInto<&[u8; N]>>::try_into` (the zero-copy reference conversion), named as a function (vstd specifies try_into
// through its TryFromSpec trait, which cannot be implemented for std's array types from outside):
//     slice_try_into_array(s) == s.try_into()          (core::array: Ok(the same bytes) iff s.len() == N)
// ASSUMED in Verus, OBLIGATION of Kani `shim_slice_try_into_array` on the real core.
// ---------------------------------------------------------------------------------------------
#[verifier::external_type_specification]
#[verifier::external_body]
pub struct ExTryFromSliceError(core::array::TryFromSliceError);
#[verifier::external_body]
pub fn slice_try_into_array<'a, const N: usize>(s: &'a [u8]) -> (r: Result<&'a [u8; N], core::array::TryFromSliceError>)
    ensures s@.len() == N ==> (r is Ok && r->Ok_0@ =~= s@),
            s@.len() != N ==> r is Err,
{
    s.try_into()
}
