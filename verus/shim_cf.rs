// ---------------------------------------------------------------------------------------------
// cookie-factory 0.3.3 shim for the Verus unit `serialize` (property C09).
// TYPES transcribed from cookie-factory's internal.rs (GenError::IoError loses its io::Error payload; the
// `SerializeFn<W>` trait alias is written out as `Fn(WriteContext<W>) -> GenResult<W>`, which is what its blanket
// impl makes it - rule R20).  FUNCTIONS are external_body: their `ensures` is an ASSUMPTION in Verus and an
// OBLIGATION of the Kani harness named above each (the real cookie-factory on a Vec<u8> writer).
// Semantics: a serializer value `f` EMITS an outcome `o` (emits(f, o)) when it can always be called and every
// call either appends exactly the bytes of `o` to what the writer has received, or - only for a writer that can fail -
// reports an error; `o = Fail(e)` means every call returns Err(e) (NotYetImplemented for unsupported variants).
// ---------------------------------------------------------------------------------------------
pub trait Write {}
impl Write for Vec<u8> {}
pub enum GenError { BufferTooSmall(usize), BufferTooBig(usize), InvalidOffset, IoError, CustomError(u32), NotYetImplemented }
pub struct WriteContext<W> { pub write: W, pub position: u64 }
pub type GenResult<W> = Result<WriteContext<W>, GenError>;

pub uninterp spec fn written<W>(w: W) -> Seq<u8>;      // the bytes a writer has received so far
pub uninterp spec fn can_fail<W>() -> bool;            // whether the writer's `write` may report an error / a short write
// Vec<u8>'s io::Write appends and never fails (ASSUMED: std; Kani shim_cf_* run the real code on a Vec<u8>)
#[verifier::external_body]
pub broadcast proof fn axiom_vec_writer(v: Vec<u8>) ensures #[trigger] written(v) == v@, !can_fail::<Vec<u8>>() {}

pub enum GenOut { Bytes(Seq<u8>), Fail(GenError) }
pub open spec fn gen_post<W>(ctx: WriteContext<W>, r: GenResult<W>, o: GenOut) -> bool {
    match o {
        GenOut::Bytes(b) => match r {
            Ok(c2) => written(c2.write) =~= written(ctx.write) + b,
            Err(e) => can_fail::<W>(),
        },
        GenOut::Fail(e0) => r is Err && r->Err_0 == e0,
    }
}
// the serializer can be run on any write context
pub open spec fn callable<W, F: Fn(WriteContext<W>) -> GenResult<W>>(f: F) -> bool { forall|ctx: WriteContext<W>| #[trigger] f.requires((ctx,)) }
pub open spec fn emits<W, F: Fn(WriteContext<W>) -> GenResult<W>>(f: F, o: GenOut) -> bool {
    callable(f)
    && (forall|ctx: WriteContext<W>, r: GenResult<W>| #[trigger] f.ensures((ctx,), r) ==> gen_post(ctx, r, o))
}
// a shared reference to a serializer is that serializer (core: `impl<F: Fn> Fn for &F` forwards the call) - ASSUMED
#[verifier::external_body]
pub broadcast proof fn axiom_ref_serializer<W, F: Fn(WriteContext<W>) -> GenResult<W>>(f: &F, o: GenOut)
    ensures #![trigger emits::<W, F>(*f, o)] #![trigger emits::<W, &F>(f, o)] emits::<W, &F>(f, o) == emits::<W, F>(*f, o), callable::<W, &F>(f) == callable::<W, F>(*f) {}
// sequencing: the first failure wins, otherwise the bytes are concatenated
pub open spec fn seq_out(a: GenOut, b: GenOut) -> GenOut {
    match a { GenOut::Fail(e) => GenOut::Fail(e), GenOut::Bytes(x) => match b { GenOut::Fail(e) => GenOut::Fail(e), GenOut::Bytes(y) => GenOut::Bytes(x + y) } }
}
pub open spec fn u16_bytes(i: u16) -> Seq<u8> { seq![(i >> 8) as u8, (i & 0xff) as u8] }
pub open spec fn u24_bytes(i: u32) -> Seq<u8> { seq![((i >> 16) & 0xff) as u8, ((i >> 8) & 0xff) as u8, (i & 0xff) as u8] }

// Kani shim_cf_bytes
#[verifier::external_body]
pub fn be_u8<W: Write>(i: u8) -> (f: impl Fn(WriteContext<W>) -> GenResult<W>)
    ensures emits(f, GenOut::Bytes(seq![i])),
{ move |ctx: WriteContext<W>| Err(GenError::InvalidOffset) }
#[verifier::external_body]
pub fn be_u16<W: Write>(i: u16) -> (f: impl Fn(WriteContext<W>) -> GenResult<W>)
    ensures emits(f, GenOut::Bytes(u16_bytes(i))),
{ move |ctx: WriteContext<W>| Err(GenError::InvalidOffset) }
#[verifier::external_body]
pub fn be_u24<W: Write>(i: u32) -> (f: impl Fn(WriteContext<W>) -> GenResult<W>)      // the low 24 bits
    ensures emits(f, GenOut::Bytes(u24_bytes(i))),
{ move |ctx: WriteContext<W>| Err(GenError::InvalidOffset) }
// Kani shim_cf_slice.  cookie-factory's `slice` takes any `S: AsRef<[u8]>`; the two instances the repository uses:
#[verifier::external_body]
pub fn slice<'a, W: Write>(s: &'a [u8]) -> (f: impl Fn(WriteContext<W>) -> GenResult<W> + 'a)
    ensures emits(f, GenOut::Bytes(s@)),
{ move |ctx: WriteContext<W>| Err(GenError::InvalidOffset) }
#[verifier::external_body]
pub fn slice_vec<W: Write>(s: Vec<u8>) -> (f: impl Fn(WriteContext<W>) -> GenResult<W>)
    ensures emits(f, GenOut::Bytes(s@)),
{ move |ctx: WriteContext<W>| Err(GenError::InvalidOffset) }
// Kani shim_cf_gen: gen(&f, Vec::new()) runs f on a fresh Vec writer: the bytes and their count, or f's error
#[verifier::external_body]
pub fn gen_ref<F: Fn(WriteContext<Vec<u8>>) -> GenResult<Vec<u8>>>(f: &F, w: Vec<u8>) -> (r: Result<(Vec<u8>, u64), GenError>)
    requires callable(*f),
    ensures forall|o: GenOut| #![trigger emits(*f, o)] emits(*f, o) ==> match o {
        GenOut::Bytes(b) => r is Ok && r->Ok_0.0@ == w@ + b && r->Ok_0.1 == b.len() as u64,
        GenOut::Fail(e) => r is Err && r->Err_0 == e },
{ unimplemented!() }
// cookie-factory's `tuple((a, b, ..))` is one generic function over a Tuple trait implemented for every arity; here one
// function per arity (rule R21: `tuple((a, b, c))` -> `tuple3(a, b, c)`), right-nested sequencing.  Kani shim_cf_tuple
#[verifier::external_body]
pub fn tuple2<W: Write, A: Fn(WriteContext<W>) -> GenResult<W>, B: Fn(WriteContext<W>) -> GenResult<W>>(a_: A, b_: B) -> (f: impl Fn(WriteContext<W>) -> GenResult<W>)
    requires callable(a_), callable(b_),
    ensures callable(f), forall|o0: GenOut, o1: GenOut| #![trigger emits(a_, o0), emits(b_, o1)] emits(a_, o0) && emits(b_, o1) ==> emits(f, seq_out(o0, o1)),
{ move |ctx: WriteContext<W>| Err(GenError::InvalidOffset) }
#[verifier::external_body]
pub fn tuple3<W: Write, A: Fn(WriteContext<W>) -> GenResult<W>, B: Fn(WriteContext<W>) -> GenResult<W>, C: Fn(WriteContext<W>) -> GenResult<W>>(a_: A, b_: B, c_: C) -> (f: impl Fn(WriteContext<W>) -> GenResult<W>)
    requires callable(a_), callable(b_), callable(c_),
    ensures callable(f), forall|o0: GenOut, o1: GenOut, o2: GenOut| #![trigger emits(a_, o0), emits(b_, o1), emits(c_, o2)] emits(a_, o0) && emits(b_, o1) && emits(c_, o2) ==> emits(f, seq_out(o0, seq_out(o1, o2))),
{ move |ctx: WriteContext<W>| Err(GenError::InvalidOffset) }
#[verifier::external_body]
pub fn tuple4<W: Write, A: Fn(WriteContext<W>) -> GenResult<W>, B: Fn(WriteContext<W>) -> GenResult<W>, C: Fn(WriteContext<W>) -> GenResult<W>, D: Fn(WriteContext<W>) -> GenResult<W>>(a_: A, b_: B, c_: C, d_: D) -> (f: impl Fn(WriteContext<W>) -> GenResult<W>)
    requires callable(a_), callable(b_), callable(c_), callable(d_),
    ensures callable(f), forall|o0: GenOut, o1: GenOut, o2: GenOut, o3: GenOut| #![trigger emits(a_, o0), emits(b_, o1), emits(c_, o2), emits(d_, o3)] emits(a_, o0) && emits(b_, o1) && emits(c_, o2) && emits(d_, o3) ==> emits(f, seq_out(o0, seq_out(o1, seq_out(o2, o3)))),
{ move |ctx: WriteContext<W>| Err(GenError::InvalidOffset) }
#[verifier::external_body]
pub fn tuple5<W: Write, A: Fn(WriteContext<W>) -> GenResult<W>, B: Fn(WriteContext<W>) -> GenResult<W>, C: Fn(WriteContext<W>) -> GenResult<W>, D: Fn(WriteContext<W>) -> GenResult<W>, E: Fn(WriteContext<W>) -> GenResult<W>>(a_: A, b_: B, c_: C, d_: D, e_: E) -> (f: impl Fn(WriteContext<W>) -> GenResult<W>)
    requires callable(a_), callable(b_), callable(c_), callable(d_), callable(e_),
    ensures callable(f), forall|o0: GenOut, o1: GenOut, o2: GenOut, o3: GenOut, o4: GenOut| #![trigger emits(a_, o0), emits(b_, o1), emits(c_, o2), emits(d_, o3), emits(e_, o4)] emits(a_, o0) && emits(b_, o1) && emits(c_, o2) && emits(d_, o3) && emits(e_, o4) ==> emits(f, seq_out(o0, seq_out(o1, seq_out(o2, seq_out(o3, o4))))),
{ move |ctx: WriteContext<W>| Err(GenError::InvalidOffset) }
#[verifier::external_body]
pub fn tuple6<W: Write, A: Fn(WriteContext<W>) -> GenResult<W>, B: Fn(WriteContext<W>) -> GenResult<W>, C: Fn(WriteContext<W>) -> GenResult<W>, D: Fn(WriteContext<W>) -> GenResult<W>, E: Fn(WriteContext<W>) -> GenResult<W>, F: Fn(WriteContext<W>) -> GenResult<W>>(a_: A, b_: B, c_: C, d_: D, e_: E, f_: F) -> (f: impl Fn(WriteContext<W>) -> GenResult<W>)
    requires callable(a_), callable(b_), callable(c_), callable(d_), callable(e_), callable(f_),
    ensures callable(f), forall|o0: GenOut, o1: GenOut, o2: GenOut, o3: GenOut, o4: GenOut, o5: GenOut| #![trigger emits(a_, o0), emits(b_, o1), emits(c_, o2), emits(d_, o3), emits(e_, o4), emits(f_, o5)] emits(a_, o0) && emits(b_, o1) && emits(c_, o2) && emits(d_, o3) && emits(e_, o4) && emits(f_, o5) ==> emits(f, seq_out(o0, seq_out(o1, seq_out(o2, seq_out(o3, seq_out(o4, o5)))))),
{ move |ctx: WriteContext<W>| Err(GenError::InvalidOffset) }
#[verifier::external_body]
pub fn tuple7<W: Write, A: Fn(WriteContext<W>) -> GenResult<W>, B: Fn(WriteContext<W>) -> GenResult<W>, C: Fn(WriteContext<W>) -> GenResult<W>, D: Fn(WriteContext<W>) -> GenResult<W>, E: Fn(WriteContext<W>) -> GenResult<W>, F: Fn(WriteContext<W>) -> GenResult<W>, G: Fn(WriteContext<W>) -> GenResult<W>>(a_: A, b_: B, c_: C, d_: D, e_: E, f_: F, g_: G) -> (f: impl Fn(WriteContext<W>) -> GenResult<W>)
    requires callable(a_), callable(b_), callable(c_), callable(d_), callable(e_), callable(f_), callable(g_),
    ensures callable(f), forall|o0: GenOut, o1: GenOut, o2: GenOut, o3: GenOut, o4: GenOut, o5: GenOut, o6: GenOut| #![trigger emits(a_, o0), emits(b_, o1), emits(c_, o2), emits(d_, o3), emits(e_, o4), emits(f_, o5), emits(g_, o6)] emits(a_, o0) && emits(b_, o1) && emits(c_, o2) && emits(d_, o3) && emits(e_, o4) && emits(f_, o5) && emits(g_, o6) ==> emits(f, seq_out(o0, seq_out(o1, seq_out(o2, seq_out(o3, seq_out(o4, seq_out(o5, o6))))))),
{ move |ctx: WriteContext<W>| Err(GenError::InvalidOffset) }
#[verifier::external_body]
pub fn tuple8<W: Write, A: Fn(WriteContext<W>) -> GenResult<W>, B: Fn(WriteContext<W>) -> GenResult<W>, C: Fn(WriteContext<W>) -> GenResult<W>, D: Fn(WriteContext<W>) -> GenResult<W>, E: Fn(WriteContext<W>) -> GenResult<W>, F: Fn(WriteContext<W>) -> GenResult<W>, G: Fn(WriteContext<W>) -> GenResult<W>, H: Fn(WriteContext<W>) -> GenResult<W>>(a_: A, b_: B, c_: C, d_: D, e_: E, f_: F, g_: G, h_: H) -> (f: impl Fn(WriteContext<W>) -> GenResult<W>)
    requires callable(a_), callable(b_), callable(c_), callable(d_), callable(e_), callable(f_), callable(g_), callable(h_),
    ensures callable(f), forall|o0: GenOut, o1: GenOut, o2: GenOut, o3: GenOut, o4: GenOut, o5: GenOut, o6: GenOut, o7: GenOut| #![trigger emits(a_, o0), emits(b_, o1), emits(c_, o2), emits(d_, o3), emits(e_, o4), emits(f_, o5), emits(g_, o6), emits(h_, o7)] emits(a_, o0) && emits(b_, o1) && emits(c_, o2) && emits(d_, o3) && emits(e_, o4) && emits(f_, o5) && emits(g_, o6) && emits(h_, o7) ==> emits(f, seq_out(o0, seq_out(o1, seq_out(o2, seq_out(o3, seq_out(o4, seq_out(o5, seq_out(o6, o7)))))))),
{ move |ctx: WriteContext<W>| Err(GenError::InvalidOffset) }
// Result::and_then (vstd specifies Option::and_then only): std's definition, ASSUMED
pub assume_specification<T, E, U, F: FnOnce(T) -> Result<U, E>>[ Result::<T, E>::and_then ](r: Result<T, E>, f: F) -> (res: Result<U, E>)
    requires r is Ok ==> f.requires((r->Ok_0,)),
    ensures match r { Ok(x) => f.ensures((x,), res), Err(e) => res == Err::<U, E>(e) };
