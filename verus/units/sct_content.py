# V-SCT-CONTENT (properties C14, C11): the SCT content parser (version, 32-byte log id, u64 timestamp, u16-prefixed
# extensions, digitally-signed) and its two helpers, extracted verbatim and proved field by field for every input
# length; parse_digitally_signed and the algorithm newtypes are re-proved here from the macro expansion (as in unit
# derived) because the content parser calls them.
import os, sys
sys.path.insert(0, os.path.dirname(os.path.abspath(__file__)))
from states import adt
import derived as _dv

F_CT = "src/certificate_transparency.rs"
F_SH = "src/tls_sign_hash.rs"

# from unit derived: its spec text and the items for HashAlgorithm, SignAlgorithm, parse_digitally_signed
_dv_items = [it for it in _dv.UNIT["items"] if (it["kind"] == "derived" and it["name"] in ("HashAlgorithm", "SignAlgorithm"))
             or it.get("name") == "parse_digitally_signed"]

SPEC = r'''
#[verifier::external_body]
pub fn be_u64<'a>(i: &'a [u8]) -> (r: IResult<&'a [u8], u64>)      // ASSUMED; Kani shim_be checks be_u64 too
    ensures be_post(8, i@, r, |v: u64| v as int),
{ unimplemented!() }

pub open spec fn be64s(s: Seq<u8>, o: int) -> int {
    ((((((((s[o] as int) * 256 + (s[o + 1] as int)) * 256 + (s[o + 2] as int)) * 256 + (s[o + 3] as int)) * 256 + (s[o + 4] as int)) * 256
        + (s[o + 5] as int)) * 256 + (s[o + 6] as int)) * 256 + (s[o + 7] as int))
}
// log id: exactly 32 bytes
pub open spec fn log_id_post(i: Seq<u8>, r: IResult<&[u8], CtLogID>) -> bool {
    if i.len() < 32 { is_incomplete(r) }
    else { match r { Ok((rem, id)) => id.key_id@ =~= i.subrange(0, 32) && rem@ =~= i.subrange(32, i.len() as int), Err(_) => false } }
}
// extensions: opaque<0..2^16-1>
pub open spec fn ct_ext_post(i: Seq<u8>, r: IResult<&[u8], CtExtensions>) -> bool {
    if !lp_ok(i, 0, 2) { is_incomplete(r) }
    else { match r { Ok((rem, e)) => e.0@ =~= lp_data(i, 0, 2) && rem@ =~= i.subrange(lp_next(i, 0, 2), i.len() as int), Err(_) => false } }
}
// SCT content (RFC 6962 3.2): version u8, LogID[32], timestamp u64, extensions<u16>, digitally-signed (hash, sig, opaque<u16>)
pub open spec fn sct_content_post(i: Seq<u8>, r: IResult<&[u8], SignedCertificateTimestamp>) -> bool {
    if i.len() < 41 || !lp_ok(i, 41, 2) { is_incomplete(r) }
    else { let o = lp_next(i, 41, 2);
        if i.len() < o + 2 || !lp_ok(i, o + 2, 2) { is_incomplete(r) }
        else { match r {
            Ok((rem, s)) => s.version.0 == i[0] && s.id.key_id@ =~= i.subrange(1, 33) && s.timestamp as int == be64s(i, 33)
                && s.extensions.0@ =~= lp_data(i, 41, 2)
                && s.signature.alg is Some && s.signature.alg->Some_0.hash.0 == i[o] && s.signature.alg->Some_0.sign.0 == i[o + 1]
                && s.signature.data@ =~= lp_data(i, o + 2, 2)
                && rem@ =~= i.subrange(lp_next(i, o + 2, 2), i.len() as int),
            Err(_) => false } } }
}
'''

ROUNDTRIP = r'''
// The property as stated (C14), for the content of one SCT: what an RFC 6962 3.2 encoder wrote is what comes back -
// version, 32-byte log id, the 64-bit timestamp over its full range, extensions, hash / signature algorithm, signature -
// and the encoding is consumed exactly.
pub open spec fn enc_u16(n: int) -> Seq<u8> { seq![(n / 256) as u8, (n % 256) as u8] }
proof fn lemma_sct_content_roundtrip(ver: u8, id: Seq<u8>, ts: Seq<u8>, ext: Seq<u8>, h: u8, sg: u8, sig: Seq<u8>, tail: Seq<u8>, r: IResult<&[u8], SignedCertificateTimestamp>)
    requires id.len() == 32, ts.len() == 8, ext.len() <= 65535, sig.len() <= 65535,
        sct_content_post(seq![ver] + id + ts + enc_u16(ext.len() as int) + ext + seq![h, sg] + enc_u16(sig.len() as int) + sig + tail, r),
    ensures r is Ok, r->Ok_0.0@ =~= tail, r->Ok_0.1.version.0 == ver, r->Ok_0.1.id.key_id@ =~= id, r->Ok_0.1.timestamp as int == be64s(ts, 0),
        r->Ok_0.1.extensions.0@ =~= ext, r->Ok_0.1.signature.alg is Some, r->Ok_0.1.signature.alg->Some_0.hash.0 == h,
        r->Ok_0.1.signature.alg->Some_0.sign.0 == sg, r->Ok_0.1.signature.data@ =~= sig,
{
    let el = ext.len() as int; let sl = sig.len() as int;
    let b = seq![ver] + id + ts + enc_u16(el) + ext + seq![h, sg] + enc_u16(sl) + sig + tail;
    let o = 43 + el;
    assert(b.len() == o + 4 + sl + tail.len());
    assert(b[0] == ver);
    assert(b.subrange(1, 33) =~= id);
    assert(b.subrange(33, 41) =~= ts);
    assert(be64s(b, 33) == be64s(ts, 0)) by {
        let e = ts;
        assert(b[33] == e[0] && b[34] == e[1] && b[35] == e[2] && b[36] == e[3] && b[37] == e[4] && b[38] == e[5] && b[39] == e[6] && b[40] == e[7]);
    }
    assert(b[41] == (el / 256) as u8 && b[42] == (el % 256) as u8);
    assert(be16s(b, 41) == el);
    assert(b.subrange(43, 43 + el) =~= ext);
    assert(b[o] == h && b[o + 1] == sg);
    assert(b[o + 2] == (sl / 256) as u8 && b[o + 3] == (sl % 256) as u8);
    assert(be16s(b, o + 2) == sl);
    assert(b.subrange(o + 4, o + 4 + sl) =~= sig);
    assert(b.subrange(o + 4 + sl, b.len() as int) =~= tail);
}
'''

UNIT = {
    "name": "sct_content",
    "needs_expanded": True,
    "property": ["C14", "C11"],
    "prelude": ["shim_nom.rs", "shim_std.rs"],
    "items": [
        adt(F_SH, "struct", "HashAlgorithm"),
        adt(F_SH, "struct", "SignAlgorithm"),
        adt(F_SH, "struct", "SignatureAndHashAlgorithm"),
        adt(F_SH, "struct", "DigitallySigned"),
        adt(F_CT, "struct", "CtVersion"),
        adt(F_CT, "struct", "CtLogID"),
        adt(F_CT, "struct", "CtExtensions"),
        adt(F_CT, "struct", "SignedCertificateTimestamp"),
        # only the pieces of derived's spec text that do not mention the key-exchange types
        {"file": "-", "kind": "inline", "name": "contracts", "text": _dv.SPEC_CORE + SPEC},
    ] + _dv_items + [
        # R18: `key_id.try_into()` named as the shim function slice_try_into_array (verus/shim_std.rs); take(32), the struct
        # literal and `.expect(..)` (vstd: requires the value to be Ok, i.e. the conversion can never panic) verbatim
        {"file": F_CT, "kind": "fn", "name": "parse_log_id", "contract": "    ensures log_id_post(i@, r),",
         "subst": [(r"key_id: (\w+)\s*\.try_into\(\)", r"key_id: slice_try_into_array(\1)")],
         "splices": [{"at_start": True, "text": "    let ghost i0 = i@;"},
                     {"after": r"let \((\w+), (\w+)\) = [^;]*;", "text": "    proof { assert({g2}@ =~= i0.subrange(0, 32)); assert({g1}@ =~= i0.subrange(32, i0.len() as int)); }"}]},     # rename-tolerant
        {"file": F_CT, "kind": "fn", "name": "parse_ct_extensions", "contract": "    ensures ct_ext_post(i@, r),",
         "splices": [{"at_start": True, "text": "    let ghost i0 = i@;\n    proof { reveal_with_fuel(be_val, 3); }"},
                     {"after": r"let \(i, ext_len\) = [^;]*;", "text": "    proof { assert(ext_len as int == be16s(i0, 0)); assert(i@ =~= i0.subrange(2, i0.len() as int)); }"},
                     {"after": r"let \(i, ext_data\) = [^;]*;", "text": "    proof { assert(ext_data@ =~= lp_data(i0, 0, 2)); assert(i@ =~= i0.subrange(lp_next(i0, 0, 2), i0.len() as int)); }"}]},
        {"file": F_CT, "kind": "fn", "name": "parse_ct_signed_certificate_timestamp_content", "rlimit": 100,
         "contract": "    ensures sct_content_post(i@, r),",
         "splices": [{"at_start": True, "text": "    let ghost i0 = i@;\n    proof { reveal_with_fuel(be_val, 9); }"},
                     {"after": r"let \(i, version\) = [^;]*;", "text": "    proof { assert(version == i0[0]); assert(i@ =~= i0.subrange(1, i0.len() as int)); }"},
                     {"after": r"let \(i, id\) = [^;]*;", "text": "    let ghost ia = i@;\n    proof { assert(id.key_id@ =~= i0.subrange(1, 33)); assert(ia =~= i0.subrange(33, i0.len() as int)); }"},
                     {"after": r"let \(i, timestamp\) = [^;]*;", "text": "    proof { assert(ia.len() >= 8); assert(ia[0] == i0[33] && ia[1] == i0[34] && ia[2] == i0[35] && ia[3] == i0[36] && ia[4] == i0[37] && ia[5] == i0[38] && ia[6] == i0[39] && ia[7] == i0[40]); assert(timestamp as int == be64s(i0, 33)); assert(i@ =~= i0.subrange(41, i0.len() as int)); lemma_lp_shift(i0, 41, 0, 2); }"},
                     {"after": r"let \(i, extensions\) = [^;]*;", "text": "    let ghost o: int = lp_next(i0, 41, 2);\n    proof { assert(lp_ok(i0, 41, 2)); assert(extensions.0@ =~= lp_data(i0, 41, 2)); assert(i@ =~= i0.subrange(o, i0.len() as int)); lemma_lp_shift(i0, o, 2, 2); }"},
                     {"after": r"let \(i, signature\) = [^;]*;", "text": "    proof { assert(i0.len() >= o + 2 && lp_ok(i0, o + 2, 2)); assert(signature.data@ =~= lp_data(i0, o + 2, 2)); assert(i@ =~= i0.subrange(lp_next(i0, o + 2, 2), i0.len() as int)); }"}]},
    ],
    "epilogue": ROUNDTRIP,
}
