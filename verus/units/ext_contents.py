# V-EXT-CONTENTS (properties C05, C11, C06, C01): extension content parsers whose bodies are closure-free up to a
# constructor passed to `map` (rule R10: eta-expanded into a closure with its trivial contract), extracted verbatim
# and proved for every input length and every ext_len.
import os, sys
sys.path.insert(0, os.path.dirname(os.path.abspath(__file__)))
import dispatch_ext as _de
from derived_common import newtype_items, INT_SHIMS, r17_chunks, PARITY_LOCAL

F_EXT = "src/tls_extensions.rs"
_types = [it for it in _de.UNIT["items"] if it["kind"] in ("struct", "enum", "newtype_enum")]

SPEC = r'''
pub open spec fn is_incomplete<T>(r: IResult<&[u8], T>) -> bool { r is Err && r->Err_0 is Incomplete }

// `take(ext_len)` under a fixed variant: shorter input => Incomplete(missing); else exactly ext_len bytes verbatim
pub open spec fn opaque_post(i: Seq<u8>, ext_len: u16, r: IResult<&[u8], TlsExtension>, data_of: spec_fn(TlsExtension) -> Option<Seq<u8>>) -> bool {
    let l = ext_len as int;
    if i.len() < l { r == Err::<(&[u8], TlsExtension), Err<Error<&[u8]>>>(Err::Incomplete(Needed::Size((l - i.len()) as usize))) }
    else { match r { Ok((rem, e)) => data_of(e) == Some(i.subrange(0, l)) && rem@ =~= i.subrange(l, i.len() as int), Err(_) => false } }
}
// extensions defined as empty
pub open spec fn empty_post(i: Seq<u8>, ext_len: u16, r: IResult<&[u8], TlsExtension>, is_it: spec_fn(TlsExtension) -> bool) -> bool {
    if ext_len != 0 { r is Err && r->Err_0 is Error && r->Err_0->Error_0.code == ErrorKind::Verify }
    else { match r { Ok((rem, e)) => is_it(e) && rem@ =~= i, Err(_) => false } }
}

pub open spec fn be16s(s: Seq<u8>, o: int) -> int { (s[o] as int) * 256 + (s[o + 1] as int) }
pub open spec fn ext_present(i: Seq<u8>, o: int) -> bool { i.len() >= o + 2 && i.len() >= o + 2 + be16s(i, o) }
// early_data (RFC 8446 4.2.10): empty, or max_early_data_size u32
pub open spec fn early_data_post(i: Seq<u8>, ext_len: u16, r: IResult<&[u8], TlsExtension>) -> bool {
    if ext_len == 0 { match r { Ok((rem, TlsExtension::EarlyData(None))) => rem@ =~= i, _ => false } }
    else if i.len() < 4 { is_incomplete(r) }
    else { match r { Ok((rem, TlsExtension::EarlyData(Some(v)))) => v as int == be_val(i, 4) && rem@ =~= i.subrange(4, i.len() as int), _ => false } }
}
// signed_certificate_timestamp content (RFC 6962 3.3.1): an optional u16-prefixed list; absent (or not fitting) => None, nothing consumed
pub open spec fn sct_ext_post(i: Seq<u8>, r: IResult<&[u8], TlsExtension>) -> bool {
    match r {
        Ok((rem, TlsExtension::SignedCertificateTimestamp(d))) =>
            if ext_present(i, 0) { d is Some && d->Some_0@ =~= i.subrange(2, 2 + be16s(i, 0)) && rem@ =~= i.subrange(2 + be16s(i, 0), i.len() as int) }
            else { d is None && rem@ =~= i },
        _ => false,
    }
}
// <[T]>::to_vec: a Vec of the clones of the elements, in order (ASSUMED: specification of the std function)
pub assume_specification<T: Clone>[ <[T]>::to_vec ](s: &[T]) -> (r: Vec<T>)
    ensures r@.len() == s@.len(), forall|k: int| 0 <= k < s@.len() ==> call_ensures(T::clone, (&s@[k],), #[trigger] r@[k]);
// psk_key_exchange_modes (RFC 8446 4.2.9): ke_modes<1..255>, u8-prefixed; copied out byte for byte
pub open spec fn psk_modes_post(i: Seq<u8>, r: IResult<&[u8], TlsExtension>) -> bool {
    if i.len() < 1 || i.len() < 1 + i[0] as int { is_incomplete(r) }
    else { match r { Ok((rem, TlsExtension::PskExchangeModes(v))) => v@ =~= i.subrange(1, 1 + i[0] as int) && rem@ =~= i.subrange(1 + i[0] as int, i.len() as int), _ => false } }
}
// version list helper (iterator adapters, outside Verus's reach): ASSUMED with exactly the contract Kani leaf_tls_versions
// checks on the compiled code: the whole input is the list; odd length rejected
pub open spec fn versions_post(i: Seq<u8>, r: IResult<&[u8], Vec<TlsVersion>>) -> bool {
    if i.len() % 2 == 1 { r is Err && r->Err_0 is Error }
    else { match r { Ok((rem, v)) => rem@.len() == 0 && v@.len() == i.len() / 2 && (forall|k: int| 0 <= k < i.len() / 2 ==> (#[trigger] v@[k]).0 as int == be16s(i, 2 * k)), Err(_) => false } }
}
// supported_versions (RFC 8446 4.2.1): ServerHello form = one version (ext_len == 2); ClientHello form = a length byte
// (read and ignored) followed by the version list on exactly the remaining ext_len - 1 bytes; ext_len == 0 rejected
pub open spec fn supported_versions_post(i: Seq<u8>, ext_len: u16, r: IResult<&[u8], TlsExtension>) -> bool {
    if ext_len == 2 {
        if i.len() < 2 { is_incomplete(r) }
        else { match r { Ok((rem, TlsExtension::SupportedVersions(v))) => v@.len() == 1 && v@[0].0 as int == be16s(i, 0) && rem@ =~= i.subrange(2, i.len() as int), _ => false } }
    } else if i.len() < 1 { is_incomplete(r) }
    else if ext_len == 0 { r is Err && r->Err_0 is Error && r->Err_0->Error_0.code == ErrorKind::Verify }
    else { let n = ext_len as int - 1;
        if i.len() < 1 + n { is_incomplete(r) }
        else { exists|inner: IResult<&[u8], Vec<TlsVersion>>| #[trigger] versions_post(i.subrange(1, 1 + n), inner) && match inner {
            Ok((_, l)) => (match r { Ok((rem, TlsExtension::SupportedVersions(v))) => v == l && rem@ =~= i.subrange(1 + n, i.len() as int), _ => false }),
            Err(e) => r == Err::<(&[u8], TlsExtension), Err<Error<&[u8]>>>(e),
        } } }
}
// named-group list helper (iterator adapters): ASSUMED with exactly the contract Kani leaf_named_groups checks
pub open spec fn groups_post(i: Seq<u8>, r: IResult<&[u8], Vec<NamedGroup>>) -> bool {
    if i.len() % 2 == 1 { r is Err && r->Err_0 is Error }
    else { match r { Ok((rem, v)) => rem@.len() == 0 && v@.len() == i.len() / 2 && (forall|k: int| 0 <= k < i.len() / 2 ==> (#[trigger] v@[k]).0 as int == be16s(i, 2 * k)), Err(_) => false } }
}
// supported_groups / elliptic_curves (RFC 8422 5.1.1): u16 list length, the group list on exactly that window
pub open spec fn curves_post(i: Seq<u8>, r: IResult<&[u8], TlsExtension>) -> bool {
    if i.len() < 2 || i.len() < 2 + be16s(i, 0) { is_incomplete(r) }
    else { let l = be16s(i, 0);
        exists|inner: IResult<&[u8], Vec<NamedGroup>>| #[trigger] groups_post(i.subrange(2, 2 + l), inner) && match inner {
            Ok((_, g)) => (match r { Ok((rem, TlsExtension::EllipticCurves(v))) => v == g && rem@ =~= i.subrange(2 + l, i.len() as int), _ => false }),
            Err(e) => r == Err::<(&[u8], TlsExtension), Err<Error<&[u8]>>>(e),
        } }
}
// encrypted_server_name (draft-ietf-tls-esni): cipher suite u16, named group u16, key_share<u16>, record_digest<u16>, encrypted_sni<u16>
pub open spec fn fld16_ok(i: Seq<u8>, o: int) -> bool { 0 <= o && i.len() >= o + 2 && i.len() >= o + 2 + be16s(i, o) }
pub open spec fn fld16_next(i: Seq<u8>, o: int) -> int { o + 2 + be16s(i, o) }
pub open spec fn esni_post(i: Seq<u8>, r: IResult<&[u8], TlsExtension>) -> bool {
    let o1 = fld16_next(i, 4); let o2 = fld16_next(i, o1); let o3 = fld16_next(i, o2);
    if i.len() < 4 || !fld16_ok(i, 4) || !fld16_ok(i, o1) || !fld16_ok(i, o2) { is_incomplete(r) }
    else { match r {
        Ok((rem, TlsExtension::EncryptedServerName { ciphersuite, group, key_share, record_digest, encrypted_sni })) =>
            ciphersuite.0 as int == be16s(i, 0) && group.0 as int == be16s(i, 2) && key_share@ =~= i.subrange(6, o1)
            && record_digest@ =~= i.subrange(o1 + 2, o2) && encrypted_sni@ =~= i.subrange(o2 + 2, o3) && rem@ =~= i.subrange(o3, i.len() as int),
        _ => false } }
}
'''

def opaque(fn, variant):
    return {"file": F_EXT, "kind": "fn", "name": fn,
            "subst": [(r"map\(take\(ext_len\), TlsExtension::%s\)\(i\)" % variant,
                       "map(take(ext_len), |d: &'a [u8]| -> (e: TlsExtension<'a>) ensures e == TlsExtension::%s(d) { TlsExtension::%s(d) })(i)" % (variant, variant)),
                      (r"fn %s\(\s*i: &\[u8\],\s*ext_len: u16,?\s*\) -> IResult<&\[u8\], TlsExtension>" % fn, "fn %s<'a>(i: &'a [u8], ext_len: u16) -> IResult<&'a [u8], TlsExtension<'a>>" % fn)],
            "contract": "    ensures opaque_post(i@, ext_len, r, |e: TlsExtension| match e { TlsExtension::%s(d) => Some(d@), _ => None::<Seq<u8>> })," % variant}

def single(fn, inner, w, variant, ty):
    """map(be_uN, TlsExtension::V)(i): one big-endian integer under a fixed variant"""
    return {"file": F_EXT, "kind": "fn", "name": fn,
            "subst": [(r"map\(%s, TlsExtension::%s\)\(i\)" % (inner, variant),
                       "map(%s, |x: %s| -> (e: TlsExtension<'a>) ensures e == TlsExtension::%s(x) { TlsExtension::%s(x) })(i)" % (inner, ty, variant, variant)),
                      (r"fn %s\(i: &\[u8\]\) -> IResult<&\[u8\], TlsExtension>" % fn, "fn %s<'a>(i: &'a [u8]) -> IResult<&'a [u8], TlsExtension<'a>>" % fn)],
            "splices": [{"at_start": True, "text": "    proof { reveal_with_fuel(be_val, 3); }"}],
            "contract": """    ensures
        i@.len() < %d ==> is_incomplete(r),
        i@.len() >= %d ==> (match r { Ok((rem, TlsExtension::%s(v))) => v as int == be_val(i@, %d) && rem@ =~= i@.subrange(%d, i@.len() as int), _ => false }),""" % (w, w, variant, w, w)}

def u8_prefixed(fn, variant):
    """map(length_data(be_u8), TlsExtension::V)(i)"""
    return {"file": F_EXT, "kind": "fn", "name": fn,
            "subst": [(r"map\(length_data\(be_u8\), TlsExtension::%s\)\(i\)" % variant,
                       "map(length_data(be_u8), |d: &'a [u8]| -> (e: TlsExtension<'a>) ensures e == TlsExtension::%s(d) { TlsExtension::%s(d) })(i)" % (variant, variant)),
                      (r"fn %s\(i: &\[u8\]\) -> IResult<&\[u8\], TlsExtension>" % fn, "fn %s<'a>(i: &'a [u8]) -> IResult<&'a [u8], TlsExtension<'a>>" % fn)],
            "splices": [{"at_start": True, "text": "    proof { reveal_with_fuel(be_val, 2); }"}],
            "contract": """    ensures
        (i@.len() < 1 || i@.len() < 1 + i@[0] as int) ==> is_incomplete(r),
        i@.len() >= 1 && i@.len() >= 1 + i@[0] as int ==> (match r { Ok((rem, TlsExtension::%s(d))) => d@ =~= i@.subrange(1, 1 + i@[0] as int) && rem@ =~= i@.subrange(1 + i@[0] as int, i@.len() as int), _ => false }),""" % variant}

def empty(fn, variant):
    return {"file": F_EXT, "kind": "fn", "name": fn,
            "contract": "    ensures empty_post(i@, ext_len, r, |e: TlsExtension| e is %s)," % variant}

UNIT = {
    "name": "ext_contents",
    "needs_expanded": True,
    "property": ["C05", "C11", "C06", "C01"],
    "prelude": ["shim_nom.rs", "shim_std.rs"],
    "items": _types + [
        {"file": "-", "kind": "inline", "name": "content-contracts", "text": SPEC},
        opaque("parse_tls_extension_padding_content", "Padding"),
        opaque("parse_tls_extension_session_ticket_content", "SessionTicket"),
        opaque("parse_tls_extension_key_share_old_content", "KeyShareOld"),
        opaque("parse_tls_extension_key_share_content", "KeyShare"),
        opaque("parse_tls_extension_pre_shared_key_content", "PreSharedKey"),
        opaque("parse_tls_extension_cookie_content", "Cookie"),
        single("parse_tls_extension_max_fragment_length_content", "be_u8", 1, "MaxFragmentLength", "u8"),
        single("parse_tls_extension_heartbeat_content", "be_u8", 1, "Heartbeat", "u8"),
        single("parse_tls_extension_record_size_limit", "be_u16", 2, "RecordSizeLimit", "u16"),
        u8_prefixed("parse_tls_extension_ec_point_formats_content", "EcPointFormats"),
        u8_prefixed("parse_tls_extension_renegotiation_info_content", "RenegotiationInfo"),
        {"file": F_EXT, "kind": "fn", "name": "parse_tls_extension_early_data_content",
         "subst": [(r"map\(cond\(ext_len > 0, be_u32\), TlsExtension::EarlyData\)\(i\)", "map(cond(ext_len > 0, be_u32), |x: Option<u32>| -> (e: TlsExtension<'a>) ensures e == TlsExtension::EarlyData(x) { TlsExtension::EarlyData(x) })(i)"),
                   (r"fn parse_tls_extension_early_data_content\(i: &\[u8\], ext_len: u16\) -> IResult<&\[u8\], TlsExtension>", "fn parse_tls_extension_early_data_content<'a>(i: &'a [u8], ext_len: u16) -> IResult<&'a [u8], TlsExtension<'a>>")],
         "splices": [{"at_start": True, "text": "    proof { reveal_with_fuel(be_val, 5); axiom_be_fun(); assert(be_post(4, i@, fun_of(be_u32)(i), |v: u32| v as int)); }"}],
         "contract": "    ensures early_data_post(i@, ext_len, r),"},
        {"file": F_EXT, "kind": "fn", "name": "parse_tls_extension_signed_certificate_timestamp_content",
         "subst": [(r"TlsExtension::SignedCertificateTimestamp,\n", "|x: Option<&'a [u8]>| -> (e: TlsExtension<'a>) ensures e == TlsExtension::SignedCertificateTimestamp(x) { TlsExtension::SignedCertificateTimestamp(x) },\n"),
                   (r"fn parse_tls_extension_signed_certificate_timestamp_content\(\s*i: &\[u8\],?\s*\) -> IResult<&\[u8\], TlsExtension>", "fn parse_tls_extension_signed_certificate_timestamp_content<'a>(i: &'a [u8]) -> IResult<&'a [u8], TlsExtension<'a>>")],
         "splices": [{"at_start": True, "text": "    proof { reveal_with_fuel(be_val, 3); axiom_be_fun(); assert(be_post(2, i@, fun_of(be_u16)(i), |v: u16| v as int)); }"}],
         "contract": "    ensures sct_ext_post(i@, r),"},
        {"file": "-", "kind": "inline", "name": "int-shims", "text": INT_SHIMS},
    ] + newtype_items("NamedGroup", 2) + [
        {"file": F_EXT, "kind": "fn", "name": "parse_tls_extension_encrypted_server_name", "rlimit": 60,
         "subst": [(r"map\(be_u16, TlsCipherSuiteID\)\(i\)\?", "map(be_u16, |x: u16| -> (y: TlsCipherSuiteID) ensures y == TlsCipherSuiteID(x) { TlsCipherSuiteID(x) })(i)?")],
         "splices": [{"at_start": True, "text": "    let ghost i0 = i@;\n    proof { reveal_with_fuel(be_val, 3); }"},
                     {"after": r"let \(i, ciphersuite\) = [^;]*;", "text": "    proof { assert(ciphersuite.0 as int == be16s(i0, 0)); assert(i@ =~= i0.subrange(2, i0.len() as int)); }"},
                     {"after": r"let \(i, group\) = [^;]*;", "text": "    proof { assert(group.0 as int == be16s(i0, 2)); assert(i@ =~= i0.subrange(4, i0.len() as int)); }"},
                     {"after": r"let \(i, key_share\) = [^;]*;", "text": "    let ghost o1: int = fld16_next(i0, 4);\n    proof { assert(fld16_ok(i0, 4)); assert(key_share@ =~= i0.subrange(6, o1)); assert(i@ =~= i0.subrange(o1, i0.len() as int)); }"},
                     {"after": r"let \(i, record_digest\) = [^;]*;", "text": "    let ghost o2: int = fld16_next(i0, o1);\n    proof { assert(fld16_ok(i0, o1)); assert(record_digest@ =~= i0.subrange(o1 + 2, o2)); assert(i@ =~= i0.subrange(o2, i0.len() as int)); }"},
                     {"after": r"let \(i, encrypted_sni\) = [^;]*;", "text": "    let ghost o3: int = fld16_next(i0, o2);\n    proof { assert(fld16_ok(i0, o2)); assert(encrypted_sni@ =~= i0.subrange(o2 + 2, o3)); assert(i@ =~= i0.subrange(o3, i0.len() as int)); }"}],
         "contract": "    ensures esni_post(i@, r),"},
        {"file": F_EXT, "kind": "fn", "name": "parse_tls_extension_psk_key_exchange_modes_content", "contract": "    ensures psk_modes_post(i@, r),",
         "splices": [{"at_start": True, "text": "    let ghost i0 = i@;\n    proof { reveal_with_fuel(be_val, 2); }"},
                     {"after": r"let \(i, v\) = [^;]*;", "text": "    let ghost vv = v@;\n    proof { assert(vv =~= i0.subrange(1, 1 + i0[0] as int)); assert(i@ =~= i0.subrange(1 + i0[0] as int, i0.len() as int)); }"}],
         # R11 on the returned expression: the copied vector bound to a local so that the hint can name it
         "subst": [(r"Ok\(\(i, TlsExtension::PskExchangeModes\(v\.to_vec\(\)\)\)\)", "let vec_copy = v.to_vec();\n    proof { assert forall|k: int| 0 <= k < vv.len() implies vec_copy@[k] == vv[k] by { assert(call_ensures(u8::clone, (&v@[k],), vec_copy@[k])); } assert(vec_copy@ =~= vv); }\n    Ok((i, TlsExtension::PskExchangeModes(vec_copy)))")]},
        {"file": "src/tls_handshake.rs", "kind": "fn", "name": "parse_tls_versions", "splices": PARITY_LOCAL, "contract": "    ensures versions_post(i@, r),",
         "subst": [(r"pub\(crate\) fn parse_tls_versions", "pub fn parse_tls_versions"), r17_chunks("TlsVersion")]},   # R17
        {"file": F_EXT, "kind": "fn", "name": "parse_tls_extension_supported_versions_content", "contract": "    ensures supported_versions_post(i@, ext_len, r),",
         "subst": [(r"fn parse_tls_extension_supported_versions_content\(\s*i: &\[u8\],\s*ext_len: u16,\s*\) -> IResult<&\[u8\], TlsExtension>", "fn parse_tls_extension_supported_versions_content<'a>(i: &'a [u8], ext_len: u16) -> IResult<&'a [u8], TlsExtension<'a>>"),
                   # R9: closure signature explicit, with its contract
                   # R11: the operand of `?` bound to a local first
                   (r"let \(i, l\) = map_parser\(take\(ext_len - 1\), parse_tls_versions\)\(i\)\?;", """let ghost i2 = i;
        let res = map_parser(take(ext_len - 1), parse_tls_versions)(i);
        proof {
            let n = ext_len as int - 1;
            let r1 = choose|r1: IResult<&[u8], &[u8]>| #[trigger] take_post(n, i2@, r1) && match r1 {
                Ok((rem, o1)) => exists|r2: IResult<&[u8], Vec<TlsVersion>>| #[trigger] versions_post(o1@, r2) && res == (match r2 { Ok((_, o2)) => Ok::<(&[u8], Vec<TlsVersion>), Err<Error<&[u8]>>>((rem, o2)), Err(e) => Err(e) }),
                Err(e) => res == Err::<(&[u8], Vec<TlsVersion>), Err<Error<&[u8]>>>(e) };
            if r1 is Ok {
                let rem = r1->Ok_0.0; let o1 = r1->Ok_0.1;
                assert(o1@ =~= i0.subrange(1, 1 + n));
                assert(rem@ =~= i0.subrange(1 + n, i0.len() as int));
                let r2 = choose|r2: IResult<&[u8], Vec<TlsVersion>>| #[trigger] versions_post(o1@, r2) && res == (match r2 { Ok((_, o2)) => Ok::<(&[u8], Vec<TlsVersion>), Err<Error<&[u8]>>>((rem, o2)), Err(e) => Err(e) });
                assert(versions_post(i0.subrange(1, 1 + n), r2));
            }
        }
        let (i, l) = res?;"""),
                   (r"\|x\| \{\s*TlsExtension::SupportedVersions\(vec!\[TlsVersion\(x\)\]\)\s*\}", "|x: u16| -> (e: TlsExtension<'a>) ensures e is SupportedVersions && e->SupportedVersions_0@ =~= seq![TlsVersion(x)] { TlsExtension::SupportedVersions(vec![TlsVersion(x)]) }")],
         "splices": [{"at_start": True, "text": "    let ghost i0 = i@;\n    proof { reveal_with_fuel(be_val, 3); }"},
                     {"after": r"let \(i, _\) = be_u8\(i\)\?;", "text": "    proof { assert(i@ =~= i0.subrange(1, i0.len() as int)); }"},
                     {"after": r"let \(i, l\) = [^;]*;", "text": "    proof { let n = ext_len as int - 1; assert(i@ =~= i0.subrange(1 + n, i0.len() as int)); }"}]},
        {"file": "src/tls_ec.rs", "kind": "fn", "name": "parse_named_groups", "splices": PARITY_LOCAL, "subst": [r17_chunks("NamedGroup")], "contract": "    ensures groups_post(i@, r),"},   # R17
        {"file": F_EXT, "kind": "fn", "name": "parse_tls_extension_elliptic_curves_content", "contract": "    ensures curves_post(i@, r),",
         "subst": [(r"fn parse_tls_extension_elliptic_curves_content\(i: &\[u8\]\) -> IResult<&\[u8\], TlsExtension>", "fn parse_tls_extension_elliptic_curves_content<'a>(i: &'a [u8]) -> IResult<&'a [u8], TlsExtension<'a>>"),
                   # R10: constructor eta-expanded; R11: the returned expression bound to a local first
                   (r"map\(parse_named_groups, TlsExtension::EllipticCurves\)", "map(parse_named_groups, |x: Vec<NamedGroup>| -> (e: TlsExtension<'a>) ensures e == TlsExtension::EllipticCurves(x) { TlsExtension::EllipticCurves(x) })"),
                   (r"\n    map_parser\(", "\n    let ghost i2 = i;\n    let res = map_parser("),
                   (r"\)\(i\)\n\}\s*$", """)(i);
    proof {
        reveal_with_fuel(be_val, 3);
        let (r0, r1) = choose|r0: IResult<&[u8], u16>, r1: IResult<&[u8], &[u8]>| be_post(2, i2@, r0, |v: u16| v as int) && #[trigger] length_data_post(r0, r1) && match r1 {
            Ok((rem, o1)) => exists|r2: IResult<&[u8], Vec<NamedGroup>>| #[trigger] groups_post(o1@, r2) && res == (match r2 { Ok((_, g)) => Ok::<(&[u8], TlsExtension), Err<Error<&[u8]>>>((rem, TlsExtension::EllipticCurves(g))), Err(e) => Err(e) }),
            Err(e) => res == Err::<(&[u8], TlsExtension), Err<Error<&[u8]>>>(e) };
        if r1 is Ok {
            let rem = r1->Ok_0.0; let o1 = r1->Ok_0.1; let l = be16s(i2@, 0);
            assert(r0 is Ok && r0->Ok_0.1 as int == l);
            assert(o1@ =~= i2@.subrange(2, 2 + l));
            assert(rem@ =~= i2@.subrange(2 + l, i2@.len() as int));
            let r2 = choose|r2: IResult<&[u8], Vec<NamedGroup>>| #[trigger] groups_post(o1@, r2) && res == (match r2 { Ok((_, g)) => Ok::<(&[u8], TlsExtension), Err<Error<&[u8]>>>((rem, TlsExtension::EllipticCurves(g))), Err(e) => Err(e) });
            assert(groups_post(i2@.subrange(2, 2 + l), r2));
        }
    }
    res
}""")]},
        empty("parse_tls_extension_encrypt_then_mac_content", "EncryptThenMac"),
        empty("parse_tls_extension_extended_master_secret_content", "ExtendedMasterSecret"),
        empty("parse_tls_extension_post_handshake_auth_content", "PostHandshakeAuth"),
        empty("parse_tls_extension_npn_content", "NextProtocolNegotiation"),
    ],
    "epilogue": "",
}
