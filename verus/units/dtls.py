# V-DTLS (properties C10, C16, C06): DTLS handshake dispatcher, record-payload container, record glue and
# the datagram parser, extracted from src/dtls.rs; body parsers and the 13-byte header parser abstract.
import os, sys
sys.path.insert(0, os.path.dirname(os.path.abspath(__file__)))
from derived_common import newtype_items, INT_SHIMS
from states import UNIT as _ST, adt, F_HS, F_MSG, F_AL, F_EC

F_REC = "src/tls_record.rs"
F_DTLS = "src/dtls.rs"
_types = [it for it in _ST["items"] if it["kind"] in ("struct", "enum", "newtype_enum") and it["file"] in (F_HS, F_MSG, F_AL, F_EC)]

def absbody(fn, spec, has_len=False, variant=None):
    args = "i: Seq<u8>, len: usize" if has_len else "i: Seq<u8>"
    call = "i@, len" if has_len else "i@"
    return [
        {"file": "-", "kind": "inline", "name": spec, "text": "pub uninterp spec fn %s(%s) -> IResult<&'static [u8], DTLSMessageHandshakeBody<'static>>;" % (spec, args)},
        {"file": F_DTLS, "kind": "fn", "name": fn, "external_body": True, "contract": "    ensures r == %s(%s)," % (spec, call)},
    ]

SPEC = r'''
// ------------------------------------------------------------------ DTLS handshake message contract (RFC 6347 4.2.2 + the property)
pub open spec fn be24s(s: Seq<u8>, o: int) -> int { (s[o] as int) * 65536 + (s[o + 1] as int) * 256 + (s[o + 2] as int) }
pub open spec fn be16s(s: Seq<u8>, o: int) -> int { (s[o] as int) * 256 + (s[o + 1] as int) }

pub open spec fn dtls_body_table(t: u8, body: Seq<u8>, length: int) -> Option<IResult<&'static [u8], DTLSMessageHandshakeBody<'static>>> {
    if t == 1 { Some(spec_dtls_client_hello(body)) }
    else if t == 3 { Some(spec_dtls_hvr(body)) }
    else if t == 2 { Some(spec_dtls_server_hello(body)) }
    else if t == 14 { Some(spec_dtls_serverdone(body, length as usize)) }
    else if t == 16 { Some(spec_dtls_cke(body, length as usize)) }
    else if t == 11 { Some(spec_dtls_certificate(body)) }
    else { None }
}

pub open spec fn dtls_hs_post(i: Seq<u8>, r: IResult<&[u8], DTLSMessage>) -> bool {
    if i.len() < 12 { r is Err && r->Err_0 is Incomplete }
    else {
        let t = i[0];
        let length = be24s(i, 1);
        let seq = be16s(i, 4);
        let off = be24s(i, 6);
        let flen = be24s(i, 9);
        if i.len() < 12 + flen {
            r == Err::<(&[u8], DTLSMessage), Err<Error<&[u8]>>>(Err::Incomplete(Needed::Size((12 + flen - i.len()) as usize)))
        } else {
            let raw = i.subrange(12, 12 + flen);
            let rem = i.subrange(12 + flen, i.len() as int);
            let hdr_ok = |m: DTLSMessageHandshake| m.msg_type.0 == t && m.length as int == length && m.message_seq as int == seq
                         && m.fragment_offset as int == off && m.fragment_length as int == flen;
            if off > 0 || flen < length {
                // a fragment: returned opaque, exactly fragment_length bytes, all five header fields verbatim
                match r { Ok((rm, DTLSMessage::Handshake(m))) => hdr_ok(m) && rm@ =~= rem && m.body is Fragment && m.body->Fragment_0@ =~= raw, _ => false }
            } else { match dtls_body_table(t, raw, length) {
                Some(c) => (match c {
                    Ok((_, b)) => (match r { Ok((rm, DTLSMessage::Handshake(m))) => hdr_ok(m) && rm@ =~= rem && m.body == b, _ => false }),
                    Err(e) => r == Err::<(&[u8], DTLSMessage), Err<Error<&[u8]>>>(e),
                }),
                None => r is Err && r->Err_0 is Error && r->Err_0->Error_0.code == ErrorKind::Switch,
            } }
        }
    }
}

// ------------------------------------------------------------------ DTLS record (RFC 6347 4.1 + the property)
pub open spec fn record_cap() -> int { 16640int }
pub open spec fn seq48(i: Seq<u8>) -> int {
    (i[5] as int) * 0x100_0000_0000 + (i[6] as int) * 0x1_0000_0000 + (i[7] as int) * 0x100_0000 + (i[8] as int) * 0x1_0000 + (i[9] as int) * 0x100 + (i[10] as int)
}
pub open spec fn dtls_hdr_of(i: Seq<u8>) -> DTLSRecordHeader {
    DTLSRecordHeader { content_type: TlsRecordType(i[0]), version: TlsVersion(be16s(i, 1) as u16), epoch: be16s(i, 3) as u16,
                       sequence_number: seq48(i) as u64, length: be16s(i, 11) as u16 }
}
// 13-byte header parser: ASSUMED here; OBLIGATION of Kani harness fd_dtls_header (full domain)
pub open spec fn dtls_header_post(i: Seq<u8>, r: IResult<&[u8], DTLSRecordHeader>) -> bool {
    if i.len() < 13 { r is Err && r->Err_0 is Incomplete }
    else { match r { Ok((rem, h)) => h == dtls_hdr_of(i) && rem@ =~= i.subrange(13, i.len() as int), Err(_) => false } }
}
// record-payload parser: abstract here (its contract is proved in unit dtls_many)
pub uninterp spec fn spec_dtls_prwh(i: Seq<u8>, hdr: DTLSRecordHeader) -> IResult<&'static [u8], Vec<DTLSMessage<'static>>>;
// ASSUMED here; follows from dtls_prwh_post (unit dtls_many) exactly as lemma_record_never_incomplete does for TLS in unit many
#[verifier::external_body]
pub proof fn axiom_dtls_prwh_never_incomplete(i: Seq<u8>, hdr: DTLSRecordHeader)
    ensures !(spec_dtls_prwh(i, hdr) is Err && spec_dtls_prwh(i, hdr)->Err_0 is Incomplete) {}

pub open spec fn dtls_record_post(i: Seq<u8>, r: IResult<&[u8], DTLSPlaintext>) -> bool {
    if i.len() < 13 { r is Err && r->Err_0 is Incomplete }
    else {
        let l = be16s(i, 11);
        if l > record_cap() { r is Err && r->Err_0 is Error && r->Err_0->Error_0.code == ErrorKind::TooLarge }
        else if i.len() < 13 + l { r == Err::<(&[u8], DTLSPlaintext), Err<Error<&[u8]>>>(Err::Incomplete(Needed::Size((13 + l - i.len()) as usize))) }
        else {
            let hdr = dtls_hdr_of(i);
            match spec_dtls_prwh(i.subrange(13, 13 + l), hdr) {
                Ok((_, msgs)) => (match r { Ok((rem, rec)) => rem@ =~= i.subrange(13 + l, i.len() as int) && rec.header == hdr && rec.messages == msgs, Err(_) => false }),
                Err(e) => r is Err && !(r->Err_0 is Incomplete) && (r->Err_0 is Error <==> e is Error) && (r->Err_0 is Failure <==> e is Failure),
            }
        }
    }
}
'''

UNIT = {
    "name": "dtls",
    "needs_expanded": True,
    "property": ["C10", "C16", "C06"],
    "prelude": ["shim_nom.rs"],
    "items": _types + [
        adt(F_HS, "struct", "TlsHandshakeType"), adt(F_HS, "newtype_enum", "TlsHandshakeType"),
        adt(F_REC, "struct", "TlsRecordType"), adt(F_REC, "newtype_enum", "TlsRecordType"),
        adt(F_DTLS, "struct", "DTLSRecordHeader"),
        adt(F_DTLS, "struct", "DTLSClientHello"),
        adt(F_DTLS, "struct", "DTLSHelloVerifyRequest"),
        adt(F_DTLS, "enum", "DTLSMessageHandshakeBody"),
        adt(F_DTLS, "struct", "DTLSMessageHandshake"),
        adt(F_DTLS, "enum", "DTLSMessage"),
        adt(F_DTLS, "struct", "DTLSPlaintext"),
        {"file": F_REC, "kind": "const", "name": "MAX_RECORD_LEN", "ensures": "MAX_RECORD_LEN == 16640",
         "proof": "assert((1u16 << 14) == 16384u16) by (bit_vector);"},
    ]
    + absbody("parse_dtls_client_hello", "spec_dtls_client_hello")
    + absbody("parse_dtls_hello_verify_request", "spec_dtls_hvr")
    + absbody("parse_dtls_handshake_msg_server_hello_tlsv12", "spec_dtls_server_hello")
    + absbody("parse_dtls_handshake_msg_serverdone", "spec_dtls_serverdone", True)
    + absbody("parse_dtls_handshake_msg_clientkeyexchange", "spec_dtls_cke", True)
    + absbody("parse_dtls_handshake_msg_certificate", "spec_dtls_certificate")
    + [
        {"file": "-", "kind": "inline", "name": "dtls-contract", "text": SPEC},
        {"file": F_DTLS, "kind": "fn", "name": "parse_dtls_fragment", "contract": """
    ensures r is Ok, r->Ok_0.0@.len() == 0, r->Ok_0.1 is Fragment, r->Ok_0.1->Fragment_0@ =~= i@,
"""},
        {"file": F_DTLS, "kind": "fn", "name": "parse_dtls_message_handshake",
         "subst": [
             # R10: a constructor passed as a function value is eta-expanded into a closure with its (trivial) contract
             (r"map\(be_u8, TlsHandshakeType\)\(i\)\?", "map(be_u8, |x: u8| -> (y: TlsHandshakeType) ensures y == TlsHandshakeType(x) { TlsHandshakeType(x) })(i)?"),
         ],
         "splices": [
             {"at_start": True, "text": "    let ghost i0 = i@;\n    proof { reveal_with_fuel(be_val, 4); }"},
             {"after": r"let \(i, msg_type\) = map\(be_u8", "text": "    let ghost i1 = i@;\n    proof { assert(i0.len() >= 1); assert(i1 =~= i0.subrange(1, i0.len() as int)); assert(msg_type.0 == i0[0]); }"},
             {"after": r"let \(i, length\) = be_u24\(i\)\?;", "text": "    let ghost i2 = i@;\n    proof { assert(i1.len() >= 3); assert(i2 =~= i0.subrange(4, i0.len() as int)); assert(length as int == be24s(i0, 1)); }"},
             {"after": r"let \(i, message_seq\) = be_u16\(i\)\?;", "text": "    let ghost i3 = i@;\n    proof { assert(i2.len() >= 2); assert(i3 =~= i0.subrange(6, i0.len() as int)); assert(message_seq as int == be16s(i0, 4)); }"},
             {"after": r"let \(i, fragment_offset\) = be_u24\(i\)\?;", "text": "    let ghost i4 = i@;\n    proof { assert(i3.len() >= 3); assert(i4 =~= i0.subrange(9, i0.len() as int)); assert(fragment_offset as int == be24s(i0, 6)); }"},
             {"after": r"let \(i, fragment_length\) = be_u24\(i\)\?;", "text": "    let ghost i5 = i@;\n    proof { assert(i4.len() >= 3); assert(i5 =~= i0.subrange(12, i0.len() as int)); assert(fragment_length as int == be24s(i0, 9)); }"},
             {"after": r"let \(i, raw_msg\) = take\(fragment_length\)\(i\)\?;", "text": "    proof { assert(raw_msg@ =~= i0.subrange(12, 12 + fragment_length as int)); assert(i@ =~= i0.subrange(12 + fragment_length as int, i0.len() as int)); }"},
         ],
         "contract": """
    ensures dtls_hs_post(i@, r),
"""},
        {"file": "-", "kind": "inline", "name": "dtls-header-proof", "text": INT_SHIMS + r'''
#[verifier::external_body]
pub fn be_u64<'a>(i: &'a [u8]) -> (r: IResult<&'a [u8], u64>)      // ASSUMED; OBLIGATION of Kani shim_be64
    ensures be_post(8, i@, r, |v: u64| v as int),
{ unimplemented!() }
// the 64-bit word read after type and version: epoch in the top 16 bits, sequence number in the low 48
pub proof fn lemma_epoch_seq_split(hi: u64, lo: u64)
    requires hi < 0x1_0000, lo < 0x1_0000_0000_0000,
    ensures ({ let w = (hi * 0x1_0000_0000_0000 + lo) as u64; (w >> 48) == hi && (w & 0xffff_ffff_ffff) == lo }),
{
    assert(hi < 0x1_0000 && lo < 0x1_0000_0000_0000 ==> (((hi * 0x1_0000_0000_0000 + lo) as u64) >> 48) == hi && (((hi * 0x1_0000_0000_0000 + lo) as u64) & 0xffff_ffff_ffff) == lo) by (bit_vector);
}
'''},
    ] + newtype_items("TlsRecordType", 1) + newtype_items("TlsVersion", 2) + [
        {"file": F_DTLS, "kind": "fn", "name": "parse_dtls_record_header", "contract": """
    ensures dtls_header_post(i@, r),
""", "splices": [
            {"at_start": True, "text": "    let ghost i0 = i@;\n    proof { reveal_with_fuel(be_val, 9); }"},
            {"after": r"let \(i, content_type\) = [^;]*;", "text": "    proof { assert(content_type.0 == i0[0]); assert(i@ =~= i0.subrange(1, i0.len() as int)); }"},
            {"after": r"let \(i, version\) = [^;]*;", "text": "    let ghost ia = i@;\n    proof { assert(version.0 as int == be16s(i0, 1)); assert(ia =~= i0.subrange(3, i0.len() as int)); }"},
            {"after": r"let \(i, int0\) = [^;]*;", "text": """    proof {
        assert(ia.len() >= 8);
        assert(ia[0] == i0[3] && ia[1] == i0[4] && ia[2] == i0[5] && ia[3] == i0[6] && ia[4] == i0[7] && ia[5] == i0[8] && ia[6] == i0[9] && ia[7] == i0[10]);
        let hi = be16s(i0, 3); let lo = seq48(i0);
        assert(int0 as int == hi * 0x1_0000_0000_0000 + lo);
        lemma_epoch_seq_split(hi as u64, lo as u64);
        assert(i@ =~= i0.subrange(11, i0.len() as int));
    }"""},
            {"after": r"let sequence_number = [^;]*;", "text": "    proof { assert(epoch as int == be16s(i0, 3)); assert(sequence_number as int == seq48(i0)); }"},
            {"after": r"let \(i, length\) = [^;]*;", "text": "    proof { assert(length as int == be16s(i0, 11)); assert(i@ =~= i0.subrange(13, i0.len() as int)); }"},
        ]},
        {"file": F_DTLS, "kind": "fn", "name": "parse_dtls_record_with_header", "external_body": True, "contract": """
    ensures r == spec_dtls_prwh(i@, *hdr),
"""},
        {"file": F_DTLS, "kind": "fn", "name": "parse_dtls_plaintext_record",
         "subst": [
             (r"pub fn parse_dtls_plaintext_record\(i: &\[u8\]\) -> IResult<&\[u8\], DTLSPlaintext>", "pub fn parse_dtls_plaintext_record<'a>(i: &'a [u8]) -> IResult<&'a [u8], DTLSPlaintext<'a>>"),
             (r"\|i\| \{\n(\s*)parse_dtls_record_with_header\(i, &header\)", "|i: &'a [u8]| -> (r2: IResult<&'a [u8], Vec<DTLSMessage<'a>>>) ensures r2 == spec_dtls_prwh(i@, header) {\n\\1parse_dtls_record_with_header(i, &header)"),
         ],
         "splices": [{"at_start": True, "text": "    let ghost i0 = i@;"},
                     {"after": r"let \(i, header\) = parse_dtls_record_header\(i\)\?;", "text": """    let ghost i1 = i@;
    proof {
        let l = be16s(i0, 11);
        assert(i1 =~= i0.subrange(13, i0.len() as int));
        if l <= i1.len() {
            assert(i1.subrange(0, l) =~= i0.subrange(13, 13 + l));
            assert(i1.subrange(l, i1.len() as int) =~= i0.subrange(13 + l, i0.len() as int));
            axiom_dtls_prwh_never_incomplete(i0.subrange(13, 13 + l), header);
        }
    }"""}],
         "contract": """
    ensures dtls_record_post(i@, r),
"""},
    ],
    "epilogue": r'''
// C06 LOCALITY for DTLS handshake messages and records
proof fn lemma_dtls_hs_local(b: Seq<u8>, x: Seq<u8>, r1: IResult<&[u8], DTLSMessage>, r2: IResult<&[u8], DTLSMessage>)
    requires dtls_hs_post(b, r1), r1 is Ok, dtls_hs_post(b + x, r2),
    ensures
        r2 is Ok, r2->Ok_0.0@ =~= r1->Ok_0.0@ + x,
        r1->Ok_0.1 is Handshake && r2->Ok_0.1 is Handshake,
        ({ let m1 = r1->Ok_0.1->Handshake_0; let m2 = r2->Ok_0.1->Handshake_0;
           m1.msg_type == m2.msg_type && m1.length == m2.length && m1.message_seq == m2.message_seq
           && m1.fragment_offset == m2.fragment_offset && m1.fragment_length == m2.fragment_length
           && (if m1.body is Fragment { m2.body is Fragment && m2.body->Fragment_0@ =~= m1.body->Fragment_0@ } else { m2.body == m1.body }) }),
{
    let bx = b + x;
    assert(b.len() >= 12);
    assert(forall|k: int| 0 <= k < 12 ==> bx[k] == b[k]);
    let flen = be24s(b, 9);
    assert(be24s(bx, 9) == flen && be24s(bx, 1) == be24s(b, 1) && be24s(bx, 6) == be24s(b, 6) && be16s(bx, 4) == be16s(b, 4));
    assert(b.len() >= 12 + flen);
    assert(bx.subrange(12, 12 + flen) =~= b.subrange(12, 12 + flen));
    assert(bx.subrange(12 + flen, bx.len() as int) =~= b.subrange(12 + flen, b.len() as int) + x);
}

proof fn lemma_dtls_record_local(b: Seq<u8>, x: Seq<u8>, r1: IResult<&[u8], DTLSPlaintext>, r2: IResult<&[u8], DTLSPlaintext>)
    requires dtls_record_post(b, r1), dtls_record_post(b + x, r2), b.len() >= 13, b.len() >= 13 + be16s(b, 11),
    ensures
        r1 is Ok <==> r2 is Ok,
        r1 is Ok ==> r2->Ok_0.1.header == r1->Ok_0.1.header && r2->Ok_0.1.messages == r1->Ok_0.1.messages && r2->Ok_0.0@ =~= r1->Ok_0.0@ + x,
{
    let bx = b + x;
    assert(forall|k: int| 0 <= k < 13 ==> bx[k] == b[k]);
    let l = be16s(b, 11);
    assert(be16s(bx, 11) == l);
    assert(dtls_hdr_of(bx) == dtls_hdr_of(b));
    assert(bx.subrange(13, 13 + l) =~= b.subrange(13, 13 + l));
    assert(bx.subrange(13 + l, bx.len() as int) =~= b.subrange(13 + l, b.len() as int) + x);
}
''',
}
