# V-SERIALIZE (property C09): the serializer functions of src/tls_serialize.rs, extracted verbatim (R20: SerializeFn alias
# written out, R21: tuple((..)) -> tupleN(..), R9: closure signatures + contracts) and proved against a reference encoding
# written from RFC 5246 / 8446: which bytes each serializer emits (every length prefix = the byte length of what it
# prefixes), or that it fails with NotYetImplemented - for every value and every length, relative to the cookie-factory shim.
import os, sys
sys.path.insert(0, os.path.dirname(os.path.abspath(__file__)))
from states import adt, UNIT as _ST
import dispatch_ext as _de
import re as _re
import hellos as _hl
import derived as _dv
# derived's encoder for an opaque<1..2^8-1> field (ECPoint): lemma_ecpoint_roundtrip there proves the parser inverts it
_ENC8 = "\n".join(_re.findall(r"(?m)^pub open spec fn enc_opaque8\(.*$", _dv.__dict__.get("ROUNDTRIP", "") or open(_dv.__file__).read()))
# the RFC encoder spec functions of unit hellos (enc_u16, enc_sh), taken from its text so that the two units speak about the same
# function by construction: hellos proves parse(enc_sh(v)) == v (lemma_server_hello_roundtrip); here serialize(v) == enc_sh(v)
_ENC = "\n".join(_re.findall(r"(?ms)^pub open spec fn (?:enc_u16|enc_sh)\(.*?^\}$|^pub open spec fn enc_u16\(.*?$", _hl.ROUNDTRIP))

F_SER = "src/tls_serialize.rs"
F_HS = "src/tls_handshake.rs"
F_MSG = "src/tls_message.rs"
F_AL = "src/tls_alert.rs"
F_EC = "src/tls_ec.rs"
F_REC = "src/tls_record.rs"
F_EXT = "src/tls_extensions.rs"
_types = [it for it in _ST["items"] if it["kind"] in ("struct", "enum", "newtype_enum") and it["file"] in (F_HS, F_MSG, F_AL, F_EC)]
_ext_types = [it for it in _de.UNIT["items"] if it["kind"] in ("struct", "enum", "newtype_enum") and it not in _types]

SPEC = r'''
pub open spec fn bytes(b: Seq<u8>) -> GenOut { GenOut::Bytes(b) }
// a u16 / u24 length prefix in front of what `o` emits: the length field is the byte length of what it prefixes
// (as the code computes it: the u64 byte count cast to u16 / u32 and, for u24, its low 24 bits)
pub open spec fn len16_out(o: GenOut) -> GenOut {
    match o { GenOut::Fail(e) => GenOut::Fail(e), GenOut::Bytes(b) => GenOut::Bytes(u16_bytes(b.len() as u64 as u16) + b) }
}
pub open spec fn len24_out(o: GenOut) -> GenOut {
    match o { GenOut::Fail(e) => GenOut::Fail(e), GenOut::Bytes(b) => GenOut::Bytes(u24_bytes(b.len() as u64 as u32) + b) }
}
// handshake message = type byte, u24 body length, body
pub open spec fn hs_out(t: u8, body: GenOut) -> GenOut { seq_out(bytes(seq![t]), len24_out(body)) }
// session id: u8 length (0 when absent), then the bytes
pub open spec fn sid_out(sid: Option<&[u8]>) -> GenOut {
    match sid { None => bytes(seq![0u8]), Some(o) => bytes(seq![o@.len() as u8] + o@) }
}
// optional extension block: u16 length + bytes; absent = a zero length (what this serializer writes)
pub open spec fn ext_out(e: Option<&[u8]>) -> GenOut {
    match e { None => bytes(u16_bytes(0)), Some(o) => bytes(u16_bytes(o@.len() as u16) + o@) }
}
pub open spec fn server_hello_out(m: TlsServerHelloContents) -> GenOut {
    hs_out(2, seq_out(bytes(u16_bytes(m.version.0)), seq_out(bytes(m.random@), seq_out(sid_out(m.session_id),
        seq_out(bytes(u16_bytes(m.cipher.0)), seq_out(bytes(seq![m.compression.0]), ext_out(m.ext)))))))
}
pub open spec fn server_hello_d18_out(m: TlsServerHelloV13Draft18Contents) -> GenOut {
    hs_out(2, seq_out(bytes(u16_bytes(m.version.0)), seq_out(bytes(m.random@), seq_out(bytes(u16_bytes(m.cipher.0)), ext_out(m.ext)))))
}
// the list-based serializers (ClientHello, SNI / supported_groups extensions) pass a generator FUNCTION returning `impl SerializeFn` to
// cookie-factory's `all` / `many_ref`; Verus 0.2026.09.13 dies with an internal error on a fn item with an opaque return type used as a
// function value (measured), so their outcome is abstract here (uninterpreted) and they stay Kani obligations (ser_* leaves) + stand-in
pub uninterp spec fn client_hello_out(m: TlsClientHelloContents) -> GenOut;
pub uninterp spec fn sni_ext_out(v: Seq<(SNIType, &[u8])>) -> GenOut;
pub uninterp spec fn groups_ext_out(v: Seq<NamedGroup>) -> GenOut;
// an extension = u16 type, u16 length of the data, data
pub open spec fn tagged_out(tag: u16, o: GenOut) -> GenOut { seq_out(bytes(u16_bytes(tag)), len16_out(o)) }
pub open spec fn handshake_out(m: TlsMessageHandshake) -> GenOut {
    match m {
        TlsMessageHandshake::HelloRequest => seq_out(bytes(seq![0u8]), bytes(seq![0u8, 0u8, 0u8])),
        TlsMessageHandshake::ClientHello(c) => client_hello_out(c),
        TlsMessageHandshake::ServerHello(c) => server_hello_out(c),
        TlsMessageHandshake::ServerHelloV13Draft18(c) => server_hello_d18_out(c),
        TlsMessageHandshake::ClientKeyExchange(c) => cke_out(c),
        TlsMessageHandshake::Finished(b) => hs_out(20, bytes(b@)),
        _ => GenOut::Fail(GenError::NotYetImplemented),      // every other variant is refused, nothing is emitted
    }
}
pub open spec fn message_out(m: TlsMessage) -> GenOut {
    match m {
        TlsMessage::Handshake(h) => handshake_out(h),
        TlsMessage::ChangeCipherSpec => bytes(seq![1u8]),
        _ => GenOut::Fail(GenError::NotYetImplemented),
    }
}
pub open spec fn extension_out(m: TlsExtension) -> GenOut {
    match m {
        TlsExtension::SNI(v) => sni_ext_out(v@),
        TlsExtension::MaxFragmentLength(l) => tagged_out(1, bytes(seq![l])),
        TlsExtension::EllipticCurves(v) => groups_ext_out(v@),
        _ => GenOut::Fail(GenError::NotYetImplemented),
    }
}
pub open spec fn cke_out(m: TlsClientKeyExchangeContents) -> GenOut {
    match m {
        TlsClientKeyExchangeContents::Unknown(b) => hs_out(16, bytes(b@)),
        TlsClientKeyExchangeContents::Dh(b) => hs_out(16, len16_out(bytes(b@))),
        TlsClientKeyExchangeContents::Ecdh(p) => hs_out(16, seq_out(bytes(seq![p.point@.len() as u8]), bytes(p.point@))),
    }
}
'''

LEMMAS = r'''
// "every u24 / u16 length field equals the byte length of what it prefixes" in arithmetic terms, for every body that fits the field
proof fn lemma_len24_consistent(b: Seq<u8>)
    requires b.len() < 0x1000000,
    ensures len24_out(bytes(b)) == bytes(seq![(b.len() / 65536) as u8, ((b.len() / 256) % 256) as u8, (b.len() % 256) as u8] + b),
{
    let n = b.len() as u64 as u32;
    assert(((n >> 16) & 0xff) == n / 65536 && ((n >> 8) & 0xff) == (n / 256) % 256 && (n & 0xff) == n % 256) by (bit_vector) requires n < 0x1000000;
    assert(u24_bytes(n) =~= seq![(b.len() / 65536) as u8, ((b.len() / 256) % 256) as u8, (b.len() % 256) as u8]);
}
proof fn lemma_len16_consistent(b: Seq<u8>)
    requires b.len() < 0x10000,
    ensures len16_out(bytes(b)) == bytes(seq![(b.len() / 256) as u8, (b.len() % 256) as u8] + b),
{
    let n = b.len() as u64 as u16;
    assert((n >> 8) == n / 256 && (n & 0xff) == n % 256) by (bit_vector);
    assert(u16_bytes(n) =~= seq![(b.len() / 256) as u8, (b.len() % 256) as u8]);
}
// a handshake message whose body fits 24 bits: type byte, the body length big-endian on three bytes, the body - and nothing else
proof fn lemma_handshake_framing(t: u8, b: Seq<u8>)
    requires b.len() < 0x1000000,
    ensures hs_out(t, bytes(b)) == bytes(seq![t] + (seq![(b.len() / 65536) as u8, ((b.len() / 256) % 256) as u8, (b.len() % 256) as u8] + b)),
{
    lemma_len24_consistent(b);
}
// Finished / opaque ClientKeyExchange on a Vec writer: emits(f, Bytes(x)) means a call can only append exactly x (a Vec never fails)
proof fn lemma_vec_writer_appends<F: Fn(WriteContext<Vec<u8>>) -> GenResult<Vec<u8>>>(f: F, x: Seq<u8>, ctx: WriteContext<Vec<u8>>, r: GenResult<Vec<u8>>)
    requires emits(f, bytes(x)), f.ensures((ctx,), r),
    ensures r is Ok, r->Ok_0.write@ =~= ctx.write@ + x,
{
    axiom_vec_writer(ctx.write);
    if r is Ok { axiom_vec_writer(r->Ok_0.write); }
    assert(gen_post(ctx, r, bytes(x)));
}
'''

LINK = _ENC + r'''
pub proof fn lemma_u16_bytes(i: u16) ensures u16_bytes(i) =~= enc_u16(i as int)
{
    assert((i >> 8) == i / 256 && (i & 0xff) == i % 256) by (bit_vector);
}
// THE LINK (C09 round trip): what gen_tls_serverhello emits is the handshake framing (type 2, u24 length) of exactly the RFC 5246
// 7.4.1.3 encoding enc_sh that unit hellos proves the parser to invert - an absent extension block is written as an empty one.
pub open spec fn opt_view(o: Option<&[u8]>) -> Option<Seq<u8>> { match o { Some(x) => Some(x@), None => None } }
proof fn lemma_server_hello_is_rfc_encoding(m: TlsServerHelloContents)
    requires m.session_id is Some ==> m.session_id->Some_0@.len() <= 255, m.ext is Some ==> m.ext->Some_0@.len() <= 65535,
    ensures server_hello_out(m) == hs_out(2, bytes(enc_sh(m.version.0, m.random@, opt_view(m.session_id), m.cipher.0, m.compression.0,
                Some(match m.ext { Some(x) => x@, None => Seq::<u8>::empty() })))),
{
    lemma_u16_bytes(m.version.0); lemma_u16_bytes(m.cipher.0); lemma_u16_bytes(0);
    let sidb = match m.session_id { None => seq![0u8], Some(o) => seq![o@.len() as u8] + o@ };
    let extv = match m.ext { Some(x) => x@, None => Seq::<u8>::empty() };
    let extb = match m.ext { None => u16_bytes(0), Some(o) => u16_bytes(o@.len() as u16) + o@ };
    match m.ext { Some(o) => { lemma_u16_bytes(o@.len() as u16); }, None => {} }
    let body = u16_bytes(m.version.0) + (m.random@ + (sidb + (u16_bytes(m.cipher.0) + (seq![m.compression.0] + extb))));
    let e = enc_sh(m.version.0, m.random@, opt_view(m.session_id), m.cipher.0, m.compression.0, Some(extv));
    assert(body =~= e);
}
'''

LINK2 = _ENC8 + r'''
// an ECDH ClientKeyExchange is the handshake framing (type 16) of exactly the ECPoint encoding enc_opaque8 that unit derived proves
// parse_ec_point to invert (lemma_ecpoint_roundtrip); a DH one is the framing of the u16-prefixed public value
proof fn lemma_cke_ecdh_is_ecpoint_encoding(p: ECPoint)
    ensures cke_out(TlsClientKeyExchangeContents::Ecdh(p)) == hs_out(16, bytes(enc_opaque8(p.point@))),
{
    assert(seq![p.point@.len() as u8] + p.point@ =~= enc_opaque8(p.point@));
}
'''

R = ["R20", "R21"]
def clo(post):
    """R9: the returned closure's signature made explicit, with its contract"""
    return (r"move \|(\w+)\|", "move |\\1: WriteContext<W>| -> (r2: GenResult<W>) ensures %s" % post.replace("gen_post(out,", "gen_post(\\1,"))

def clo_expr(post):
    """the same for a closure whose body is a bare expression (`move |out| match m {..}`): Verus wants a block after a return type"""
    return (r"(?s)move \|(\w+)\| (.*\S)\s*\}\s*$", "move |\\1: WriteContext<W>| -> (r2: GenResult<W>) ensures %s { \\2 }\n}" % post.replace("gen_post(out,", "gen_post(\\1,"))

LEN = lambda n: {"file": F_SER, "kind": "fn", "name": "length_be_u%d" % n, "rewrites": R,
    "subst": [clo("forall|o: GenOut| #![trigger emits(f, o)] emits(f, o) ==> gen_post(out, r2, len%d_out(o))" % n),
              # shim gen takes the serializer by reference (the call passes `&f`); `slice` of the returned Vec is the Vec instance of
              # cookie-factory's slice<S: AsRef<[u8]>> (rename-tolerant: the buffer's name is whatever the let binds)
              (r"(?s)let \((\w+), (\w+)\) = gen\(&f, Vec::new\(\)\)\?;(.*?)slice\(\1\)", r"let (\1, \2) = gen_ref(&f, Vec::new())?;\3slice_vec(\1)")],
    "contract": "    requires callable(f),\n    ensures callable(r), forall|o: GenOut| #![trigger emits(f, o)] emits(f, o) ==> emits(r, len%d_out(o))," % n}

def hs_type(name):
    return (r"u8::from\(TlsHandshakeType::%s\)" % name, "u8_from_hstype(TlsHandshakeType::%s)" % name)

UNIT = {
    "name": "serialize",
    "property": ["C09"],
    "prelude": ["shim_cf.rs"],
    "items": _types + _ext_types + [adt(F_HS, "struct", "TlsHandshakeType"), adt(F_HS, "newtype_enum", "TlsHandshakeType")] + [
        {"file": "-", "kind": "inline", "name": "serialize-contracts", "text": SPEC},
        # R8: From<TlsHandshakeType> for u8 lifted to a free fn (a foreign-trait impl cannot carry an ensures)
        {"file": F_HS, "kind": "method_as_fn", "name": "from", "as": "u8_from_hstype", "header": r"^impl From<TlsHandshakeType> for u8\s*\{",
         "contract": "    ensures r == v.0,"},
        LEN(16), LEN(24),
        {"file": F_SER, "kind": "fn", "name": "gen_tls_hellorequest", "rewrites": R, "subst": [hs_type("HelloRequest")],
         "splices": [{"at_start": True, "text": "    proof { assert(u24_bytes(0) =~= seq![0u8, 0u8, 0u8]) by { assert(((0u32 >> 16) & 0xff) as u8 == 0 && ((0u32 >> 8) & 0xff) as u8 == 0 && (0u32 & 0xff) as u8 == 0) by (bit_vector); } }"}],
         "contract": "    ensures emits(r, seq_out(bytes(seq![0u8]), bytes(seq![0u8, 0u8, 0u8]))),"},
        {"file": F_SER, "kind": "fn", "name": "gen_tls_finished", "rewrites": R, "subst": [hs_type("Finished")],
         "contract": "    ensures emits(r, hs_out(20, bytes(m@))),"},
        {"file": F_SER, "kind": "fn", "name": "gen_tls_clientkeyexchange_unknown", "rewrites": R, "subst": [hs_type("ClientKeyExchange")],
         "contract": "    ensures emits(r, hs_out(16, bytes(m@))),"},
        {"file": F_SER, "kind": "fn", "name": "gen_tls_clientkeyexchange_dh", "rewrites": R, "subst": [hs_type("ClientKeyExchange")],
         "contract": "    ensures emits(r, hs_out(16, len16_out(bytes(m@)))),"},
        {"file": F_SER, "kind": "fn", "name": "gen_tls_clientkeyexchange_ecdh", "rewrites": R, "subst": [hs_type("ClientKeyExchange")],
         "contract": "    ensures emits(r, hs_out(16, seq_out(bytes(seq![m.point@.len() as u8]), bytes(m.point@)))),"},
        {"file": F_SER, "kind": "fn", "name": "gen_tls_sessionid", "rewrites": R, "subst": [clo_expr("gen_post(out, r2, sid_out(*m))")],
         "contract": "    ensures emits(r, sid_out(*m)),"},
        {"file": F_SER, "kind": "fn", "name": "maybe_extensions", "rewrites": R, "subst": [clo_expr("gen_post(out, r2, ext_out(*m))")],
         "contract": "    ensures emits(r, ext_out(*m)),"},
        {"file": F_SER, "kind": "fn", "name": "gen_tls_serverhello", "rewrites": R, "subst": [hs_type("ServerHello")],
         "contract": "    ensures emits(r, server_hello_out(*m)),"},
        {"file": F_SER, "kind": "fn", "name": "gen_tls_serverhellodraft18", "rewrites": R, "subst": [hs_type("ServerHello")],
         "contract": "    ensures emits(r, server_hello_d18_out(*m)),"},
        {"file": F_SER, "kind": "fn", "name": "gen_tls_clientkeyexchange", "rewrites": R, "subst": [clo_expr("gen_post(out, r2, cke_out(*m))")],
         "contract": "    ensures emits(r, cke_out(*m)),"},
        {"file": F_SER, "kind": "fn", "name": "gen_tls_changecipherspec", "rewrites": R,
         "contract": "    ensures emits(r, bytes(seq![1u8])),"},
        {"file": F_EXT, "kind": "method_as_fn", "name": "from", "as": "u16_from_exttype", "header": r"^impl From<TlsExtensionType> for u16\s*\{",
         "contract": "    ensures r == ext.0,"},
        {"file": F_SER, "kind": "fn", "name": "tagged_extension", "rewrites": R,
         "subst": [clo_expr("forall|o: GenOut| #![trigger emits(f, o)] emits(f, o) ==> gen_post(out, r2, tagged_out(tag, o))"),
                   (r"\{ tuple2", "{ broadcast use axiom_ref_serializer; tuple2")],
         "contract": "    requires callable(f),\n    ensures callable(r), forall|o: GenOut| #![trigger emits(f, o)] emits(f, o) ==> emits(r, tagged_out(tag, o)),"},
        {"file": F_SER, "kind": "fn", "name": "gen_tls_ext_max_fragment_length", "rewrites": R,
         "subst": [(r"u16::from\(TlsExtensionType::MaxFragmentLength\)", "u16_from_exttype(TlsExtensionType::MaxFragmentLength)")],
         "contract": "    ensures emits(r, tagged_out(1, bytes(seq![l]))),"},
        {"file": F_SER, "kind": "fn", "name": "gen_tls_named_group", "rewrites": R, "contract": "    ensures emits(r, bytes(u16_bytes(g.0))),"},
        # one SNI entry: name type u8, u16 name length, the name
        {"file": F_SER, "kind": "fn", "name": "gen_tls_ext_sni_hostname", "rewrites": R,
         "contract": "    ensures emits(r, seq_out(bytes(seq![(i.0).0]), seq_out(bytes(u16_bytes(i.1@.len() as u16)), bytes(i.1@)))),"},
        {"file": F_SER, "kind": "fn", "name": "gen_tls_clienthello", "rewrites": R, "external_body": True, "external_body_text": "{ move |ctx: WriteContext<W>| Err(GenError::InvalidOffset) }", "contract": "    ensures emits(r, client_hello_out(*m)),"},
        {"file": F_SER, "kind": "fn", "name": "gen_tls_ext_sni", "rewrites": R, "external_body": True, "external_body_text": "{ move |ctx: WriteContext<W>| Err(GenError::InvalidOffset) }", "contract": "    ensures emits(r, sni_ext_out(m@)),"},
        {"file": F_SER, "kind": "fn", "name": "gen_tls_ext_elliptic_curves", "rewrites": R, "external_body": True, "external_body_text": "{ move |ctx: WriteContext<W>| Err(GenError::InvalidOffset) }", "contract": "    ensures emits(r, groups_ext_out(v@)),"},
        # dispatchers: each supported variant goes to its own serializer, every other variant is NotYetImplemented
        {"file": F_SER, "kind": "fn", "name": "gen_tls_messagehandshake", "rewrites": R,
         "subst": [clo_expr("gen_post(out, r2, handshake_out(*m))"), (r"\(ref (\w+)\)", r"(\1)")],
         "contract": "    ensures emits(r, handshake_out(*m)),"},
        {"file": F_SER, "kind": "fn", "name": "gen_tls_message", "rewrites": R,
         "subst": [clo_expr("gen_post(out, r2, message_out(*m))"), (r"\(ref (\w+)\)", r"(\1)")],
         "contract": "    ensures emits(r, message_out(*m)),"},
        {"file": F_SER, "kind": "fn", "name": "gen_tls_extension", "rewrites": R,
         "subst": [clo_expr("gen_post(out, r2, extension_out(*m))"), (r"\(ref (\w+)\)", r"(\1)")],
         "contract": "    ensures emits(r, extension_out(*m)),"},
    ],
    "epilogue": LEMMAS + LINK + LINK2,
}
