# V-EXT-LISTS2 (properties C05, C06, C01): list-valued extension contents - `map_parser(length_data(be_u16),
# many0(complete(<element parser>)))` - extracted verbatim; the result is the explicit accumulate-while-Ok loop of the
# element parser over EXACTLY the declared u16 window, and what follows the window is the remainder.
import os, sys
sys.path.insert(0, os.path.dirname(os.path.abspath(__file__)))
import dispatch_ext as _de
from derived_common import newtype_items, INT_SHIMS

F_EXT = "src/tls_extensions.rs"
_types = [it for it in _de.UNIT["items"] if it["kind"] in ("struct", "enum", "newtype_enum")]

SPEC = r'''
pub open spec fn be16s(s: Seq<u8>, o: int) -> int { (s[o] as int) * 256 + (s[o + 1] as int) }
pub open spec fn is_incomplete<T>(r: IResult<&[u8], T>) -> bool { r is Err && r->Err_0 is Incomplete }

// u16-prefixed list of elements parsed by `p`: window = i[2..2+l]; elements = explicit loop of p over the window;
// a list longer than the data never yields a value
pub open spec fn list16_post<'a, O>(p: spec_fn(&'a [u8]) -> IResult<&'a [u8], O>, i: &'a [u8], r: IResult<&'a [u8], TlsExtension<'a>>,
                                   wrap: spec_fn(Vec<O>) -> TlsExtension<'a>) -> bool {
    if i@.len() < 2 || i@.len() < 2 + be16s(i@, 0) { is_incomplete(r) }
    else {
        let l = be16s(i@, 0);
        exists|w: &'a [u8], inner: IResult<&'a [u8], Vec<O>>|
            w@ =~= i@.subrange(2, 2 + l) && #[trigger] many0_post(completed(p), w, inner) && match inner {
                Ok((_, v)) => (match r { Ok((rem, e)) => e == wrap(v) && rem@ =~= i@.subrange(2 + l, i@.len() as int), Err(_) => false }),
                Err(e) => r == Err::<(&[u8], TlsExtension), Err<Error<&[u8]>>>(e),
            }
    }
}

// protocol name: opaque<u8>
pub open spec fn name_post(i: Seq<u8>, r: IResult<&[u8], &[u8]>) -> bool {
    if i.len() < 1 || i.len() < 1 + i[0] as int { is_incomplete(r) }
    else { match r { Ok((rem, d)) => d@ =~= i.subrange(1, 1 + i[0] as int) && rem@ =~= i.subrange(1 + i[0] as int, i.len() as int), Err(_) => false } }
}

// ASSUMED (definition of fun_of for these parser values, as everywhere): total, deterministic, non-growing
#[verifier::external_body]
proof fn axiom_elem_is_fun<'a>()
    ensures is_fun(parse_protocol_name), is_fun(be_u16), is_fun(parse_tls_oid_filter), is_fun(parse_tls_extension_sni_hostname),
{}


// server name entry (RFC 6066 3): name_type u8, HostName<u16>
pub open spec fn hostname_post(i: Seq<u8>, r: IResult<&[u8], (SNIType, &[u8])>) -> bool {
    if i.len() < 3 || i.len() < 3 + be16s(i, 1) { is_incomplete(r) }
    else { match r { Ok((rem, (t, v))) => t.0 == i[0] && v@ =~= i.subrange(3, 3 + be16s(i, 1)) && rem@ =~= i.subrange(3 + be16s(i, 1), i.len() as int), Err(_) => false } }
}
pub open spec fn oid_filter_post(i: Seq<u8>, r: IResult<&[u8], OidFilter>) -> bool {
    if i.len() < 1 || i.len() < 3 + (i[0] as int) || i.len() < 3 + (i[0] as int) + be16s(i, 1 + i[0] as int) { is_incomplete(r) }
    else { let a = i[0] as int; let b = be16s(i, 1 + a); match r {
        Ok((rem, f)) => f.cert_ext_oid@ =~= i.subrange(1, 1 + a) && f.cert_ext_val@ =~= i.subrange(3 + a, 3 + a + b) && rem@ =~= i.subrange(3 + a + b, i.len() as int),
        Err(_) => false } }
}

// SNI content: empty extension (server side) => empty list; else u16 list length, entries = explicit loop over the window
pub open spec fn sni_post<'a>(i: &'a [u8], r: IResult<&'a [u8], TlsExtension<'a>>) -> bool {
    if i@.len() == 0 { match r { Ok((rem, TlsExtension::SNI(v))) => v@.len() == 0 && rem@.len() == 0, _ => false } }
    else { list16_post(fun_of(parse_tls_extension_sni_hostname), i, r, |v: Vec<(SNIType, &'a [u8])>| TlsExtension::SNI(v)) }
}
'''

HINT = """)(i);
    proof {
        let (lf, mg) = choose|lf: spec_fn(&[u8]) -> IResult<&[u8], &[u8]>, mg: spec_fn(&[u8]) -> IResult<&[u8], Vec<%(O)s>>| res == #[trigger] map_parser_fn(lf, mg, i1)
            && length_data_post(fun_of(be_u16)(i1), lf(i1)) && (lf(i1) is Ok ==> many0_post(completed(fun_of(%(elem)s)), lf(i1)->Ok_0.1, mg(lf(i1)->Ok_0.1)));
        assert(be_post(2, i1@, fun_of(be_u16)(i1), |v: u16| v as int));
        if lf(i1) is Ok {
            let w = lf(i1)->Ok_0.1;
            assert(many0_post(completed(fun_of(%(elem)s)), w, mg(w)));
            assert(w@ =~= i1@.subrange(2, 2 + be16s(i1@, 0)));
        }
    }
    let (i, %(var)s) = res?;
"""

def list_fn(fn, elem, O, var, variant):
    return {"file": F_EXT, "kind": "fn", "name": fn,
            "subst": [
                (r"fn %s\(i: &\[u8\]\) -> IResult<&\[u8\], TlsExtension>" % fn, "fn %s<'a>(i: &'a [u8]) -> IResult<&'a [u8], TlsExtension<'a>>" % fn),
                # R11: the operand of `?` bound to a local first
                (r"let \(i, %s\) = map_parser\(" % var, "let ghost i1 = i;\n    let res = map_parser("),
                (r"\)\(i\)\?;\n", HINT % {"O": O, "elem": elem, "var": var}),
            ],
            "splices": [{"at_start": True, "text": "    proof { reveal_with_fuel(be_val, 3); axiom_be_fun(); axiom_elem_is_fun(); }"}],
            "contract": "    ensures list16_post(fun_of(%s), i, r, |v: Vec<%s>| TlsExtension::%s(v))," % (elem, O, variant)}

UNIT = {
    "name": "ext_lists2",
    "needs_expanded": True,
    "property": ["C05", "C06", "C01"],
    "prelude": ["shim_nom.rs"],
    "items": _types + [
        {"file": F_EXT, "kind": "fn", "name": "parse_protocol_name", "contract": "    ensures name_post(i@, r),",
         "subst": [(r"^fn parse_protocol_name", "pub fn parse_protocol_name")],   # R12: visibility widened in the extract only
         "splices": [{"at_start": True, "text": "    proof { reveal_with_fuel(be_val, 2); }"}]},
        {"file": "-", "kind": "inline", "name": "list-contracts", "text": INT_SHIMS + SPEC},
    ] + newtype_items("SNIType", 1) + [
        {"file": F_EXT, "kind": "fn", "name": "parse_tls_oid_filter", "contract": "    ensures oid_filter_post(i@, r),",
         "subst": [(r"^fn parse_tls_oid_filter", "pub fn parse_tls_oid_filter")],
         "splices": [{"at_start": True, "text": "    let ghost i0 = i@;\n    proof { reveal_with_fuel(be_val, 3); }"},
                     {"after": r"let \(i, cert_ext_oid\) = length_data\(be_u8\)\(i\)\?;", "text": "    let ghost i1 = i@;\n    proof { let a = i0[0] as int; assert(cert_ext_oid@ =~= i0.subrange(1, 1 + a)); assert(i1 =~= i0.subrange(1 + a, i0.len() as int)); }"},
                     {"after": r"let \(i, cert_ext_val\) = length_data\(be_u16\)\(i\)\?;", "text": "    proof { let a = i0[0] as int; assert(i1.len() >= 2); assert(be_val(i1, 2) == be16s(i0, 1 + a)); let b = be16s(i0, 1 + a); assert(cert_ext_val@ =~= i0.subrange(3 + a, 3 + a + b)); assert(i@ =~= i0.subrange(3 + a + b, i0.len() as int)); }"}]},
        {"file": F_EXT, "kind": "fn", "name": "parse_tls_extension_sni_hostname", "contract": "    ensures hostname_post(i@, r),",
         "splices": [{"at_start": True, "text": "    let ghost i0 = i@;\n    proof { reveal_with_fuel(be_val, 3); }"},
                     {"after": r"let \(i, t\) = SNIType::parse\(i\)\?;", "text": "    let ghost i1 = i@;\n    proof { assert(i1 =~= i0.subrange(1, i0.len() as int)); assert(t.0 == i0[0]); }"},
                     {"after": r"let \(i, v\) = length_data\(be_u16\)\(i\)\?;", "text": "    proof { assert(i1.len() >= 2); assert(be_val(i1, 2) == be16s(i0, 1)); let l = be16s(i0, 1); assert(v@ =~= i0.subrange(3, 3 + l)); assert(i@ =~= i0.subrange(3 + l, i0.len() as int)); }"}]},
        list_fn("parse_tls_extension_alpn_content", "parse_protocol_name", "&'a [u8]", "v", "ALPN"),
        list_fn("parse_tls_extension_signature_algorithms_content", "be_u16", "u16", "l", "SignatureAlgorithms"),
        {"file": F_EXT, "kind": "fn", "name": "parse_tls_extension_sni_content",
         "subst": [
             (r"fn parse_tls_extension_sni_content\(i: &\[u8\]\) -> IResult<&\[u8\], TlsExtension>", "fn parse_tls_extension_sni_content<'a>(i: &'a [u8]) -> IResult<&'a [u8], TlsExtension<'a>>"),
             (r"let \(i, v\) = map_parser\(", "let ghost i1 = i;\n    let res = map_parser("),
             (r"\)\(i\)\?;\n", """)(i);
    proof {
        let (tk, mg) = choose|tk: spec_fn(&[u8]) -> IResult<&[u8], &[u8]>, mg: spec_fn(&[u8]) -> IResult<&[u8], Vec<(SNIType, &[u8])>>| res == #[trigger] map_parser_fn(tk, mg, i1)
            && take_post(list_len as int, i1@, tk(i1)) && (tk(i1) is Ok ==> many0_post(completed(fun_of(parse_tls_extension_sni_hostname)), tk(i1)->Ok_0.1, mg(tk(i1)->Ok_0.1)));
        if tk(i1) is Ok {
            let w = tk(i1)->Ok_0.1;
            assert(many0_post(completed(fun_of(parse_tls_extension_sni_hostname)), w, mg(w)));
            assert(w@ =~= i0.subrange(2, 2 + list_len as int));
        }
    }
    let (i, v) = res?;
"""),
         ],
         "splices": [{"at_start": True, "text": "    let ghost i0 = i@;\n    proof { reveal_with_fuel(be_val, 3); axiom_elem_is_fun(); }"},
                     {"after": r"let \(i, list_len\) = be_u16\(i\)\?;", "text": "    proof { assert(i@ =~= i0.subrange(2, i0.len() as int)); assert(list_len as int == be16s(i0, 0)); }"}],
         "contract": "    ensures sni_post(i, r),"},
        dict(list_fn("parse_tls_extension_oid_filters", "parse_tls_oid_filter", "OidFilter<'a>", "v", "OidFilters"),
             **{}),
    ],
    "epilogue": "",
}
