# V-DISPATCH-HS (properties C04, C03, C06, C11): parse_tls_message_handshake extracted verbatim;
# the 16 body parsers abstract. Type -> body-parser table for all 256 type codes, body isolated by the
# 24-bit length before any body parser runs, exact consumption - for every input length.
import os, sys
sys.path.insert(0, os.path.dirname(os.path.abspath(__file__)))
from states import UNIT as _ST, adt, F_HS, F_MSG, F_AL, F_EC

_types = [it for it in _ST["items"] if it["kind"] in ("struct", "enum", "newtype_enum") and it["file"] in (F_HS, F_MSG, F_AL, F_EC)]

# (handshake type code, body parser, takes the declared length, variant(s) it may return)
TABLE = [
    (0x00, "parse_tls_handshake_msg_hello_request", False, ["HelloRequest"]),
    (0x01, "parse_tls_handshake_msg_client_hello", False, ["ClientHello"]),
    (0x02, "parse_tls_handshake_msg_server_hello", False, ["ServerHello", "ServerHelloV13Draft18"]),
    (0x04, "parse_tls_handshake_msg_newsessionticket", True, ["NewSessionTicket"]),
    (0x06, "parse_tls_handshake_msg_hello_retry_request", False, ["HelloRetryRequest"]),
    (0x0b, "parse_tls_handshake_msg_certificate", False, ["Certificate"]),
    (0x0c, "parse_tls_handshake_msg_serverkeyexchange", True, ["ServerKeyExchange"]),
    (0x0d, "parse_tls_handshake_msg_certificaterequest", False, ["CertificateRequest"]),
    (0x0e, "parse_tls_handshake_msg_serverdone", True, ["ServerDone"]),
    (0x0f, "parse_tls_handshake_msg_certificateverify", True, ["CertificateVerify"]),
    (0x10, "parse_tls_handshake_msg_clientkeyexchange", True, ["ClientKeyExchange"]),
    (0x14, "parse_tls_handshake_msg_finished", True, ["Finished"]),
    (0x16, "parse_tls_handshake_msg_certificatestatus", False, ["CertificateStatus"]),
    (0x18, "parse_tls_handshake_msg_key_update", False, ["KeyUpdate"]),
    (0x43, "parse_tls_handshake_msg_next_protocol", False, ["NextProtocol"]),
]

def callee_items():
    out = []
    for t, fn, has_len, variants in TABLE:
        spec = "spec_" + fn
        vcond = " || ".join("r->Ok_0.1 is %s" % v for v in variants)
        if has_len:
            out.append({"file": "-", "kind": "inline", "name": spec, "text":
                "pub uninterp spec fn %s(i: Seq<u8>, len: usize) -> IResult<&'static [u8], TlsMessageHandshake<'static>>;" % spec})
            out.append({"file": F_HS, "kind": "fn", "name": fn, "external_body": True, "contract":
                "    ensures r == %s(i@, len), r is Ok ==> (%s)," % (spec, vcond)})
        else:
            out.append({"file": "-", "kind": "inline", "name": spec, "text":
                "pub uninterp spec fn %s(i: Seq<u8>) -> IResult<&'static [u8], TlsMessageHandshake<'static>>;" % spec})
            out.append({"file": F_HS, "kind": "fn", "name": fn, "external_body": True, "contract":
                "    ensures r == %s(i@), r is Ok ==> (%s)," % (spec, vcond)})
    return out

def table_spec():
    arms = []
    for t, fn, has_len, _ in TABLE:
        arms.append("    if t == %d { Some(spec_%s(body%s)) } else" % (t, fn, ", hl as usize" if has_len else ""))
    return ("pub open spec fn hs_table(t: u8, body: Seq<u8>, hl: int) -> Option<IResult<&'static [u8], TlsMessageHandshake<'static>>> {\n"
            + "\n".join(arms) + "\n    { None }\n}\n")

SPEC = r'''
// ------------------------------------------------------------------ dispatch contract (from the property + IANA HandshakeType registry)
''' + table_spec() + r'''
// handshake type -> the variant its body decodes to (oracle), used by the history-free tag clause
pub open spec fn kind_code(m: TlsMessageHandshake) -> int {
    match m {
        TlsMessageHandshake::HelloRequest => 0x00, TlsMessageHandshake::ClientHello(_) => 0x01,
        TlsMessageHandshake::ServerHello(_) => 0x02, TlsMessageHandshake::ServerHelloV13Draft18(_) => 0x02,
        TlsMessageHandshake::NewSessionTicket(_) => 0x04, TlsMessageHandshake::EndOfEarlyData => 0x05,
        TlsMessageHandshake::HelloRetryRequest(_) => 0x06, TlsMessageHandshake::Certificate(_) => 0x0b,
        TlsMessageHandshake::ServerKeyExchange(_) => 0x0c, TlsMessageHandshake::CertificateRequest(_) => 0x0d,
        TlsMessageHandshake::ServerDone(_) => 0x0e, TlsMessageHandshake::CertificateVerify(_) => 0x0f,
        TlsMessageHandshake::ClientKeyExchange(_) => 0x10, TlsMessageHandshake::Finished(_) => 0x14,
        TlsMessageHandshake::CertificateStatus(_) => 0x16, TlsMessageHandshake::KeyUpdate(_) => 0x18,
        TlsMessageHandshake::NextProtocol(_) => 0x43,
    }
}

pub open spec fn hs_dispatch_post(i: Seq<u8>, r: IResult<&[u8], TlsMessage>) -> bool {
    if i.len() < 4 { r is Err && r->Err_0 is Incomplete }
    else {
        let t = i[0];
        let hl = (i[1] as int) * 65536 + (i[2] as int) * 256 + (i[3] as int);
        if i.len() < 4 + hl {
            // a message cut short by the input: Incomplete with exactly the missing bytes, never a value
            r == Err::<(&[u8], TlsMessage), Err<Error<&[u8]>>>(Err::Incomplete(Needed::Size((4 + hl - i.len()) as usize)))
        } else {
            let body = i.subrange(4, 4 + hl);
            let rem = i.subrange(4 + hl, i.len() as int);
            if t == 0x05 {
                // EndOfEarlyData: no body parser
                match r { Ok((rm, TlsMessage::Handshake(TlsMessageHandshake::EndOfEarlyData))) => rm@ =~= rem, _ => false }
            } else { match hs_table(t, body, hl) {
                // the body parser sees exactly the hl body bytes (and hl), whatever follows; its remainder is dropped
                Some(c) => (match c {
                    Ok((_, m)) => (match r { Ok((rm, TlsMessage::Handshake(m2))) => m2 == m && rm@ =~= rem, _ => false }),
                    Err(e) => r == Err::<(&[u8], TlsMessage), Err<Error<&[u8]>>>(e),
                }),
                // unknown handshake type: rejected, never a value
                None => r is Err && r->Err_0 is Error && r->Err_0->Error_0.code == ErrorKind::Switch,
            } }
        }
    }
}
'''

UNIT = {
    "name": "dispatch_hs",
    "property": ["C04", "C03", "C06"],
    "prelude": ["shim_nom.rs"],
    "items": _types + [adt(F_HS, "struct", "TlsHandshakeType"), adt(F_HS, "newtype_enum", "TlsHandshakeType")] + callee_items() + [
        {"file": "-", "kind": "inline", "name": "hs-dispatch-contract", "text": SPEC},
        {"file": F_HS, "kind": "fn", "name": "parse_tls_message_handshake", "contract": """
    ensures
        hs_dispatch_post(i@, r),
        // the decoded variant is the one the type byte selects
        r is Ok ==> r->Ok_0.1 is Handshake && kind_code(r->Ok_0.1->Handshake_0) == i@[0] as int,
""", "splices": [
            {"at_start": True, "text": "    let ghost i0 = i@;\n    proof { reveal_with_fuel(be_val, 4); }"},
            # rename-tolerant anchors: {g1} = the name the remainder is bound to in the anchored statement
            {"after": r"let \((\w+), ht\) = be_u8\(\w+\)\?;", "text": "    let ghost i1 = {g1}@;\n    proof { assert(i0.len() >= 1); assert(i1 =~= i0.subrange(1, i0.len() as int)); assert(ht == i0[0]); }"},
            {"after": r"let \((\w+), hl\) = be_u24\(\w+\)\?;", "text": "    let ghost i2 = {g1}@;\n    proof { assert(i1.len() >= 3); assert(i2 =~= i0.subrange(4, i0.len() as int)); assert(hl as int == (i0[1] as int) * 65536 + (i0[2] as int) * 256 + (i0[3] as int)); }"},
            {"after": r"let \((\w+), raw_msg\) = take\(hl\)\(\w+\)\?;", "text": "    proof { assert(raw_msg@ =~= i0.subrange(4, 4 + hl as int)); assert({g1}@ =~= i0.subrange(4 + hl as int, i0.len() as int)); }"},
        ]},
    ],
    "epilogue": r'''
// C06 LOCALITY: a handshake message decoded from b is decoded identically from b ++ x; the remainder grows by x.
proof fn lemma_hs_local(b: Seq<u8>, x: Seq<u8>, r1: IResult<&[u8], TlsMessage>, r2: IResult<&[u8], TlsMessage>)
    requires hs_dispatch_post(b, r1), r1 is Ok, hs_dispatch_post(b + x, r2),
    ensures r2 is Ok, r2->Ok_0.1 == r1->Ok_0.1, r2->Ok_0.0@ =~= r1->Ok_0.0@ + x,
{
    let bx = b + x;
    assert(b.len() >= 4);
    assert(bx[0] == b[0] && bx[1] == b[1] && bx[2] == b[2] && bx[3] == b[3]);
    let hl = (b[1] as int) * 65536 + (b[2] as int) * 256 + (b[3] as int);
    assert(b.len() >= 4 + hl);
    assert(bx.subrange(4, 4 + hl) =~= b.subrange(4, 4 + hl));
    assert(bx.subrange(4 + hl, bx.len() as int) =~= b.subrange(4 + hl, b.len() as int) + x);
}
''',
}
