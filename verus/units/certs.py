# V-CERTS (properties C04, C06, C01): the Certificate body - u24 list length, then the list window parsed by the
# explicit accumulate-while-Ok loop of the u24-length-prefixed entry parser - extracted verbatim and proved for every
# input length: the window is exactly the declared bytes, certificates are the entries in wire order, a list longer
# than the body never yields a value.
import os, sys
sys.path.insert(0, os.path.dirname(os.path.abspath(__file__)))
import bodies2 as _b2

F_HS = "src/tls_handshake.rs"
_types = [it for it in _b2.UNIT["items"] if it["kind"] in ("struct", "enum", "newtype_enum")]

SPEC = r'''
pub open spec fn be24s(s: Seq<u8>, o: int) -> int { (s[o] as int) * 65536 + (s[o + 1] as int) * 256 + (s[o + 2] as int) }
pub open spec fn is_incomplete<T>(r: IResult<&[u8], T>) -> bool { r is Err && r->Err_0 is Incomplete }

// one certificate entry (RFC 5246 7.4.2): opaque ASN.1Cert<1..2^24-1>, i.e. u24 length then that many bytes
pub open spec fn cert_elem_post(j: Seq<u8>, r: IResult<&[u8], RawCertificate>) -> bool {
    if j.len() < 3 || j.len() < 3 + be24s(j, 0) { is_incomplete(r) }
    else { match r { Ok((rem, c)) => c.data@ =~= j.subrange(3, 3 + be24s(j, 0)) && rem@ =~= j.subrange(3 + be24s(j, 0), j.len() as int), Err(_) => false } }
}
// the list parser: the explicit loop (shim: loop_from) of SOME function p that decodes one entry as above, made
// `complete` (an entry cut off by the end of the window ends the list)
pub open spec fn certs_post<'a>(i: &'a [u8], r: IResult<&'a [u8], Vec<RawCertificate<'a>>>) -> bool {
    exists|p: spec_fn(&'a [u8]) -> IResult<&'a [u8], RawCertificate<'a>>|
        (forall|j: &'a [u8]| cert_elem_post(j@, #[trigger] p(j))) && #[trigger] many0_post(completed(p), i, r)
}
// Certificate body: u24 list length L, window = i[3..3+L], certificates = the list parser on exactly the window (its
// remainder dropped), remainder = i[3+L..]; a list longer than the body is Incomplete
pub open spec fn certificate_post<'a>(i: &'a [u8], r: IResult<&'a [u8], TlsCertificateContents<'a>>) -> bool {
    if i@.len() < 3 || i@.len() < 3 + be24s(i@, 0) { is_incomplete(r) }
    else {
        let l = be24s(i@, 0);
        exists|w: &'a [u8], inner: IResult<&'a [u8], Vec<RawCertificate<'a>>>|
            w@ =~= i@.subrange(3, 3 + l) && #[trigger] certs_post(w, inner) && match inner {
                Ok((_, v)) => (match r { Ok((rem, c)) => c.cert_chain == v && rem@ =~= i@.subrange(3 + l, i@.len() as int), Err(_) => false }),
                Err(e) => r == Err::<(&[u8], TlsCertificateContents), Err<Error<&[u8]>>>(e),
            }
    }
}
pub open spec fn certificate_msg_post<'a>(i: &'a [u8], r: IResult<&'a [u8], TlsMessageHandshake<'a>>) -> bool {
    match r {
        Ok((rem, TlsMessageHandshake::Certificate(c))) => certificate_post(i, Ok::<(&[u8], TlsCertificateContents), Err<Error<&[u8]>>>((rem, c))),
        Ok(_) => false,
        Err(e) => certificate_post(i, Err::<(&[u8], TlsCertificateContents), Err<Error<&[u8]>>>(e)),
    }
}
pub open spec fn dtls_certificate_post<'a>(i: &'a [u8], r: IResult<&'a [u8], DTLSMessageHandshakeBody<'a>>) -> bool {
    match r {
        Ok((rem, DTLSMessageHandshakeBody::Certificate(c))) => certificate_post(i, Ok::<(&[u8], TlsCertificateContents), Err<Error<&[u8]>>>((rem, c))),
        Ok(_) => false,
        Err(e) => certificate_post(i, Err::<(&[u8], TlsCertificateContents), Err<Error<&[u8]>>>(e)),
    }
}
'''

UNIT = {
    "name": "certs",
    "property": ["C04", "C06", "C01"],
    "prelude": ["shim_nom.rs"],
    "items": _types + [
        {"file": "-", "kind": "inline", "name": "certificate-contracts", "text": SPEC},
        {"file": F_HS, "kind": "fn", "name": "parse_certs",
         "subst": [
             (r"^fn parse_certs\(i: &\[u8\]\) -> IResult<&\[u8\], Vec<RawCertificate>>", "pub fn parse_certs<'a>(i: &'a [u8]) -> IResult<&'a [u8], Vec<RawCertificate<'a>>>"),
             # R9: closure signature explicit, with its (trivial) contract
             (r"\|data\| RawCertificate \{\s*data,\s*\}", "|data: &'a [u8]| -> (c: RawCertificate<'a>) ensures c.data == data { RawCertificate { data } }"),
         ],
         "splices": [{"at_start": True, "text": "    proof { reveal_with_fuel(be_val, 4); axiom_be_fun(); }"}],
         "contract": "    ensures certs_post(i, r),"},
        {"file": F_HS, "kind": "fn", "name": "parse_tls_certificate",
         "subst": [
             (r"fn parse_tls_certificate\(i: &\[u8\]\) -> IResult<&\[u8\], TlsCertificateContents>", "fn parse_tls_certificate<'a>(i: &'a [u8]) -> IResult<&'a [u8], TlsCertificateContents<'a>>"),
         ],
         "splices": [{"at_start": True, "text": "    let ghost i0 = i@;\n    proof { reveal_with_fuel(be_val, 4); }"},
                     {"after": r"let \(i, cert_len\) = [^;]*;", "text": "    proof { assert(cert_len as int == be24s(i0, 0)); assert(i@ =~= i0.subrange(3, i0.len() as int)); }"}],
         "contract": "    ensures certificate_post(i, r),"},
        {"file": F_HS, "kind": "fn", "name": "parse_tls_handshake_msg_certificate",
         "subst": [
             (r"fn parse_tls_handshake_msg_certificate\(i: &\[u8\]\) -> IResult<&\[u8\], TlsMessageHandshake>", "fn parse_tls_handshake_msg_certificate<'a>(i: &'a [u8]) -> IResult<&'a [u8], TlsMessageHandshake<'a>>"),
             # R10: constructor passed as a function value, eta-expanded with its (trivial) contract
             (r"TlsMessageHandshake::Certificate\)\(i\)", "|x: TlsCertificateContents<'a>| -> (y: TlsMessageHandshake<'a>) ensures y == TlsMessageHandshake::Certificate(x) { TlsMessageHandshake::Certificate(x) })(i)"),
         ],
         "contract": "    ensures certificate_msg_post(i, r),"},
        {"file": "src/dtls.rs", "kind": "fn", "name": "parse_dtls_handshake_msg_certificate",
         "subst": [
             (r"^fn parse_dtls_handshake_msg_certificate\(i: &\[u8\]\) -> IResult<&\[u8\], DTLSMessageHandshakeBody>", "pub fn parse_dtls_handshake_msg_certificate<'a>(i: &'a [u8]) -> IResult<&'a [u8], DTLSMessageHandshakeBody<'a>>"),
             (r"DTLSMessageHandshakeBody::Certificate\)\(i\)", "|x: TlsCertificateContents<'a>| -> (y: DTLSMessageHandshakeBody<'a>) ensures y == DTLSMessageHandshakeBody::Certificate(x) { DTLSMessageHandshakeBody::Certificate(x) })(i)"),
         ],
         "contract": "    ensures dtls_certificate_post(i, r),"},
    ],
    "epilogue": "",
}
