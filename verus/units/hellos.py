# V-HELLOS (properties C04, C06, C11, C01): the ClientHello and ServerHello body parsers and the fixed-shape
# "one opaque blob of the declared length" bodies, extracted verbatim and proved against the RFC 5246 7.4.1 wire
# layout for every input length; the version switch of the ServerHello entry points proved as a table.
import os, sys
sys.path.insert(0, os.path.dirname(os.path.abspath(__file__)))
import bodies2 as _b2
from bodies2 import OPT_HINT
from derived_common import newtype_items, r17_chunks, r17_iter, PARITY_PARAM
LIST_HINTS = PARITY_PARAM

F_HS = "src/tls_handshake.rs"
_types = [it for it in _b2.UNIT["items"] if it["kind"] in ("struct", "enum", "newtype_enum")]
# the draft-18 ServerHello body (proved in unit bodies2, re-proved here: the version switch below calls it), with the
# generated TlsVersion parser it reads
_b2_items = [it for it in _b2.UNIT["items"] if it["kind"] in ("inline", "derived") or it.get("name") == "parse_tls_handshake_msg_server_hello_tlsv13draft18"]

SPEC = r'''
pub open spec fn is_error<T>(r: IResult<&[u8], T>) -> bool { r is Err && r->Err_0 is Error }
pub open spec fn is_error_kind<T>(r: IResult<&[u8], T>, k: ErrorKind) -> bool { r is Err && r->Err_0 is Error && r->Err_0->Error_0.code == k }

// session id: length byte at 34 (<= 32), absent iff the length is 0
pub open spec fn sid_ok(i: Seq<u8>, sid: Option<&[u8]>) -> bool {
    if i[34] == 0 { sid is None } else { sid is Some && sid->Some_0@ =~= i.subrange(35, 35 + i[34] as int) }
}

// ServerHello (SSL 3.0 .. TLS 1.2), RFC 5246 7.4.1.3: version u16, random[32], session_id<0..32>, cipher u16,
// compression u8, then (when has_ext) an optional u16-prefixed extension block
pub open spec fn sh12_post(i: Seq<u8>, has_ext: bool, r: IResult<&[u8], TlsServerHelloContents>) -> bool {
    if i.len() < 35 { is_incomplete(r) }
    else if i[34] > 32 { is_error_kind(r, ErrorKind::Verify) }
    else if i.len() < 35 + i[34] as int + 3 { is_incomplete(r) }
    else { let o = 35 + i[34] as int; match r {
        Ok((rem, h)) => h.version.0 as int == be16s(i, 0) && h.random@ =~= i.subrange(2, 34) && sid_ok(i, h.session_id)
                        && h.cipher.0 as int == be16s(i, o) && h.compression.0 == i[o + 2]
                        && (if has_ext { opt_ext_ok(i, o + 3, h.ext, rem@) } else { h.ext is None && rem@ =~= i.subrange(o + 3, i.len() as int) }),
        Err(_) => false } }
}
pub open spec fn sh12_msg_post(i: Seq<u8>, has_ext: bool, r: IResult<&[u8], TlsMessageHandshake>) -> bool {
    if i.len() < 35 { is_incomplete(r) }
    else if i[34] > 32 { is_error_kind(r, ErrorKind::Verify) }
    else if i.len() < 35 + i[34] as int + 3 { is_incomplete(r) }
    else { match r {
        Ok((rem, TlsMessageHandshake::ServerHello(h))) => sh12_post(i, has_ext, Ok::<(&[u8], TlsServerHelloContents), Err<Error<&[u8]>>>((rem, h))),
        _ => false } }
}
// the legacy-version switch: 0x0301..0x0303 with extensions, 0x0300 without, everything else rejected (Tag)
pub open spec fn sh_post(i: Seq<u8>, r: IResult<&[u8], TlsServerHelloContents>) -> bool {
    if i.len() < 2 { is_incomplete(r) }
    else { let v = be16s(i, 0);
        if v == 0x0301 || v == 0x0302 || v == 0x0303 { sh12_post(i, true, r) }
        else if v == 0x0300 { sh12_post(i, false, r) }
        else { is_error_kind(r, ErrorKind::Tag) } }
}
// ... and for the message-level entry point: 0x7f12 is the draft-18 layout (variant ServerHelloV13Draft18)
pub open spec fn sh_msg_post(i: Seq<u8>, r: IResult<&[u8], TlsMessageHandshake>) -> bool {
    if i.len() < 2 { is_incomplete(r) }
    else { let v = be16s(i, 0);
        if v == 0x7f12 { sh_d18_post(i, r) }
        else if v == 0x0301 || v == 0x0302 || v == 0x0303 { sh12_msg_post(i, true, r) }
        else if v == 0x0300 { sh12_msg_post(i, false, r) }
        else { is_error_kind(r, ErrorKind::Tag) } }
}
// the two list helpers (iterator-adapter bodies, outside Verus's reach): ASSUMED here with exactly the contracts that
// Kani leaf_cipher_suites / leaf_compressions check on the compiled code (len over its full domain)
pub open spec fn cs_post(i: Seq<u8>, len: int, r: IResult<&[u8], Vec<TlsCipherSuiteID>>) -> bool {
    if len == 0 { match r { Ok((rem, v)) => v@.len() == 0 && rem@ =~= i, Err(_) => false } }
    else if len % 2 == 1 || len > i.len() { is_error(r) }
    else { match r {
        Ok((rem, v)) => v@.len() == len / 2 && (forall|k: int| 0 <= k < len / 2 ==> (#[trigger] v@[k]).0 as int == be16s(i, 2 * k)) && rem@ =~= i.subrange(len, i.len() as int),
        Err(_) => false } }
}
pub open spec fn comp_post(i: Seq<u8>, len: int, r: IResult<&[u8], Vec<TlsCompressionID>>) -> bool {
    if len == 0 { match r { Ok((rem, v)) => v@.len() == 0 && rem@ =~= i, Err(_) => false } }
    else if len > i.len() { is_error(r) }
    else { match r {
        Ok((rem, v)) => v@.len() == len && (forall|k: int| 0 <= k < len ==> (#[trigger] v@[k]).0 == i[k]) && rem@ =~= i.subrange(len, i.len() as int),
        Err(_) => false } }
}
// ClientHello, RFC 5246 7.4.1.2: version u16, random[32], session_id<0..32>, cipher_suites<2..2^16-2> (u16 length,
// even), compression_methods<1..2^8-1> (u8 length), optional u16-prefixed extension block
pub open spec fn ch_post(i: Seq<u8>, r: IResult<&[u8], TlsClientHelloContents>) -> bool {
    if i.len() < 35 { is_incomplete(r) }
    else if i[34] > 32 { is_error_kind(r, ErrorKind::Verify) }
    else if i.len() < 35 + i[34] as int + 2 { is_incomplete(r) }
    else { let oc = 37 + i[34] as int; let cl = be16s(i, oc - 2);
        if cl % 2 == 1 || cl > i.len() - oc { is_error(r) }                                   // odd or overlong cipher-suite list
        else if i.len() < oc + cl + 1 { is_incomplete(r) }
        else { let om = oc + cl + 1; let ml = i[om - 1] as int;
            if ml > i.len() - om { is_error(r) }                                               // overlong compression list
            else { match r {
                Ok((rem, h)) => h.version.0 as int == be16s(i, 0) && h.random@ =~= i.subrange(2, 34) && sid_ok(i, h.session_id)
                    && h.ciphers@.len() == cl / 2 && (forall|k: int| 0 <= k < cl / 2 ==> (#[trigger] h.ciphers@[k]).0 as int == be16s(i, oc + 2 * k))
                    && h.comp@.len() == ml && (forall|k: int| 0 <= k < ml ==> (#[trigger] h.comp@[k]).0 == i[om + k])
                    && opt_ext_ok(i, om + ml, h.ext, rem@),
                Err(_) => false } } } }
}
pub open spec fn ch_msg_post(i: Seq<u8>, r: IResult<&[u8], TlsMessageHandshake>) -> bool {
    match r {
        Ok((rem, TlsMessageHandshake::ClientHello(h))) => ch_post(i, Ok::<(&[u8], TlsClientHelloContents), Err<Error<&[u8]>>>((rem, h))),
        Ok(_) => false,
        Err(Err::Incomplete(n)) => ch_post(i, Err::<(&[u8], TlsClientHelloContents), Err<Error<&[u8]>>>(Err::Incomplete(n))),
        Err(Err::Error(e)) => ch_post(i, Err::<(&[u8], TlsClientHelloContents), Err<Error<&[u8]>>>(Err::Error(e))),
        Err(Err::Failure(e)) => ch_post(i, Err::<(&[u8], TlsClientHelloContents), Err<Error<&[u8]>>>(Err::Failure(e))),
    }
}
// DTLS ClientHello, RFC 6347 4.2.1: as ClientHello with cookie<0..2^8-1> between session id and cipher suites
pub open spec fn dch_post(i: Seq<u8>, r: IResult<&[u8], DTLSMessageHandshakeBody>) -> bool {
    if i.len() < 35 { is_incomplete(r) }
    else if i[34] > 32 { is_error_kind(r, ErrorKind::Verify) }
    else if i.len() < 35 + i[34] as int + 1 { is_incomplete(r) }
    else { let ok = 36 + i[34] as int; let kl = i[ok - 1] as int;
        if i.len() < ok + kl + 2 { is_incomplete(r) }
        else { let oc = ok + kl + 2; let cl = be16s(i, oc - 2);
            if cl % 2 == 1 || cl > i.len() - oc { is_error(r) }
            else if i.len() < oc + cl + 1 { is_incomplete(r) }
            else { let om = oc + cl + 1; let ml = i[om - 1] as int;
                if ml > i.len() - om { is_error(r) }
                else { match r {
                    Ok((rem, DTLSMessageHandshakeBody::ClientHello(h))) => h.version.0 as int == be16s(i, 0) && h.random@ =~= i.subrange(2, 34) && sid_ok(i, h.session_id)
                        && h.cookie@ =~= i.subrange(ok, ok + kl)
                        && h.ciphers@.len() == cl / 2 && (forall|k: int| 0 <= k < cl / 2 ==> (#[trigger] h.ciphers@[k]).0 as int == be16s(i, oc + 2 * k))
                        && h.comp@.len() == ml && (forall|k: int| 0 <= k < ml ==> (#[trigger] h.comp@[k]).0 == i[om + k])
                        && opt_ext_ok(i, om + ml, h.ext, rem@),
                    _ => false } } } } }
}
pub open spec fn cke_post(i: Seq<u8>, len: int, r: IResult<&[u8], TlsClientKeyExchangeContents>) -> bool {
    if i.len() < len { is_incomplete(r) }
    else { match r { Ok((rem, TlsClientKeyExchangeContents::Unknown(b))) => b@ =~= i.subrange(0, len) && rem@ =~= i.subrange(len, i.len() as int), _ => false } }
}
// DTLS wrappers of the shared body parsers and the two one-line DTLS message parsers
pub open spec fn dtls_blob_post(i: Seq<u8>, len: int, r: IResult<&[u8], DTLSMessageHandshakeBody>, get: spec_fn(DTLSMessageHandshakeBody) -> Option<Seq<u8>>) -> bool {
    if i.len() < len { is_incomplete(r) }
    else { match r { Ok((rem, m)) => get(m) == Some(i.subrange(0, len)) && rem@ =~= i.subrange(len, i.len() as int), Err(_) => false } }
}
pub open spec fn dtls_sh_post(i: Seq<u8>, r: IResult<&[u8], DTLSMessageHandshakeBody>) -> bool {
    if i.len() < 35 { is_incomplete(r) }
    else if i[34] > 32 { is_error_kind(r, ErrorKind::Verify) }
    else if i.len() < 35 + i[34] as int + 3 { is_incomplete(r) }
    else { match r {
        Ok((rem, DTLSMessageHandshakeBody::ServerHello(h))) => sh12_post(i, true, Ok::<(&[u8], TlsServerHelloContents), Err<Error<&[u8]>>>((rem, h))),
        _ => false } }
}
pub open spec fn dtls_ccs_post(i: Seq<u8>, r: IResult<&[u8], DTLSMessage>) -> bool {
    if i.len() < 1 { is_incomplete(r) }
    else if i[0] != 1 { is_error_kind(r, ErrorKind::Verify) }
    else { match r { Ok((rem, DTLSMessage::ChangeCipherSpec)) => rem@ =~= i.subrange(1, i.len() as int), _ => false } }
}
pub open spec fn alert_struct_post(i: Seq<u8>, r: IResult<&[u8], TlsMessageAlert>) -> bool {
    if i.len() < 2 { is_incomplete(r) }
    else { match r { Ok((rem, a)) => a.severity.0 == i[0] && a.code.0 == i[1] && rem@ =~= i.subrange(2, i.len() as int), Err(_) => false } }
}
pub open spec fn dtls_alert_post(i: Seq<u8>, r: IResult<&[u8], DTLSMessage>) -> bool {
    if i.len() < 2 { is_incomplete(r) }
    else { match r { Ok((rem, DTLSMessage::Alert(a))) => a.severity.0 == i[0] && a.code.0 == i[1] && rem@ =~= i.subrange(2, i.len() as int), _ => false } }
}
// a body that is one opaque blob of the declared length (ServerKeyExchange, ServerDone, CertificateVerify, Finished,
// ClientKeyExchange): exactly `len` bytes, the rest is remainder, a short body is Incomplete
pub open spec fn blob_post(i: Seq<u8>, len: int, r: IResult<&[u8], TlsMessageHandshake>, get: spec_fn(TlsMessageHandshake) -> Option<Seq<u8>>) -> bool {
    if i.len() < len { is_incomplete(r) }
    else { match r { Ok((rem, m)) => get(m) == Some(i.subrange(0, len)) && rem@ =~= i.subrange(len, i.len() as int), Err(_) => false } }
}
'''

SID_SUBST = [
    # R15: closure parameter pattern `&n` -> parameter `n: &u8` (body `n` -> `*n`), with its (trivial) contract
    (r"verify\(be_u8, \|&n\| n <= 32\)", "verify(be_u8, |n: &u8| -> (b: bool) ensures b == (*n <= 32) { *n <= 32 })"),
]

SH12_HINTS = [
    {"at_start": True, "text": "    let ghost i0 = i@;\n    proof { reveal_with_fuel(be_val, 3); axiom_be_fun(); }"},
    {"after": r"let \(i, version\) = [^;]*;", "text": "    proof { assert(version as int == be16s(i0, 0)); assert(i@ =~= i0.subrange(2, i0.len() as int)); }"},
    {"after": r"let \(i, random\) = [^;]*;", "text": "    proof { assert(random@ =~= i0.subrange(2, 34)); assert(i@ =~= i0.subrange(34, i0.len() as int)); }"},
    {"after": r"let \(i, sidlen\) = [^;]*;", "text": "    proof { assert(sidlen == i0[34] && sidlen <= 32); assert(i@ =~= i0.subrange(35, i0.len() as int)); }"},
    {"after": r"let \(i, sid\) = [^;]*;", "text": "    let ghost o: int = 35 + sidlen as int;\n    proof { assert(sid_ok(i0, sid)); assert(i@ =~= i0.subrange(o, i0.len() as int)); }"},
    {"after": r"let \(i, cipher\) = [^;]*;", "text": "    proof { assert(cipher as int == be16s(i0, o)); assert(i@ =~= i0.subrange(o + 2, i0.len() as int)); }"},
    {"after": r"let \(i, comp\) = [^;]*;", "text": "    proof { assert(comp == i0[o + 2]); assert(i@ =~= i0.subrange(o + 3, i0.len() as int)); }"},
]


def blob(fn, variant, closure=None):
    """`map(take(len), <constructor>)(i)`: R10 (constructor eta-expanded) or R9 (closure signature made explicit)"""
    get = "|m: TlsMessageHandshake| match m { TlsMessageHandshake::%s => Some(%s), _ => None }" % (
        ("ServerKeyExchange(c)", "c.parameters@") if variant == "ServerKeyExchange" else (variant + "(b)", "b@"))
    if closure:
        sub = (closure, "|ext: &'a [u8]| -> (y: TlsMessageHandshake<'a>) ensures y == TlsMessageHandshake::ServerKeyExchange(TlsServerKeyExchangeContents { parameters: ext }) {")
    else:
        sub = (r"TlsMessageHandshake::%s\)\(i\)" % variant, "|x: &'a [u8]| -> (y: TlsMessageHandshake<'a>) ensures y == TlsMessageHandshake::%s(x) { TlsMessageHandshake::%s(x) })(i)" % (variant, variant))
    return {"file": F_HS, "kind": "fn", "name": fn,
            "subst": [(r"fn %s\(\s*i: &\[u8\],\s*len: usize,\s*\) -> IResult<&\[u8\], TlsMessageHandshake>" % fn,
                       "fn %s<'a>(i: &'a [u8], len: usize) -> IResult<&'a [u8], TlsMessageHandshake<'a>>" % fn), sub],
            "contract": "    ensures blob_post(i@, len as int, r, %s)," % get}


ROUNDTRIP = r'''
// ---------------------------------------------------------------------------------------------------------------
// The property as stated (C04), for ServerHello: encoding a value per RFC 5246 7.4.1.3 and parsing the body returns
// exactly that value - every integer field, the random, presence/absence of session id and extension block, byte for
// byte - and consumes the body entirely.  Corollary of sh12_post alone.
pub open spec fn enc_u16(n: int) -> Seq<u8> { seq![(n / 256) as u8, (n % 256) as u8] }
pub open spec fn enc_sh(v: u16, random: Seq<u8>, sid: Option<Seq<u8>>, c: u16, co: u8, ext: Option<Seq<u8>>) -> Seq<u8> {
    let s = match sid { Some(x) => x, None => Seq::<u8>::empty() };
    let e = match ext { Some(x) => enc_u16(x.len() as int) + x, None => Seq::<u8>::empty() };
    enc_u16(v as int) + random + seq![s.len() as u8] + s + enc_u16(c as int) + seq![co] + e
}
proof fn lemma_server_hello_roundtrip(v: u16, random: Seq<u8>, sid: Option<Seq<u8>>, c: u16, co: u8, ext: Option<Seq<u8>>, r: IResult<&[u8], TlsServerHelloContents>)
    requires random.len() == 32, sid is Some ==> 1 <= sid->Some_0.len() <= 32, ext is Some ==> ext->Some_0.len() <= 65535,
        sh12_post(enc_sh(v, random, sid, c, co, ext), true, r),
    ensures r is Ok, r->Ok_0.0@.len() == 0,
        r->Ok_0.1.version.0 == v, r->Ok_0.1.random@ =~= random, r->Ok_0.1.cipher.0 == c, r->Ok_0.1.compression.0 == co,
        (match sid { Some(x) => r->Ok_0.1.session_id is Some && r->Ok_0.1.session_id->Some_0@ =~= x, None => r->Ok_0.1.session_id is None }),
        (match ext { Some(x) => r->Ok_0.1.ext is Some && r->Ok_0.1.ext->Some_0@ =~= x, None => r->Ok_0.1.ext is None }),
{
    let b = enc_sh(v, random, sid, c, co, ext);
    let s = match sid { Some(x) => x, None => Seq::<u8>::empty() };
    let n = s.len() as int;
    let o = 35 + n;
    assert(b.len() >= o + 3);
    assert(b[0] == ((v as int) / 256) as u8 && b[1] == ((v as int) % 256) as u8);
    assert(be16s(b, 0) == v as int);
    assert(b.subrange(2, 34) =~= random);
    assert(b[34] == n as u8);
    if n > 0 { assert(b.subrange(35, 35 + n) =~= s); }
    assert(b[o] == ((c as int) / 256) as u8 && b[o + 1] == ((c as int) % 256) as u8);
    assert(be16s(b, o) == c as int);
    assert(b[o + 2] == co);
    match ext {
        Some(x) => {
            let m = x.len() as int;
            assert(b.len() == o + 3 + 2 + m);
            assert(b[o + 3] == (m / 256) as u8 && b[o + 4] == (m % 256) as u8);
            assert(be16s(b, o + 3) == m);
            assert(b.subrange(o + 5, o + 5 + m) =~= x);
        }
        None => { assert(b.len() == o + 3); }
    }
}

// ... and for ClientHello (RFC 5246 7.4.1.2): all cipher-suite ids and compression ids in order, for every list length
pub open spec fn enc_ids(ids: Seq<u16>) -> Seq<u8>
    decreases ids.len()
{
    if ids.len() == 0 { Seq::<u8>::empty() } else { enc_ids(ids.drop_last()) + enc_u16(ids.last() as int) }
}
proof fn lemma_enc_ids(ids: Seq<u16>)
    ensures enc_ids(ids).len() == 2 * ids.len(),
        forall|k: int| 0 <= k < ids.len() ==> be16s(enc_ids(ids), 2 * k) == #[trigger] ids[k] as int,
    decreases ids.len()
{
    if ids.len() > 0 {
        let pre = ids.drop_last();
        lemma_enc_ids(pre);
        let e = enc_ids(ids);
        let x = ids.last() as int;
        assert(e =~= enc_ids(pre) + enc_u16(x));
        assert forall|k: int| 0 <= k < ids.len() implies be16s(e, 2 * k) == #[trigger] ids[k] as int by {
            if k < pre.len() {
                assert(e[2 * k] == enc_ids(pre)[2 * k] && e[2 * k + 1] == enc_ids(pre)[2 * k + 1]);
                assert(pre[k] == ids[k]);
            } else {
                assert(e[2 * k] == (x / 256) as u8 && e[2 * k + 1] == (x % 256) as u8);
            }
        }
    }
}
pub open spec fn enc_ch(v: u16, random: Seq<u8>, sid: Option<Seq<u8>>, ids: Seq<u16>, comps: Seq<u8>, ext: Option<Seq<u8>>) -> Seq<u8> {
    let s = match sid { Some(x) => x, None => Seq::<u8>::empty() };
    let e = match ext { Some(x) => enc_u16(x.len() as int) + x, None => Seq::<u8>::empty() };
    enc_u16(v as int) + random + seq![s.len() as u8] + s + enc_u16(2 * ids.len() as int) + enc_ids(ids) + seq![comps.len() as u8] + comps + e
}
#[verifier::rlimit(300)]
proof fn lemma_client_hello_roundtrip(v: u16, random: Seq<u8>, sid: Option<Seq<u8>>, ids: Seq<u16>, comps: Seq<u8>, ext: Option<Seq<u8>>, r: IResult<&[u8], TlsClientHelloContents>)
    requires random.len() == 32, sid is Some ==> 1 <= sid->Some_0.len() <= 32, ids.len() <= 32767, comps.len() <= 255,
        ext is Some ==> ext->Some_0.len() <= 65535,
        ch_post(enc_ch(v, random, sid, ids, comps, ext), r),
    ensures r is Ok, r->Ok_0.0@.len() == 0,
        r->Ok_0.1.version.0 == v, r->Ok_0.1.random@ =~= random,
        (match sid { Some(x) => r->Ok_0.1.session_id is Some && r->Ok_0.1.session_id->Some_0@ =~= x, None => r->Ok_0.1.session_id is None }),
        r->Ok_0.1.ciphers@.len() == ids.len(), forall|k: int| 0 <= k < ids.len() ==> (#[trigger] r->Ok_0.1.ciphers@[k]).0 == ids[k],
        r->Ok_0.1.comp@.len() == comps.len(), forall|k: int| 0 <= k < comps.len() ==> (#[trigger] r->Ok_0.1.comp@[k]).0 == comps[k],
        (match ext { Some(x) => r->Ok_0.1.ext is Some && r->Ok_0.1.ext->Some_0@ =~= x, None => r->Ok_0.1.ext is None }),
{
    let b = enc_ch(v, random, sid, ids, comps, ext);
    let s = match sid { Some(x) => x, None => Seq::<u8>::empty() };
    let e = match ext { Some(x) => enc_u16(x.len() as int) + x, None => Seq::<u8>::empty() };
    let n = s.len() as int;
    let cl = 2 * ids.len() as int;
    let oc = 37 + n;
    let om = oc + cl + 1;
    let ml = comps.len() as int;
    lemma_enc_ids(ids);
    assert(b.len() == om + ml + e.len());
    assert(b[0] == ((v as int) / 256) as u8 && b[1] == ((v as int) % 256) as u8);
    assert(be16s(b, 0) == v as int);
    assert(b.subrange(2, 34) =~= random);
    assert(b[34] == n as u8);
    if n > 0 { assert(b.subrange(35, 35 + n) =~= s); }
    assert(b[oc - 2] == (cl / 256) as u8 && b[oc - 1] == (cl % 256) as u8);
    assert(be16s(b, oc - 2) == cl);
    assert(b.subrange(oc, oc + cl) =~= enc_ids(ids));
    assert forall|k: int| 0 <= k < ids.len() implies be16s(b, oc + 2 * k) == #[trigger] ids[k] as int by {
        assert(b[oc + 2 * k] == enc_ids(ids)[2 * k] && b[oc + 2 * k + 1] == enc_ids(ids)[2 * k + 1]);
    }
    assert(b[om - 1] == ml as u8);
    assert forall|k: int| 0 <= k < ml implies b[om + k] == #[trigger] comps[k] by {}
    match ext {
        Some(x) => {
            let m = x.len() as int;
            assert(b[om + ml] == (m / 256) as u8 && b[om + ml + 1] == (m % 256) as u8);
            assert(be16s(b, om + ml) == m);
            assert(b.subrange(om + ml + 2, om + ml + 2 + m) =~= x);
        }
        None => {}
    }
    assert forall|k: int| 0 <= k < ids.len() implies (#[trigger] r->Ok_0.1.ciphers@[k]).0 == ids[k] by {
        assert(be16s(b, oc + 2 * k) == ids[k] as int);
    }
}
'''

UNIT = {
    "name": "hellos",
    "needs_expanded": True,
    "property": ["C04", "C06", "C11", "C01"],
    "prelude": ["shim_nom.rs", "shim_std.rs"],
    "items": _types + _b2_items + [
        {"file": "-", "kind": "inline", "name": "hello-contracts", "text": SPEC},
        {"file": F_HS, "kind": "impl", "name": "TlsServerHelloContents", "methods": {
            "new": {"returns": "s", "contract": """
        ensures s.version.0 == v, s.random == random, s.session_id == sid, s.cipher.0 == c, s.compression.0 == co, s.ext == e,
"""},
            "get_cipher": {"skip": True},
        }},
        {"file": F_HS, "kind": "fn", "name": "parse_tls_server_hello_tlsv12",
         "subst": SID_SUBST + [
             (r"i: &\[u8\],\n\) -> IResult<&\[u8\], TlsServerHelloContents>", "i: &'a [u8],\n) -> IResult<&'a [u8], TlsServerHelloContents<'a>>"),
             (r"fn parse_tls_server_hello_tlsv12<const HAS_EXT: bool>", "fn parse_tls_server_hello_tlsv12<'a, const HAS_EXT: bool>"),
         ],
         "splices": SH12_HINTS,
         "contract": "    ensures sh12_post(i@, HAS_EXT, r),"},
        {"file": F_HS, "kind": "fn", "name": "parse_tls_handshake_msg_server_hello_tlsv12",
         "subst": [
             (r"^fn parse_tls_handshake_msg_server_hello_tlsv12<const HAS_EXT: bool>\(\s*i: &\[u8\],\s*\) -> IResult<&\[u8\], TlsMessageHandshake>",
              "pub fn parse_tls_handshake_msg_server_hello_tlsv12<'a, const HAS_EXT: bool>(i: &'a [u8]) -> IResult<&'a [u8], TlsMessageHandshake<'a>>"),
             # R10: constructor passed as a function value, eta-expanded with its (trivial) contract
             (r"TlsMessageHandshake::ServerHello,", "|x: TlsServerHelloContents<'a>| -> (y: TlsMessageHandshake<'a>) ensures y == TlsMessageHandshake::ServerHello(x) { TlsMessageHandshake::ServerHello(x) },"),
         ],
         "contract": "    ensures sh12_msg_post(i@, HAS_EXT, r),"},
        {"file": F_HS, "kind": "impl", "name": "TlsClientHelloContents", "methods": {
            "new": {"returns": "s", "contract": """
        ensures s.version.0 == v, s.random == random, s.session_id == sid, s.ciphers == c, s.comp == co, s.ext == e,
"""},
            "get_ciphers": {"skip": True},
        }},
        # R17: the iterator-adapter chain named as a shim function (verus/shim_std.rs); guards, slicing and the closure body verbatim
        {"file": F_HS, "kind": "fn", "name": "parse_cipher_suites", "subst": [r17_chunks("TlsCipherSuiteID")], "splices": LIST_HINTS, "contract": "    ensures cs_post(i@, len as int, r),"},
        {"file": F_HS, "kind": "fn", "name": "parse_compressions_algs", "subst": [r17_iter("TlsCompressionID")], "splices": LIST_HINTS, "contract": "    ensures comp_post(i@, len as int, r),"},
        {"file": F_HS, "kind": "fn", "name": "parse_tls_handshake_client_hello", "rlimit": 400,
         "subst": SID_SUBST,
         "splices": [
             {"at_start": True, "text": "    let ghost i0 = i@;\n    proof { reveal_with_fuel(be_val, 3); axiom_be_fun(); }"},
             {"after": r"let \(i, version\) = [^;]*;", "text": "    proof { assert(version as int == be16s(i0, 0)); assert(i@ =~= i0.subrange(2, i0.len() as int)); }"},
             {"after": r"let \(i, random\) = [^;]*;", "text": "    proof { assert(random@ =~= i0.subrange(2, 34)); assert(i@ =~= i0.subrange(34, i0.len() as int)); }"},
             {"after": r"let \(i, sidlen\) = [^;]*;", "text": "    proof { assert(sidlen == i0[34] && sidlen <= 32); assert(i@ =~= i0.subrange(35, i0.len() as int)); }"},
             {"after": r"let \(i, sid\) = [^;]*;", "text": "    let ghost oc: int = 37 + sidlen as int;\n    proof { assert(sid_ok(i0, sid)); assert(i@ =~= i0.subrange(oc - 2, i0.len() as int)); }"},
             {"after": r"let \(i, ciphers_len\) = [^;]*;", "text": "    let ghost cl: int = ciphers_len as int;\n    let ghost ic = i@;\n    proof { assert(cl == be16s(i0, oc - 2)); assert(ic =~= i0.subrange(oc, i0.len() as int)); }"},
             {"after": r"let \(i, ciphers\) = [^;]*;", "text": "    proof { assert(i@ =~= i0.subrange(oc + cl, i0.len() as int)); assert forall|k: int| 0 <= k < cl / 2 implies (#[trigger] ciphers@[k]).0 as int == be16s(i0, oc + 2 * k) by { assert(be16s(ic, 2 * k) == be16s(i0, oc + 2 * k)); } }"},
             {"after": r"let \(i, comp_len\) = [^;]*;", "text": "    let ghost om: int = oc + cl + 1;\n    let ghost ml: int = comp_len as int;\n    let ghost im = i@;\n    proof { assert(ml == i0[om - 1]); assert(im =~= i0.subrange(om, i0.len() as int)); }"},
             {"after": r"let \(i, comp\) = [^;]*;", "text": "    proof { assert(i@ =~= i0.subrange(om + ml, i0.len() as int)); assert forall|k: int| 0 <= k < ml implies (#[trigger] comp@[k]).0 == i0[om + k] by { assert(im[k] == i0[om + k]); } }"},
         ],
         "contract": "    ensures ch_post(i@, r),"},
        {"file": F_HS, "kind": "fn", "name": "parse_tls_handshake_msg_client_hello",
         "subst": [
             (r"fn parse_tls_handshake_msg_client_hello\(i: &\[u8\]\) -> IResult<&\[u8\], TlsMessageHandshake>", "fn parse_tls_handshake_msg_client_hello<'a>(i: &'a [u8]) -> IResult<&'a [u8], TlsMessageHandshake<'a>>"),
             (r"TlsMessageHandshake::ClientHello,", "|x: TlsClientHelloContents<'a>| -> (y: TlsMessageHandshake<'a>) ensures y == TlsMessageHandshake::ClientHello(x) { TlsMessageHandshake::ClientHello(x) },"),
         ],
         "contract": "    ensures ch_msg_post(i@, r),"},
        {"file": "src/dtls.rs", "kind": "fn", "name": "parse_dtls_client_hello", "rlimit": 400,
         "subst": SID_SUBST + [(r"^fn parse_dtls_client_hello", "pub fn parse_dtls_client_hello")],
         "splices": [
             {"at_start": True, "text": "    let ghost i0 = i@;\n    proof { reveal_with_fuel(be_val, 3); axiom_be_fun(); }"},
             {"after": r"let \(i, version\) = [^;]*;", "text": "    proof { assert(version.0 as int == be16s(i0, 0)); assert(i@ =~= i0.subrange(2, i0.len() as int)); }"},
             {"after": r"let \(i, random\) = [^;]*;", "text": "    proof { assert(random@ =~= i0.subrange(2, 34)); assert(i@ =~= i0.subrange(34, i0.len() as int)); }"},
             {"after": r"let \(i, sidlen\) = [^;]*;", "text": "    proof { assert(sidlen == i0[34] && sidlen <= 32); assert(i@ =~= i0.subrange(35, i0.len() as int)); }"},
             {"after": r"let \(i, session_id\) = [^;]*;", "text": "    let ghost ok: int = 36 + sidlen as int;\n    proof { assert(sid_ok(i0, session_id)); assert(i@ =~= i0.subrange(ok - 1, i0.len() as int)); }"},
             {"after": r"let \(i, cookie\) = [^;]*;", "text": "    let ghost kl: int = i0[ok - 1] as int;\n    let ghost oc: int = ok + kl + 2;\n    proof { assert(cookie@ =~= i0.subrange(ok, ok + kl)); assert(i@ =~= i0.subrange(oc - 2, i0.len() as int)); }"},
             {"after": r"let \(i, ciphers_len\) = [^;]*;", "text": "    let ghost cl: int = ciphers_len as int;\n    let ghost ic = i@;\n    proof { assert(cl == be16s(i0, oc - 2)); assert(ic =~= i0.subrange(oc, i0.len() as int)); }"},
             {"after": r"let \(i, ciphers\) = [^;]*;", "text": "    proof { assert(i@ =~= i0.subrange(oc + cl, i0.len() as int)); assert forall|k: int| 0 <= k < cl / 2 implies (#[trigger] ciphers@[k]).0 as int == be16s(i0, oc + 2 * k) by { assert(be16s(ic, 2 * k) == be16s(i0, oc + 2 * k)); } }"},
             {"after": r"let \(i, comp_len\) = [^;]*;", "text": "    let ghost om: int = oc + cl + 1;\n    let ghost ml: int = comp_len as int;\n    let ghost im = i@;\n    proof { assert(ml == i0[om - 1]); assert(im =~= i0.subrange(om, i0.len() as int)); }"},
             {"after": r"let \(i, comp\) = [^;]*;", "text": "    proof { assert(i@ =~= i0.subrange(om + ml, i0.len() as int)); assert forall|k: int| 0 <= k < ml implies (#[trigger] comp@[k]).0 == i0[om + k] by { assert(im[k] == i0[om + k]); } }"},
         ],
         "contract": "    ensures dch_post(i@, r),"},
        blob("parse_tls_handshake_msg_serverkeyexchange", "ServerKeyExchange", closure=r"\|ext\| \{"),
        blob("parse_tls_handshake_msg_serverdone", "ServerDone"),
        blob("parse_tls_handshake_msg_certificateverify", "CertificateVerify"),
        blob("parse_tls_handshake_msg_finished", "Finished"),
        # ClientKeyExchange: a function RETURNING the parser closure.  R16: return type `impl FnMut` -> `impl Fn` (the closure
        # captures `len` by copy and mutates nothing: rustc accepts the same body at the stronger type); R9/R10 for the closures
        {"file": F_HS, "kind": "fn", "name": "parse_tls_clientkeyexchange", "returns": "f",
         "subst": [
             (r"pub\(crate\) fn parse_tls_clientkeyexchange\(\s*len: usize,\s*\) -> impl FnMut\(&\[u8\]\) -> IResult<&\[u8\], TlsClientKeyExchangeContents>",
              "pub fn parse_tls_clientkeyexchange<'a>(len: usize) -> impl Fn(&'a [u8]) -> IResult<&'a [u8], TlsClientKeyExchangeContents<'a>>"),
             (r"move \|i\| map\(take\(len\), TlsClientKeyExchangeContents::Unknown\)\(i\)",
              "move |i: &'a [u8]| -> (r2: IResult<&'a [u8], TlsClientKeyExchangeContents<'a>>) ensures cke_post(i@, len as int, r2) { map(take(len), |x: &'a [u8]| -> (y: TlsClientKeyExchangeContents<'a>) ensures y == TlsClientKeyExchangeContents::Unknown(x) { TlsClientKeyExchangeContents::Unknown(x) })(i) }"),
         ],
         "contract": """    ensures forall|i: &'a [u8]| #[trigger] f.requires((i,)),
        forall|i: &'a [u8], r: IResult<&'a [u8], TlsClientKeyExchangeContents<'a>>| #[trigger] f.ensures((i,), r) ==> cke_post(i@, len as int, r),"""},
        {"file": F_HS, "kind": "fn", "name": "parse_tls_handshake_msg_clientkeyexchange",
         "subst": [
             (r"fn parse_tls_handshake_msg_clientkeyexchange\(\s*i: &\[u8\],\s*len: usize,\s*\) -> IResult<&\[u8\], TlsMessageHandshake>",
              "fn parse_tls_handshake_msg_clientkeyexchange<'a>(i: &'a [u8], len: usize) -> IResult<&'a [u8], TlsMessageHandshake<'a>>"),
             (r"TlsMessageHandshake::ClientKeyExchange,", "|x: TlsClientKeyExchangeContents<'a>| -> (y: TlsMessageHandshake<'a>) ensures y == TlsMessageHandshake::ClientKeyExchange(x) { TlsMessageHandshake::ClientKeyExchange(x) },"),
         ],
         "contract": "    ensures blob_post(i@, len as int, r, |m: TlsMessageHandshake| match m { TlsMessageHandshake::ClientKeyExchange(TlsClientKeyExchangeContents::Unknown(b)) => Some(b@), _ => None }),"},
        {"file": "src/dtls.rs", "kind": "fn", "name": "parse_dtls_handshake_msg_server_hello_tlsv12",
         "subst": [(r"^fn parse_dtls_handshake_msg_server_hello_tlsv12\(\s*i: &\[u8\],\s*\) -> IResult<&\[u8\], DTLSMessageHandshakeBody>", "pub fn parse_dtls_handshake_msg_server_hello_tlsv12<'a>(i: &'a [u8]) -> IResult<&'a [u8], DTLSMessageHandshakeBody<'a>>"),
                   (r"DTLSMessageHandshakeBody::ServerHello,", "|x: TlsServerHelloContents<'a>| -> (y: DTLSMessageHandshakeBody<'a>) ensures y == DTLSMessageHandshakeBody::ServerHello(x) { DTLSMessageHandshakeBody::ServerHello(x) },")],
         "contract": "    ensures dtls_sh_post(i@, r),"},
        {"file": "src/dtls.rs", "kind": "fn", "name": "parse_dtls_handshake_msg_serverdone",
         "subst": [(r"^fn parse_dtls_handshake_msg_serverdone\(\s*i: &\[u8\],\s*len: usize,\s*\) -> IResult<&\[u8\], DTLSMessageHandshakeBody>", "pub fn parse_dtls_handshake_msg_serverdone<'a>(i: &'a [u8], len: usize) -> IResult<&'a [u8], DTLSMessageHandshakeBody<'a>>"),
                   (r"DTLSMessageHandshakeBody::ServerDone\)\(i\)", "|x: &'a [u8]| -> (y: DTLSMessageHandshakeBody<'a>) ensures y == DTLSMessageHandshakeBody::ServerDone(x) { DTLSMessageHandshakeBody::ServerDone(x) })(i)")],
         "contract": "    ensures dtls_blob_post(i@, len as int, r, |m: DTLSMessageHandshakeBody| match m { DTLSMessageHandshakeBody::ServerDone(b) => Some(b@), _ => None }),"},
        {"file": "src/dtls.rs", "kind": "fn", "name": "parse_dtls_handshake_msg_clientkeyexchange",
         "subst": [(r"^fn parse_dtls_handshake_msg_clientkeyexchange\(\s*i: &\[u8\],\s*len: usize,\s*\) -> IResult<&\[u8\], DTLSMessageHandshakeBody>", "pub fn parse_dtls_handshake_msg_clientkeyexchange<'a>(i: &'a [u8], len: usize) -> IResult<&'a [u8], DTLSMessageHandshakeBody<'a>>"),
                   (r"DTLSMessageHandshakeBody::ClientKeyExchange,", "|x: TlsClientKeyExchangeContents<'a>| -> (y: DTLSMessageHandshakeBody<'a>) ensures y == DTLSMessageHandshakeBody::ClientKeyExchange(x) { DTLSMessageHandshakeBody::ClientKeyExchange(x) },")],
         "contract": "    ensures dtls_blob_post(i@, len as int, r, |m: DTLSMessageHandshakeBody| match m { DTLSMessageHandshakeBody::ClientKeyExchange(TlsClientKeyExchangeContents::Unknown(b)) => Some(b@), _ => None }),"},
        {"file": "src/dtls.rs", "kind": "fn", "name": "parse_dtls_message_changecipherspec", "contract": "    ensures dtls_ccs_post(i@, r),",
         "subst": [(r"verify\(be_u8, \|&tag\| tag == 0x01\)", "verify(be_u8, |tag: &u8| -> (b: bool) ensures b == (*tag == 0x01) { *tag == 0x01 })")],
         "splices": [{"at_start": True, "text": "    proof { reveal_with_fuel(be_val, 2); }"}]},
    ] + newtype_items("TlsAlertSeverity", 1) + newtype_items("TlsAlertDescription", 1) + [
        {"file": "@expanded", "kind": "derived", "name": "TlsMessageAlert", "with_parse": True, "contract": "ensures alert_struct_post(orig_i@, r),",
         "splices": [{"at_start": True, "text": "    let ghost i0 = orig_i@;\n    proof { reveal_with_fuel(be_val, 2); }"},
                     {"after": r"let \(i, severity\) = [^;]*;", "text": "    proof { assert(severity.0 == i0[0]); assert(i@ =~= i0.subrange(1, i0.len() as int)); }"},
                     {"after": r"let \(i, code\) = [^;]*;", "text": "    proof { assert(code.0 == i0[1]); assert(i@ =~= i0.subrange(2, i0.len() as int)); }"}]},
        {"file": "src/dtls.rs", "kind": "fn", "name": "parse_dtls_message_alert", "contract": "    ensures dtls_alert_post(i@, r),"},
        {"file": F_HS, "kind": "fn", "name": "parse_tls_handshake_msg_key_update",
         "subst": [
             (r"fn parse_tls_handshake_msg_key_update\(i: &\[u8\]\) -> IResult<&\[u8\], TlsMessageHandshake>", "fn parse_tls_handshake_msg_key_update<'a>(i: &'a [u8]) -> IResult<&'a [u8], TlsMessageHandshake<'a>>"),
             (r"map\(be_u8, TlsMessageHandshake::KeyUpdate\)", "map(be_u8, |x: u8| -> (y: TlsMessageHandshake<'a>) ensures y == TlsMessageHandshake::KeyUpdate(x) { TlsMessageHandshake::KeyUpdate(x) })"),
         ],
         "splices": [{"at_start": True, "text": "    proof { reveal_with_fuel(be_val, 2); }"}],
         "contract": "    ensures i@.len() < 1 ==> is_incomplete(r), i@.len() >= 1 ==> (r is Ok && r->Ok_0.1 == TlsMessageHandshake::KeyUpdate(i@[0]) && r->Ok_0.0@ =~= i@.subrange(1, i@.len() as int)),"},
        {"file": F_HS, "kind": "fn", "name": "parse_tls_handshake_server_hello",
         "splices": [{"at_start": True, "text": "    proof { reveal_with_fuel(be_val, 3); }"}],
         "contract": "    ensures sh_post(i@, r),"},
        {"file": F_HS, "kind": "fn", "name": "parse_tls_handshake_msg_server_hello",
         "splices": [{"at_start": True, "text": "    proof { reveal_with_fuel(be_val, 3); }"}],
         "contract": "    ensures sh_msg_post(i@, r),"},
    ],
    "epilogue": ROUNDTRIP,
}
