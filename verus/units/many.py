# V-MANY (properties C03, C16, C02, C05, C10): the container / multi-record parsers - bodies that are
# `many1(complete(<fn item>))(i)`, `many0(complete(<fn item>))(i)` or a plain match - extracted verbatim
# and proved equal to the explicit accumulate-while-Ok loop over the single-item parser.
import os, sys
sys.path.insert(0, os.path.dirname(os.path.abspath(__file__)))
from states import UNIT as _ST, adt, F_HS, F_MSG, F_AL, F_EC

F_REC = "src/tls_record.rs"
F_EXT = "src/tls_extensions.rs"
F_DTLS = "src/dtls.rs"

_types = [it for it in _ST["items"] if it["kind"] in ("struct", "enum", "newtype_enum") and it["file"] in (F_HS, F_MSG, F_AL, F_EC)]

def abstract_parser(file, fn, spec, args="i: &[u8]", spec_args="i", ret="TlsMessage<'a>", extra_sig=""):
    """callee left abstract: r == spec(i) for an uninterpreted spec function (deterministic function of its arguments)"""
    items = [
        {"file": "-", "kind": "inline", "name": spec, "text": "pub uninterp spec fn %s<'a>(%s) -> IResult<&'a [u8], %s>;" % (spec, args.replace("&[u8]", "&'a [u8]"), ret)},
        {"file": file, "kind": "fn", "name": fn, "external_body": True, "contract": "    ensures r == %s(%s)," % (spec, spec_args)},
    ]
    if spec_args == "i":
        # the parser as a mathematical function + the facts that make it usable as a combinator argument
        items.append({"file": "-", "kind": "inline", "name": spec + "_fn", "text": """
pub open spec fn %(spec)s_fn<'a>() -> spec_fn(&'a [u8]) -> IResult<&'a [u8], %(ret)s> { |j: &'a [u8]| %(spec)s(j) }
// ASSUMED: the remainder is never longer than the input (OBLIGATION of the parser's Kani leaf harness: remainder is a suffix)
#[verifier::external_body]
pub proof fn axiom_nongrowing_%(spec)s<'a>(i: &'a [u8]) ensures %(spec)s(i) is Ok ==> %(spec)s(i)->Ok_0.0@.len() <= i@.len() {}
// ASSUMED: %(spec)s IS the function %(fn)s computes (definition of the uninterpreted %(spec)s)
#[verifier::external_body]
proof fn axiom_fun_of_%(fn)s<'a>() ensures fun_of(%(fn)s) == %(spec)s_fn() {}
proof fn lemma_is_fun_%(fn)s<'a>()
    ensures is_fun(%(fn)s), fun_of(%(fn)s) == %(spec)s_fn(),
{
    axiom_fun_of_%(fn)s();
    assert forall|j: &'a [u8]| (#[trigger] fun_of(%(fn)s)(j)) is Ok implies fun_of(%(fn)s)(j)->Ok_0.0@.len() <= j@.len() by {
        axiom_nongrowing_%(spec)s(j);
    }
}
""" % {"spec": spec, "fn": fn, "ret": ret}})
    return items

LEAF_AXIOMS = r'''
// ------------------------------------------------------------------ leaf contracts (ASSUMED here; OBLIGATIONS of the
// Kani full-domain / leaf harnesses fd_msg_ccs, fd_msg_alert, leaf_msg_appdata on the compiled code)
pub open spec fn ccs_post(i: &[u8], r: IResult<&[u8], TlsMessage>) -> bool {
    if i@.len() == 0 { r is Err && r->Err_0 is Incomplete }
    else if i@[0] == 1 { match r { Ok((rem, m)) => rem@ =~= i@.subrange(1, i@.len() as int) && m is ChangeCipherSpec, Err(_) => false } }
    else { r is Err && r->Err_0 is Error }
}
pub open spec fn alert_post(i: &[u8], r: IResult<&[u8], TlsMessage>) -> bool {
    if i@.len() < 2 { r is Err && r->Err_0 is Incomplete }
    else { match r {
        Ok((rem, TlsMessage::Alert(a))) => rem@ =~= i@.subrange(2, i@.len() as int) && a.severity.0 == i@[0] && a.code.0 == i@[1],
        _ => false } }
}
pub open spec fn appdata_post(i: &[u8], r: IResult<&[u8], TlsMessage>) -> bool {
    match r { Ok((rem, TlsMessage::ApplicationData(d))) => rem@.len() == 0 && d.blob@ =~= i@, _ => false }
}
#[verifier::external_body]
pub proof fn axiom_msg_ccs(i: &[u8]) ensures ccs_post(i, spec_msg_ccs(i)) {}
#[verifier::external_body]
pub proof fn axiom_msg_alert(i: &[u8]) ensures alert_post(i, spec_msg_alert(i)) {}
#[verifier::external_body]
pub proof fn axiom_msg_appdata(i: &[u8]) ensures appdata_post(i, spec_msg_appdata(i)) {}

// ------------------------------------------------------------------ container contract (from the property)
pub open spec fn is_incomplete<T>(r: IResult<&[u8], T>) -> bool { r is Err && r->Err_0 is Incomplete }

// many1(complete(p)) as the explicit loop over the single-message parser p
pub open spec fn repeat1<'a, O>(p: spec_fn(&'a [u8]) -> IResult<&'a [u8], O>, i: &'a [u8], r: IResult<&'a [u8], Vec<O>>) -> bool {
    many1_post(completed(p), i, r)
}

pub open spec fn prwh_post<'a>(i: &'a [u8], hdr: TlsRecordHeader, r: IResult<&'a [u8], Vec<TlsMessage<'a>>>) -> bool {
    let t = hdr.record_type.0;
    if t == 0x14 { repeat1(spec_msg_ccs_fn(), i, r) }
    else if t == 0x15 { repeat1(spec_msg_alert_fn(), i, r) }
    else if t == 0x16 { repeat1(spec_msg_handshake_fn(), i, r) }
    else if t == 0x17 {
        // one opaque application-data blob of any length (also empty): the whole payload, nothing left
        match r { Ok((rem, v)) => rem@.len() == 0 && v@.len() == 1 && v@[0] is ApplicationData && v@[0]->ApplicationData_0.blob@ =~= i@, Err(_) => false }
    }
    else if t == 0x18 {
        // one heartbeat message; a whole record never answers Incomplete
        r == complete_map(spec_msg_heartbeat(i, hdr.len), i)
    }
    else { r == Err::<(&[u8], Vec<TlsMessage>), Err<Error<&[u8]>>>(Err::Error(Error { input: i, code: ErrorKind::Switch })) }
}
'''

LEMMAS = r'''
// ------------------------------------------------------------------ consequences (C02 / C03 clauses)
// a loop over a parser that never answers Incomplete never answers Incomplete
proof fn lemma_loop_never_incomplete<'a, O>(p: spec_fn(&'a [u8]) -> IResult<&'a [u8], O>, i: &'a [u8], acc: Seq<O>, code: ErrorKind, r: IResult<&'a [u8], Vec<O>>)
    requires forall|j: &'a [u8]| !is_incomplete(#[trigger] p(j)), nongrowing(p), loop_from(p, i, acc, code, r),
    ensures !is_incomplete(r),
    decreases i@.len()
{
    match p(i) {
        Ok((i1, o)) => { if i1@.len() < i@.len() { lemma_loop_never_incomplete(p, i1, acc.push(o), code, r); } }
        _ => {}
    }
}

proof fn lemma_repeat1_never_incomplete<'a, O>(p: spec_fn(&'a [u8]) -> IResult<&'a [u8], O>, i: &'a [u8], r: IResult<&'a [u8], Vec<O>>)
    requires nongrowing(p), repeat1(p, i, r),
    ensures !is_incomplete(r),
{
    let q = completed(p);
    assert forall|j: &'a [u8]| !is_incomplete(#[trigger] q(j)) by {}
    assert forall|j: &'a [u8]| (#[trigger] q(j)) is Ok implies q(j)->Ok_0.0@.len() <= j@.len() by { assert(q(j) == p(j)); }
    match q(i) {
        Ok((i1, o)) => { lemma_loop_never_incomplete(q, i1, seq![o], ErrorKind::Many1, r); }
        Err(_) => {}
    }
}

proof fn lemma_nongrowing_fn<'a>()
    ensures nongrowing(spec_msg_ccs_fn()), nongrowing(spec_msg_alert_fn()), nongrowing(spec_msg_handshake_fn()), nongrowing(spec_plaintext_fn()),
{
    assert forall|j: &'a [u8]| (#[trigger] spec_msg_ccs_fn()(j)) is Ok implies spec_msg_ccs_fn()(j)->Ok_0.0@.len() <= j@.len() by { axiom_nongrowing_spec_msg_ccs(j); }
    assert forall|j: &'a [u8]| (#[trigger] spec_msg_alert_fn()(j)) is Ok implies spec_msg_alert_fn()(j)->Ok_0.0@.len() <= j@.len() by { axiom_nongrowing_spec_msg_alert(j); }
    assert forall|j: &'a [u8]| (#[trigger] spec_msg_handshake_fn()(j)) is Ok implies spec_msg_handshake_fn()(j)->Ok_0.0@.len() <= j@.len() by { axiom_nongrowing_spec_msg_handshake(j); }
    assert forall|j: &'a [u8]| (#[trigger] spec_plaintext_fn()(j)) is Ok implies spec_plaintext_fn()(j)->Ok_0.0@.len() <= j@.len() by { axiom_nongrowing_spec_plaintext(j); }
}

// C02: "a whole record never answers Incomplete", for every content type and payload
proof fn lemma_record_never_incomplete<'a>(i: &'a [u8], hdr: TlsRecordHeader, r: IResult<&'a [u8], Vec<TlsMessage<'a>>>)
    requires prwh_post(i, hdr, r),
    ensures !is_incomplete(r),
{
    let t = hdr.record_type.0;
    lemma_nongrowing_fn();
    if t == 0x14 { lemma_repeat1_never_incomplete(spec_msg_ccs_fn(), i, r); }
    else if t == 0x15 { lemma_repeat1_never_incomplete(spec_msg_alert_fn(), i, r); }
    else if t == 0x16 { lemma_repeat1_never_incomplete(spec_msg_handshake_fn(), i, r); }
}

// C16: many1(complete(p)) "fails if and only if the very first record does not parse", and otherwise returns Ok with
// the remainder standing at the first record that fails or is incomplete - for a record parser p that consumes input on
// success (a TLS/DTLS record is at least a header) and never answers Failure (nothing in this crate's parsers does).
proof fn lemma_loop_total<'a, O>(p: spec_fn(&'a [u8]) -> IResult<&'a [u8], O>, i: &'a [u8], acc: Seq<O>, r: IResult<&'a [u8], Vec<O>>)
    requires
        forall|j: &'a [u8]| (#[trigger] p(j)) is Ok ==> p(j)->Ok_0.0@.len() < j@.len(),
        forall|j: &'a [u8]| !((#[trigger] p(j)) is Err && p(j)->Err_0 is Failure),
        loop_from(completed(p), i, acc, ErrorKind::Many1, r),
    ensures
        r is Ok,
        r->Ok_0.1@.len() >= acc.len(),
        // the remainder stands where the single-record parser first does not succeed
        exists|j: &'a [u8]| j@ == r->Ok_0.0@ && !(#[trigger] p(j) is Ok),
    decreases i@.len()
{
    let q = completed(p);
    match q(i) {
        Ok((i1, o)) => { assert(q(i) == p(i)); lemma_loop_total(p, i1, acc.push(o), r); }
        Err(_) => { assert(i@ == r->Ok_0.0@ && !(p(i) is Ok)); }
    }
}

proof fn lemma_many1_fails_iff_first<'a, O>(p: spec_fn(&'a [u8]) -> IResult<&'a [u8], O>, i: &'a [u8], r: IResult<&'a [u8], Vec<O>>)
    requires
        forall|j: &'a [u8]| (#[trigger] p(j)) is Ok ==> p(j)->Ok_0.0@.len() < j@.len(),
        forall|j: &'a [u8]| !((#[trigger] p(j)) is Err && p(j)->Err_0 is Failure),
        repeat1(p, i, r),
    ensures
        r is Err <==> !(p(i) is Ok),
        r is Ok ==> r->Ok_0.1@.len() >= 1 && exists|j: &'a [u8]| j@ == r->Ok_0.0@ && !(#[trigger] p(j) is Ok),
{
    let q = completed(p);
    match q(i) {
        Ok((i1, o)) => { assert(q(i) == p(i)); lemma_loop_total(p, i1, seq![o], r); }
        Err(_) => { }
    }
}

// C03: an empty ChangeCipherSpec / alert payload is rejected; a malformed or cut-short first message
// never yields a value
proof fn lemma_first_message_decides<'a>(i: &'a [u8], hdr: TlsRecordHeader, r: IResult<&'a [u8], Vec<TlsMessage<'a>>>)
    requires prwh_post(i, hdr, r),
    ensures
        (hdr.record_type.0 == 0x14 || hdr.record_type.0 == 0x15) && i@.len() == 0 ==> r is Err,
        hdr.record_type.0 == 0x14 && spec_msg_ccs(i) is Err ==> r is Err,
        hdr.record_type.0 == 0x15 && spec_msg_alert(i) is Err ==> r is Err,
        hdr.record_type.0 == 0x16 && spec_msg_handshake(i) is Err ==> r is Err,
        hdr.record_type.0 < 0x14 || hdr.record_type.0 > 0x18 ==> r is Err,
{
    axiom_msg_ccs(i);
    axiom_msg_alert(i);
}

// C03: alerts decode in wire order with exact field values; an odd trailing byte is left as remainder
pub open spec fn alerts_match(i: Seq<u8>, from: int, v: Seq<TlsMessage>, k0: int) -> bool {
    forall|k: int| k0 <= k < v.len() ==> (#[trigger] v[k]) is Alert
        && v[k]->Alert_0.severity.0 == i[from + 2 * (k - k0)] && v[k]->Alert_0.code.0 == i[from + 2 * (k - k0) + 1]
}

proof fn lemma_alert_loop<'a>(whole: Seq<u8>, off: int, i: &'a [u8], acc: Seq<TlsMessage<'a>>, r: IResult<&'a [u8], Vec<TlsMessage<'a>>>)
    requires
        0 <= off <= whole.len(), i@ =~= whole.subrange(off, whole.len() as int),
        loop_from(completed(spec_msg_alert_fn()), i, acc, ErrorKind::Many1, r),
    ensures
        r is Ok,
        r->Ok_0.1@.len() == acc.len() + (whole.len() - off) / 2,
        r->Ok_0.1@.subrange(0, acc.len() as int) =~= acc,
        alerts_match(whole, off, r->Ok_0.1@, acc.len() as int),
        r->Ok_0.0@ =~= whole.subrange(whole.len() - (whole.len() - off) % 2, whole.len() as int),
    decreases i@.len()
{
    let p = completed(spec_msg_alert_fn());
    axiom_msg_alert(i);
    if i@.len() >= 2 {
        match p(i) {
            Ok((i1, o)) => {
                assert(i1@ =~= whole.subrange(off + 2, whole.len() as int));
                lemma_alert_loop(whole, off + 2, i1, acc.push(o), r);
                let v = r->Ok_0.1@;
                assert(v.subrange(0, acc.len() as int) =~= v.subrange(0, acc.len() as int + 1).subrange(0, acc.len() as int));
                assert(v[acc.len() as int] == v.subrange(0, acc.len() as int + 1)[acc.len() as int]);
                assert forall|k: int| acc.len() <= k < v.len() implies (#[trigger] v[k]) is Alert
                    && v[k]->Alert_0.severity.0 == whole[off + 2 * (k - acc.len())] && v[k]->Alert_0.code.0 == whole[off + 2 * (k - acc.len()) + 1] by {
                    if k > acc.len() { assert(off + 2 + 2 * (k - (acc.len() + 1)) == off + 2 * (k - acc.len())); }
                }
            }
            Err(_) => {}
        }
    }
}
'''

UNIT = {
    "name": "many",
    "property": ["C03", "C16", "C02"],
    "prelude": ["shim_nom.rs"],
    "items": _types + [
        adt(F_REC, "struct", "TlsRecordType"),
        adt(F_REC, "newtype_enum", "TlsRecordType"),
        adt(F_REC, "struct", "TlsRecordHeader"),
        adt(F_REC, "struct", "TlsPlaintext"),
    ]
    + abstract_parser(F_MSG, "parse_tls_message_changecipherspec", "spec_msg_ccs")
    + abstract_parser(F_MSG, "parse_tls_message_alert", "spec_msg_alert")
    + abstract_parser(F_MSG, "parse_tls_message_applicationdata", "spec_msg_appdata")
    + abstract_parser(F_HS, "parse_tls_message_handshake", "spec_msg_handshake")
    + abstract_parser(F_MSG, "parse_tls_message_heartbeat", "spec_msg_heartbeat", args="i: &[u8], tls_plaintext_len: u16", spec_args="i, tls_plaintext_len", ret="Vec<TlsMessage<'a>>")
    + abstract_parser(F_REC, "parse_tls_plaintext", "spec_plaintext", ret="TlsPlaintext<'a>")
    + [
        {"file": "-", "kind": "inline", "name": "container-contract", "text": LEAF_AXIOMS},
        {"file": F_REC, "kind": "fn", "name": "parse_tls_record_with_header", "contract": """
    ensures prwh_post(i, *hdr, r),
""", "splices": [{"at_start": True, "text": """    proof {
        lemma_is_fun_parse_tls_message_changecipherspec();
        lemma_is_fun_parse_tls_message_alert();
        lemma_is_fun_parse_tls_message_handshake();
        lemma_is_fun_parse_tls_message_applicationdata();
        axiom_msg_appdata(i);
    }"""}]},
        {"file": F_REC, "kind": "fn", "name": "tls_parser", "contract": """
    ensures r == spec_plaintext(i),
"""},
        {"file": F_REC, "kind": "fn", "name": "tls_parser_many", "contract": """
    ensures repeat1(spec_plaintext_fn(), i, r),
""", "splices": [{"at_start": True, "text": "    proof { lemma_is_fun_parse_tls_plaintext(); }"}]},
    ],
    "epilogue": LEMMAS,
}
