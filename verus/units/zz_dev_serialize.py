# V-SERIALIZE (property C09): the serializer functions of src/tls_serialize.rs, extracted verbatim (R20: SerializeFn alias
# written out, R21: tuple((..)) -> tupleN(..), R9: closure signatures + contracts) and proved against a reference encoding
# written from RFC 5246 / 8446: which bytes each serializer emits (every length prefix = the byte length of what it
# prefixes), or that it fails with NotYetImplemented - for every value and every length, relative to the cookie-factory shim.
import os, sys
sys.path.insert(0, os.path.dirname(os.path.abspath(__file__)))
from states import adt, UNIT as _ST
import dispatch_ext as _de

F_SER = "src/tls_serialize.rs"
F_HS = "src/tls_handshake.rs"
F_MSG = "src/tls_message.rs"
F_AL = "src/tls_alert.rs"
F_EC = "src/tls_ec.rs"
F_REC = "src/tls_record.rs"
F_EXT = "src/tls_extensions.rs"
_types = [it for it in _ST["items"] if it["kind"] in ("struct", "enum", "newtype_enum") and it["file"] in (F_HS, F_MSG, F_AL, F_EC)]
_ext_types = [it for it in _de.UNIT["items"] if it["kind"] in ("struct", "enum", "newtype_enum") and it not in _types]

SPEC = r'''
pub open spec fn bytes(b: Seq<u8>) -> GenOut { GenOut::Bytes(b) }
// a u16 / u24 length prefix in front of what `o` emits: the length field is the byte length of what it prefixes
// (as the code computes it: the u64 byte count cast to u16 / u32 and, for u24, its low 24 bits)
pub open spec fn len16_out(o: GenOut) -> GenOut {
    match o { GenOut::Fail(e) => GenOut::Fail(e), GenOut::Bytes(b) => GenOut::Bytes(u16_bytes(b.len() as u64 as u16) + b) }
}
pub open spec fn len24_out(o: GenOut) -> GenOut {
    match o { GenOut::Fail(e) => GenOut::Fail(e), GenOut::Bytes(b) => GenOut::Bytes(u24_bytes(b.len() as u64 as u32) + b) }
}
// handshake message = type byte, u24 body length, body
pub open spec fn hs_out(t: u8, body: GenOut) -> GenOut { seq_out(bytes(seq![t]), len24_out(body)) }
// session id: u8 length (0 when absent), then the bytes
pub open spec fn sid_out(sid: Option<&[u8]>) -> GenOut {
    match sid { None => bytes(seq![0u8]), Some(o) => bytes(seq![o@.len() as u8] + o@) }
}
// optional extension block: u16 length + bytes; absent = a zero length (what this serializer writes)
pub open spec fn ext_out(e: Option<&[u8]>) -> GenOut {
    match e { None => bytes(u16_bytes(0)), Some(o) => bytes(u16_bytes(o@.len() as u16) + o@) }
}
pub open spec fn server_hello_out(m: TlsServerHelloContents) -> GenOut {
    hs_out(2, seq_out(bytes(u16_bytes(m.version.0)), seq_out(bytes(m.random@), seq_out(sid_out(m.session_id),
        seq_out(bytes(u16_bytes(m.cipher.0)), seq_out(bytes(seq![m.compression.0]), ext_out(m.ext)))))))
}
pub open spec fn server_hello_d18_out(m: TlsServerHelloV13Draft18Contents) -> GenOut {
    hs_out(2, seq_out(bytes(u16_bytes(m.version.0)), seq_out(bytes(m.random@), seq_out(bytes(u16_bytes(m.cipher.0)), ext_out(m.ext)))))
}
pub open spec fn cke_out(m: TlsClientKeyExchangeContents) -> GenOut {
    match m {
        TlsClientKeyExchangeContents::Unknown(b) => hs_out(16, bytes(b@)),
        TlsClientKeyExchangeContents::Dh(b) => hs_out(16, len16_out(bytes(b@))),
        TlsClientKeyExchangeContents::Ecdh(p) => hs_out(16, seq_out(bytes(seq![p.point@.len() as u8]), bytes(p.point@))),
    }
}
'''

R = ["R20", "R21"]
def clo(post):
    """R9: the returned closure's signature made explicit, with its contract"""
    return (r"move \|out\|", "move |out: WriteContext<W>| -> (r2: GenResult<W>) ensures %s" % post)

def clo_expr(post):
    """the same for a closure whose body is a bare expression (`move |out| match m {..}`): Verus wants a block after a return type"""
    return (r"(?s)move \|out\| (.*\S)\s*\}\s*$", "move |out: WriteContext<W>| -> (r2: GenResult<W>) ensures %s { \\1 }\n}" % post)

LEN = lambda n: {"file": F_SER, "kind": "fn", "name": "length_be_u%d" % n, "rewrites": R,
    "subst": [clo("forall|o: GenOut| #![trigger emits(f, o)] emits(f, o) ==> gen_post(out, r2, len%d_out(o))" % n),
              (r"gen\(&f, Vec::new\(\)\)", "gen_ref(&f, Vec::new())"),      # shim gen takes the serializer by reference (the call passes `&f`)
              (r"slice\(buf\)", "slice_vec(buf)")],                        # the Vec instance of cookie-factory's slice<S: AsRef<[u8]>>
    "contract": "    requires callable(f),\n    ensures callable(r), forall|o: GenOut| #![trigger emits(f, o)] emits(f, o) ==> emits(r, len%d_out(o))," % n}

def hs_type(name):
    return (r"u8::from\(TlsHandshakeType::%s\)" % name, "u8_from_hstype(TlsHandshakeType::%s)" % name)

UNIT = {
    "name": "serialize",
    "property": ["C09"],
    "prelude": ["shim_cf.rs"],
    "items": _types + [adt(F_HS, "struct", "TlsHandshakeType"), adt(F_HS, "newtype_enum", "TlsHandshakeType")] + [
        {"file": "-", "kind": "inline", "name": "serialize-contracts", "text": SPEC},
        # R8: From<TlsHandshakeType> for u8 lifted to a free fn (a foreign-trait impl cannot carry an ensures)
        {"file": F_HS, "kind": "method_as_fn", "name": "from", "as": "u8_from_hstype", "header": r"^impl From<TlsHandshakeType> for u8\s*\{",
         "contract": "    ensures r == v.0,"},
        LEN(16), LEN(24),
        {"file": F_SER, "kind": "fn", "name": "gen_tls_hellorequest", "rewrites": R, "subst": [hs_type("HelloRequest")],
         "splices": [{"at_start": True, "text": "    proof { assert(u24_bytes(0) =~= seq![0u8, 0u8, 0u8]) by { assert(((0u32 >> 16) & 0xff) as u8 == 0 && ((0u32 >> 8) & 0xff) as u8 == 0 && (0u32 & 0xff) as u8 == 0) by (bit_vector); } }"}],
         "contract": "    ensures emits(r, seq_out(bytes(seq![0u8]), bytes(seq![0u8, 0u8, 0u8]))),"},
        {"file": F_SER, "kind": "fn", "name": "gen_tls_finished", "rewrites": R, "subst": [hs_type("Finished")],
         "contract": "    ensures emits(r, hs_out(20, bytes(m@))),"},
        {"file": F_SER, "kind": "fn", "name": "gen_tls_clientkeyexchange_unknown", "rewrites": R, "subst": [hs_type("ClientKeyExchange")],
         "contract": "    ensures emits(r, hs_out(16, bytes(m@))),"},
        {"file": F_SER, "kind": "fn", "name": "gen_tls_clientkeyexchange_dh", "rewrites": R, "subst": [hs_type("ClientKeyExchange")],
         "contract": "    ensures emits(r, hs_out(16, len16_out(bytes(m@)))),"},
        {"file": F_SER, "kind": "fn", "name": "gen_tls_clientkeyexchange_ecdh", "rewrites": R, "subst": [hs_type("ClientKeyExchange")],
         "contract": "    ensures emits(r, hs_out(16, seq_out(bytes(seq![m.point@.len() as u8]), bytes(m.point@)))),"},
        {"file": F_SER, "kind": "fn", "name": "gen_tls_sessionid", "rewrites": R, "subst": [clo_expr("gen_post(out, r2, sid_out(*m))")],
         "contract": "    ensures emits(r, sid_out(*m)),"},
        {"file": F_SER, "kind": "fn", "name": "maybe_extensions", "rewrites": R, "subst": [clo_expr("gen_post(out, r2, ext_out(*m))")],
         "contract": "    ensures emits(r, ext_out(*m)),"},
        {"file": F_SER, "kind": "fn", "name": "gen_tls_serverhello", "rewrites": R, "subst": [hs_type("ServerHello")],
         "contract": "    ensures emits(r, server_hello_out(*m)),"},
        {"file": F_SER, "kind": "fn", "name": "gen_tls_serverhellodraft18", "rewrites": R, "subst": [hs_type("ServerHello")],
         "contract": "    ensures emits(r, server_hello_d18_out(*m)),"},
        {"file": F_SER, "kind": "fn", "name": "gen_tls_clientkeyexchange", "rewrites": R, "subst": [clo_expr("gen_post(out, r2, cke_out(*m))")],
         "contract": "    ensures emits(r, cke_out(*m)),"},
        {"file": F_SER, "kind": "fn", "name": "gen_tls_changecipherspec", "rewrites": R,
         "contract": "    ensures emits(r, bytes(seq![1u8])),"},
    ],
    "epilogue": "",
}
