# V-CIPHERS (property C12, derived sizes): TlsCipherSuite::enc_key_size / enc_block_size / mac_length extracted verbatim
# and proved against the tables the property states, for EVERY value of the structure (not only the 352 registry rows;
# that the rows' mac_size equals 8 x mac_length is a data fact decided by Kani fd_cipher_sizes / fd_c12_rows).
import os, sys
sys.path.insert(0, os.path.dirname(os.path.abspath(__file__)))
from states import adt

F_CI = "src/tls_ciphers.rs"
F_HS = "src/tls_handshake.rs"

SPEC = r'''
// block size: 8 for DES / 3DES / IDEA / RC2, 16 for AES / ARIA / Camellia / SEED / SM4, 0 otherwise (null and stream / AEAD-only ciphers)
pub open spec fn block_size_of(e: TlsCipherEnc) -> int {
    match e {
        TlsCipherEnc::Des | TlsCipherEnc::TripleDes | TlsCipherEnc::Idea | TlsCipherEnc::Rc2 => 8,
        TlsCipherEnc::Aes | TlsCipherEnc::Aria | TlsCipherEnc::Camellia | TlsCipherEnc::Seed | TlsCipherEnc::Sm4 => 16,
        _ => 0,
    }
}
// MAC length: 0 for null / AEAD, 16 / 20 / 32 / 48 / 64 for HMAC-MD5 / SHA1 / SHA256 / SHA384 / SHA512
pub open spec fn mac_length_of(m: TlsCipherMac) -> int {
    match m {
        TlsCipherMac::Null => 0, TlsCipherMac::Aead => 0, TlsCipherMac::HmacMd5 => 16, TlsCipherMac::HmacSha1 => 20,
        TlsCipherMac::HmacSha256 => 32, TlsCipherMac::HmacSha384 => 48, TlsCipherMac::HmacSha512 => 64,
    }
}
'''

UNIT = {
    "name": "ciphers",
    "property": ["C12"],
    "prelude": [],
    "items": [adt(F_CI, "enum", n) for n in ("TlsCipherKx", "TlsCipherAu", "TlsCipherEnc", "TlsCipherEncMode", "TlsCipherMac", "TlsPRF")] + [
        adt(F_HS, "struct", "TlsCipherSuiteID"),
        dict(adt(F_CI, "struct", "TlsCipherSuite"), subst=[(r"#\[derive\([^)]*\)\]\n", "")]),     # see unit accessors
        {"file": "-", "kind": "inline", "name": "size-tables", "text": SPEC},
        {"file": F_CI, "kind": "impl", "name": "TlsCipherSuite", "methods": {
            "from_id": {"skip": True}, "from_name": {"skip": True},       # registry lookups: Kani (fd_from_id, cipher_by_name stand-in)
            "enc_key_size": {"contract": "        ensures r as int == self.enc_size as int / 8,",
                             # solver hint only (shift form of the division): keeps a `>> 3` rewrite of the body from raising a false alarm
                             "splices": [{"at_start": True, "text": "        proof { let x = self.enc_size; assert(x >> 3 == x / 8) by (bit_vector); }"}]},
            "enc_block_size": {"contract": "        ensures r as int == block_size_of(self.enc),"},
            "mac_length": {"contract": "        ensures r as int == mac_length_of(self.mac),"},
        }},
    ],
    "epilogue": "",
}
