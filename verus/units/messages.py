# V-MESSAGES (properties C03, C01, C06, C11): heartbeat and application-data message parsers extracted verbatim,
# proved for every input length and every record length value.
import os, sys
sys.path.insert(0, os.path.dirname(os.path.abspath(__file__)))
from states import UNIT as _ST, adt, F_HS, F_MSG, F_AL, F_EC
from derived_common import newtype_items, INT_SHIMS

_types = [it for it in _ST["items"] if it["kind"] in ("struct", "enum", "newtype_enum") and it["file"] in (F_HS, F_MSG, F_AL, F_EC)]

SPEC = r'''
pub open spec fn be16s(s: Seq<u8>, o: int) -> int { (s[o] as int) * 256 + (s[o + 1] as int) }


// heartbeat (RFC 6520 4): type u8, payload_length u16, payload, then padding (left as remainder);
// a record shorter than the 3-byte header is rejected; a payload_length beyond the data never yields a value
pub open spec fn heartbeat_post(i: Seq<u8>, rec_len: u16, r: IResult<&[u8], Vec<TlsMessage>>) -> bool {
    if i.len() < 3 { r is Err && r->Err_0 is Incomplete }
    else if rec_len < 3 { r is Err && r->Err_0 is Error && r->Err_0->Error_0.code == ErrorKind::Verify }
    else {
        let pl = be16s(i, 1);
        if i.len() < 3 + pl { r is Err && r->Err_0 is Incomplete }
        else { match r {
            Ok((rem, v)) => v@.len() == 1 && (match v@[0] {
                TlsMessage::Heartbeat(h) => h.heartbeat_type.0 == i[0] && h.payload_len as int == pl && h.payload@ =~= i.subrange(3, 3 + pl),
                _ => false }) && rem@ =~= i.subrange(3 + pl, i.len() as int),
            Err(_) => false } }
    }
}

// ChangeCipherSpec (RFC 5246 7.1): the single byte 1; any other byte is rejected
pub open spec fn ccs_post(i: Seq<u8>, r: IResult<&[u8], TlsMessage>) -> bool {
    if i.len() < 1 { r is Err && r->Err_0 is Incomplete }
    else if i[0] != 1 { r is Err && r->Err_0 is Error && r->Err_0->Error_0.code == ErrorKind::Verify }
    else { match r { Ok((rem, TlsMessage::ChangeCipherSpec)) => rem@ =~= i.subrange(1, i.len() as int), _ => false } }
}
// Alert (RFC 5246 7.2): level byte, description byte - any values
pub open spec fn alert_struct_post(i: Seq<u8>, r: IResult<&[u8], TlsMessageAlert>) -> bool {
    if i.len() < 2 { r is Err && r->Err_0 is Incomplete }
    else { match r { Ok((rem, a)) => a.severity.0 == i[0] && a.code.0 == i[1] && rem@ =~= i.subrange(2, i.len() as int), Err(_) => false } }
}
pub open spec fn alert_post(i: Seq<u8>, r: IResult<&[u8], TlsMessage>) -> bool {
    if i.len() < 2 { r is Err && r->Err_0 is Incomplete }
    else { match r { Ok((rem, TlsMessage::Alert(a))) => a.severity.0 == i[0] && a.code.0 == i[1] && rem@ =~= i.subrange(2, i.len() as int), _ => false } }
}
'''

UNIT = {
    "name": "messages",
    "needs_expanded": True,
    "property": ["C03", "C01", "C06", "C11"],
    "prelude": ["shim_nom.rs"],
    "items": _types + [
        {"file": "-", "kind": "inline", "name": "message-contracts", "text": INT_SHIMS + SPEC},
    ] + newtype_items("TlsHeartbeatMessageType", 1) + [
        {"file": F_MSG, "kind": "fn", "name": "parse_tls_message_heartbeat", "contract": "    ensures heartbeat_post(i@, tls_plaintext_len, r),",
         "splices": [{"at_start": True, "text": "    let ghost i0 = i@;\n    proof { reveal_with_fuel(be_val, 3); }"},
                     {"after": r"let \(i, heartbeat_type\) = TlsHeartbeatMessageType::parse\(i\)\?;", "text": "    let ghost i1 = i@;\n    proof { assert(i1 =~= i0.subrange(1, i0.len() as int)); assert(heartbeat_type.0 == i0[0]); }"},
                     {"after": r"let \(i, payload_len\) = be_u16\(i\)\?;", "text": "    let ghost i2 = i@;\n    proof { assert(i1.len() >= 2); assert(i2 =~= i0.subrange(3, i0.len() as int)); assert(payload_len as int == be16s(i0, 1)); }"},
                     {"after": r"let \(i, payload\) = take\(payload_len as usize\)\(i\)\?;", "text": "    proof { let pl = payload_len as int; assert(payload@ =~= i0.subrange(3, 3 + pl)); assert(i@ =~= i0.subrange(3 + pl, i0.len() as int)); }"}]},
        {"file": F_MSG, "kind": "fn", "name": "parse_tls_message_applicationdata", "contract": """
    ensures r is Ok, r->Ok_0.0@.len() == 0, r->Ok_0.1 is ApplicationData, r->Ok_0.1->ApplicationData_0.blob@ =~= i@,
"""},
        {"file": F_MSG, "kind": "fn", "name": "parse_tls_message_changecipherspec", "contract": "    ensures ccs_post(i@, r),",
         # R15: closure parameter pattern `&tag` -> parameter `tag: &u8` (body `tag` -> `*tag`), with its (trivial) contract
         "subst": [(r"verify\(be_u8, \|&tag\| tag == 0x01\)", "verify(be_u8, |tag: &u8| -> (b: bool) ensures b == (*tag == 0x01) { *tag == 0x01 })")],
         "splices": [{"at_start": True, "text": "    proof { reveal_with_fuel(be_val, 2); }"}]},
    ] + [dict(it, with_parse=False) for it in newtype_items("TlsAlertSeverity", 1) + newtype_items("TlsAlertDescription", 1)] + [
        {"file": "@expanded", "kind": "derived", "name": "TlsMessageAlert", "with_parse": True, "contract": "ensures alert_struct_post(orig_i@, r),",
         "splices": [{"at_start": True, "text": "    let ghost i0 = orig_i@;\n    proof { reveal_with_fuel(be_val, 2); }"},
                     {"after": r"let \(i, severity\) = [^;]*;", "text": "    proof { assert(severity.0 == i0[0]); assert(i@ =~= i0.subrange(1, i0.len() as int)); }"},
                     {"after": r"let \(i, code\) = [^;]*;", "text": "    proof { assert(code.0 == i0[1]); assert(i@ =~= i0.subrange(2, i0.len() as int)); }"}]},
        {"file": F_MSG, "kind": "fn", "name": "parse_tls_message_alert", "contract": "    ensures alert_post(i@, r),"},
    ],
    "epilogue": "",
}
