# V-STATES  (property C08)
# tls_state_transition / tls_state_transition_handshake extracted verbatim (R0, R1, R3, R5, R6)
# and proved equal to an independently written transition table, for ALL message contents.

F_ST = "src/tls_states.rs"
F_HS = "src/tls_handshake.rs"
F_MSG = "src/tls_message.rs"
F_AL = "src/tls_alert.rs"
F_EC = "src/tls_ec.rs"

import re as _re
def _shared(path):
    out = []
    for l in open(path).read().split("\n"):
        if l.startswith("use ") or l.startswith("#[derive"):
            continue
        out.append(l)
    return _re.sub(r"\bpub fn\b", "pub open spec fn", "\n".join(out))

TABLE = _shared("/verif/contracts/states_table.rs") + r'''
pub open spec fn hs_kind_of(m: TlsMessageHandshake) -> Kind {
    match m {
        TlsMessageHandshake::HelloRequest => Kind::HelloRequest,
        TlsMessageHandshake::ClientHello(c) => if c.session_id is Some { Kind::ClientHelloSid } else { Kind::ClientHelloNoSid },
        TlsMessageHandshake::ServerHello(_) => Kind::ServerHello,
        TlsMessageHandshake::ServerHelloV13Draft18(_) => Kind::ServerHelloV13Draft18,
        TlsMessageHandshake::NewSessionTicket(_) => Kind::NewSessionTicket,
        TlsMessageHandshake::EndOfEarlyData => Kind::EndOfEarlyData,
        TlsMessageHandshake::HelloRetryRequest(_) => Kind::HelloRetryRequest,
        TlsMessageHandshake::Certificate(_) => Kind::Certificate,
        TlsMessageHandshake::ServerKeyExchange(_) => Kind::ServerKeyExchange,
        TlsMessageHandshake::CertificateRequest(_) => Kind::CertificateRequest,
        TlsMessageHandshake::ServerDone(_) => Kind::ServerDone,
        TlsMessageHandshake::CertificateVerify(_) => Kind::CertificateVerify,
        TlsMessageHandshake::ClientKeyExchange(_) => Kind::ClientKeyExchange,
        TlsMessageHandshake::Finished(_) => Kind::Finished,
        TlsMessageHandshake::CertificateStatus(_) => Kind::CertificateStatus,
        TlsMessageHandshake::NextProtocol(_) => Kind::NextProtocol,
        TlsMessageHandshake::KeyUpdate(_) => Kind::KeyUpdate,
    }
}

pub open spec fn kind_of(m: TlsMessage) -> Kind {
    match m {
        TlsMessage::Handshake(h) => hs_kind_of(h),
        TlsMessage::ChangeCipherSpec => Kind::Ccs,
        TlsMessage::Alert(a) => if a.severity.0 == 1 { Kind::AlertWarning } else { Kind::AlertOther },
        TlsMessage::ApplicationData(_) => Kind::AppData,
        TlsMessage::Heartbeat(_) => Kind::Heartbeat,
    }
}

pub open spec fn is_handshake_kind(k: Kind) -> bool {
    !(k is Ccs || k is AlertWarning || k is AlertOther || k is AppData || k is Heartbeat)
}

pub open spec fn as_opt(r: Result<TlsState, StateChangeError>) -> Option<TlsState> {
    match r { Ok(s) => Some(s), Err(_) => None }
}
'''

LEMMAS = r'''
// ------------------------------------------------------------------ oracle sanity + history lemmas
// run the table over a finite message/direction sequence
pub open spec fn run(s: TlsState, ks: Seq<(Kind, bool)>) -> Option<TlsState>
    decreases ks.len()
{
    if ks.len() == 0 { Some(s) } else {
        match table(s, ks[0].0, ks[0].1) {
            Some(s1) => run(s1, ks.subrange(1, ks.len() as int)),
            None => None,
        }
    }
}

// exec sequence semantic: fold tls_state_transition
pub open spec fn kinds(ms: Seq<(TlsMessage, bool)>) -> Seq<(Kind, bool)> {
    Seq::new(ms.len(), |i: int| (kind_of(ms[i].0), ms[i].1))
}

proof fn lemma_documented_flows()
    ensures
        // full handshake with CertificateStatus, SKE, no client cert
        run(TlsState::None, seq![
            (Kind::ClientHelloNoSid, true), (Kind::ServerHello, false), (Kind::Certificate, false),
            (Kind::CertificateStatus, false), (Kind::ServerKeyExchange, false), (Kind::ServerDone, false),
            (Kind::ClientKeyExchange, true), (Kind::Ccs, true), (Kind::NewSessionTicket, false), (Kind::Ccs, false)])
            == Some(TlsState::SessionEncrypted),
{
    reveal_with_fuel(run, 12);
    let ks = seq![
            (Kind::ClientHelloNoSid, true), (Kind::ServerHello, false), (Kind::Certificate, false),
            (Kind::CertificateStatus, false), (Kind::ServerKeyExchange, false), (Kind::ServerDone, false),
            (Kind::ClientKeyExchange, true), (Kind::Ccs, true), (Kind::NewSessionTicket, false), (Kind::Ccs, false)];
    lemma_run_steps(TlsState::None, ks);
}

// helper: unfold run step by step (each subrange is a fresh Seq, so spell the unrolling out)
pub open spec fn run_iter(s: TlsState, ks: Seq<(Kind, bool)>, i: int) -> Option<TlsState>
    decreases ks.len() - i
{
    if i < 0 || i >= ks.len() { Some(s) } else {
        match table(s, ks[i].0, ks[i].1) {
            Some(s1) => run_iter(s1, ks, i + 1),
            None => None,
        }
    }
}

proof fn lemma_run_iter(s: TlsState, ks: Seq<(Kind, bool)>, i: int)
    requires 0 <= i <= ks.len()
    ensures run(s, ks.subrange(i, ks.len() as int)) == run_iter(s, ks, i)
    decreases ks.len() - i
{
    let sub = ks.subrange(i, ks.len() as int);
    if i < ks.len() {
        assert(sub[0] == ks[i]);
        assert(sub.subrange(1, sub.len() as int) =~= ks.subrange(i + 1, ks.len() as int));
        match table(s, ks[i].0, ks[i].1) {
            Some(s1) => { lemma_run_iter(s1, ks, i + 1); }
            None => {}
        }
    }
}

proof fn lemma_run_steps(s: TlsState, ks: Seq<(Kind, bool)>)
    ensures run(s, ks) == run_iter(s, ks, 0)
{
    assert(ks.subrange(0, ks.len() as int) =~= ks);
    lemma_run_iter(s, ks, 0);
}

proof fn lemma_flow_client_cert()
    ensures run_iter(TlsState::None, seq![
            (Kind::ClientHelloNoSid, true), (Kind::ServerHello, false), (Kind::Certificate, false),
            (Kind::ServerKeyExchange, false), (Kind::CertificateRequest, false), (Kind::ServerDone, false),
            (Kind::Certificate, true), (Kind::ClientKeyExchange, true), (Kind::CertificateVerify, true),
            (Kind::Ccs, true), (Kind::Ccs, false)], 0) == Some(TlsState::SessionEncrypted),
{
    reveal_with_fuel(run_iter, 13);
}

proof fn lemma_flow_anonymous_and_nocert_ske()
    ensures
        run_iter(TlsState::None, seq![
            (Kind::ClientHelloNoSid, true), (Kind::ServerHello, false), (Kind::ServerKeyExchange, false),
            (Kind::ServerDone, false), (Kind::ClientKeyExchange, true), (Kind::Ccs, true), (Kind::Ccs, false)], 0)
            == Some(TlsState::SessionEncrypted),
        run_iter(TlsState::None, seq![
            (Kind::ClientHelloNoSid, true), (Kind::ServerHello, false), (Kind::Certificate, false),
            (Kind::ServerDone, false), (Kind::ClientKeyExchange, true), (Kind::Ccs, true), (Kind::Ccs, false)], 0)
            == Some(TlsState::SessionEncrypted),
{
    reveal_with_fuel(run_iter, 9);
}

proof fn lemma_flow_resumption()
    ensures
        // resumption
        run_iter(TlsState::None, seq![
            (Kind::ClientHelloSid, true), (Kind::ServerHello, false), (Kind::Ccs, false), (Kind::Ccs, false)], 0)
            == Some(TlsState::SessionEncrypted),
        // fallback to a full handshake
        run_iter(TlsState::None, seq![
            (Kind::ClientHelloSid, true), (Kind::ServerHello, false), (Kind::Certificate, false),
            (Kind::ServerKeyExchange, false), (Kind::ServerDone, false), (Kind::ClientKeyExchange, true),
            (Kind::Ccs, true), (Kind::Ccs, false)], 0)
            == Some(TlsState::SessionEncrypted),
        // 0-RTT CCS from the client is tolerated while asking for resumption
        run_iter(TlsState::None, seq![(Kind::ClientHelloSid, true), (Kind::Ccs, true)], 0) == Some(TlsState::AskResumeSession),
        // TLS 1.3 draft 18
        run_iter(TlsState::None, seq![(Kind::ClientHelloNoSid, true), (Kind::ServerHelloV13Draft18, false), (Kind::Ccs, false)], 0)
            == Some(TlsState::SessionEncrypted),
{
    reveal_with_fuel(run_iter, 10);
}

// every handshake message is accepted only from the peer that sends it
pub open spec fn sender_is_client(k: Kind) -> bool {
    k is ClientHelloSid || k is ClientHelloNoSid || k is ClientKeyExchange || k is CertificateVerify
}
pub open spec fn sender_is_server(k: Kind) -> bool {
    k is ServerHello || k is ServerHelloV13Draft18 || k is NewSessionTicket || k is ServerKeyExchange
    || k is CertificateRequest || k is ServerDone || k is CertificateStatus
}
pub open spec fn live(s: TlsState) -> bool { !(s is Invalid || s is SessionEncrypted || s is Finished) }

proof fn lemma_direction()
    ensures
        forall|s: TlsState, k: Kind, d: bool| live(s) && sender_is_client(k) && !d ==> table(s, k, d) is None,
        forall|s: TlsState, k: Kind, d: bool| live(s) && sender_is_server(k) && d ==> table(s, k, d) is None,
        // Certificate is sent by both peers, but in disjoint states
        forall|s: TlsState| live(s) ==> !(table(s, Kind::Certificate, true) is Some && table(s, Kind::Certificate, false) is Some),
{
}

proof fn lemma_absorbing_alert_hellorequest()
    ensures
        forall|k: Kind, d: bool| table(TlsState::Invalid, k, d) == Some(TlsState::Invalid),
        forall|k: Kind, d: bool| table(TlsState::SessionEncrypted, k, d) == Some(TlsState::SessionEncrypted),
        forall|k: Kind, d: bool| table(TlsState::Finished, k, d) == Some(TlsState::Invalid),
        forall|s: TlsState, d: bool| live(s) ==> table(s, Kind::AlertWarning, d) == Some(s),
        forall|s: TlsState, d: bool| live(s) ==> table(s, Kind::AlertOther, d) == Some(TlsState::Finished),
        forall|s: TlsState, d: bool| live(s) && !(s is None) ==> table(s, Kind::HelloRequest, d) == Some(s),
        forall|d: bool| table(TlsState::None, Kind::HelloRequest, d) is None,
        // kinds the machine never accepts in a live state
        forall|s: TlsState, d: bool| live(s) ==> table(s, Kind::AppData, d) is None && table(s, Kind::Heartbeat, d) is None
            && table(s, Kind::Finished, d) is None && table(s, Kind::KeyUpdate, d) is None
            && table(s, Kind::EndOfEarlyData, d) is None && table(s, Kind::HelloRetryRequest, d) is None
            && table(s, Kind::NextProtocol, d) is None,
{
}
'''

def adt(file, kind, name, **kw):
    d = {"file": file, "kind": kind, "name": name}
    d.update(kw)
    return d

UNIT = {
    "name": "states",
    "property": ["C08"],
    "prelude": [],
    "items": [
        # alert
        adt(F_AL, "struct", "TlsAlertSeverity"),
        adt(F_AL, "newtype_enum", "TlsAlertSeverity"),
        adt(F_AL, "struct", "TlsAlertDescription"),
        adt(F_AL, "struct", "TlsMessageAlert"),
        # handshake payload types
        adt(F_HS, "struct", "TlsVersion"),
        adt(F_HS, "struct", "TlsHeartbeatMessageType"),
        adt(F_HS, "struct", "TlsCompressionID"),
        adt(F_HS, "struct", "TlsCipherSuiteID"),
        adt(F_EC, "struct", "ECPoint"),
        adt(F_HS, "struct", "TlsClientHelloContents"),
        adt(F_HS, "struct", "TlsServerHelloContents"),
        adt(F_HS, "struct", "TlsServerHelloV13Draft18Contents"),
        adt(F_HS, "struct", "TlsHelloRetryRequestContents"),
        adt(F_HS, "struct", "TlsNewSessionTicketContent"),
        adt(F_HS, "struct", "RawCertificate"),
        adt(F_HS, "struct", "TlsCertificateContents"),
        adt(F_HS, "struct", "TlsCertificateRequestContents"),
        adt(F_HS, "struct", "TlsServerKeyExchangeContents"),
        adt(F_HS, "enum", "TlsClientKeyExchangeContents"),
        adt(F_HS, "struct", "TlsCertificateStatusContents"),
        adt(F_HS, "struct", "TlsNextProtocolContent"),
        adt(F_HS, "enum", "TlsMessageHandshake"),
        adt(F_MSG, "struct", "TlsMessageApplicationData"),
        adt(F_MSG, "struct", "TlsMessageHeartbeat"),
        adt(F_MSG, "enum", "TlsMessage"),
        # the state machine
        adt(F_ST, "enum", "StateChangeError"),
        adt(F_ST, "enum", "TlsState"),
        {"file": "/verif/verus/units/states.py", "kind": "inline", "name": "table", "text": TABLE},
        {"file": F_ST, "kind": "fn", "name": "tls_state_transition_handshake", "rewrites": ["R1"],
         "contract": """
    ensures
        as_opt(r) == hs_table(state, hs_kind_of(*msg), to_server),
        r is Err ==> r == Err::<TlsState, StateChangeError>(StateChangeError::InvalidTransition),
"""},
        {"file": F_ST, "kind": "fn", "name": "tls_state_transition", "rewrites": ["R1"],
         "contract": """
    ensures
        as_opt(r) == table(state, kind_of(*msg), to_server),
        r is Err ==> r == Err::<TlsState, StateChangeError>(StateChangeError::InvalidTransition),
"""},
    ],
    "epilogue": LEMMAS,
}
