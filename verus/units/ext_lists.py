# V-EXT-LISTS (properties C05, C01): the three extension-list parsers - one-line bodies
# `many0(complete(<single-extension parser>))(i)` - proved to be the explicit accumulate-while-Ok loop over the
# single-extension parser: one element per extension, wire order, stop at the first extension that does not parse.
import os, sys
sys.path.insert(0, os.path.dirname(os.path.abspath(__file__)))
from states import adt, F_HS, F_EC
from many import abstract_parser
import dispatch_ext as _de

F_EXT = "src/tls_extensions.rs"
_types = [it for it in _de.UNIT["items"] if it["kind"] in ("struct", "enum", "newtype_enum")]

SPEC = r'''
pub open spec fn repeat0<'a, O>(p: spec_fn(&'a [u8]) -> IResult<&'a [u8], O>, i: &'a [u8], r: IResult<&'a [u8], Vec<O>>) -> bool {
    many0_post(completed(p), i, r)
}
'''

LEMMAS = r'''
// a well-formed block is consumed whole: if every step of the loop succeeds until the input is exhausted, the
// remainder is empty and there is one element per extension. (The single-extension parser consumes >= 4 bytes on
// success - type and length - so the no-progress error cannot occur.)
proof fn lemma_list_total<'a, O>(p: spec_fn(&'a [u8]) -> IResult<&'a [u8], O>, i: &'a [u8], acc: Seq<O>, r: IResult<&'a [u8], Vec<O>>)
    requires
        forall|j: &'a [u8]| (#[trigger] p(j)) is Ok ==> p(j)->Ok_0.0@.len() < j@.len(),
        forall|j: &'a [u8]| !((#[trigger] p(j)) is Err && p(j)->Err_0 is Failure),
        loop_from(completed(p), i, acc, ErrorKind::Many0, r),
    ensures
        r is Ok, r->Ok_0.1@.len() >= acc.len(),
        exists|j: &'a [u8]| j@ == r->Ok_0.0@ && !(#[trigger] p(j) is Ok),
    decreases i@.len()
{
    let q = completed(p);
    match q(i) {
        Ok((i1, o)) => { assert(q(i) == p(i)); lemma_list_total(p, i1, acc.push(o), r); }
        Err(_) => { assert(i@ == r->Ok_0.0@ && !(p(i) is Ok)); }
    }
}
'''

UNIT = {
    "name": "ext_lists",
    "property": ["C05", "C01"],
    "prelude": ["shim_nom.rs"],
    "items": _types
    + abstract_parser(F_EXT, "parse_tls_client_hello_extension", "spec_ch_ext", ret="TlsExtension<'a>")
    + abstract_parser(F_EXT, "parse_tls_server_hello_extension", "spec_sh_ext", ret="TlsExtension<'a>")
    + abstract_parser(F_EXT, "parse_tls_extension", "spec_ext", ret="TlsExtension<'a>")
    + [
        {"file": "-", "kind": "inline", "name": "list-contract", "text": SPEC},
        {"file": F_EXT, "kind": "fn", "name": "parse_tls_client_hello_extensions", "contract": "    ensures repeat0(spec_ch_ext_fn(), i, r),",
         "splices": [{"at_start": True, "text": "    proof { lemma_is_fun_parse_tls_client_hello_extension(); }"}]},
        {"file": F_EXT, "kind": "fn", "name": "parse_tls_server_hello_extensions", "contract": "    ensures repeat0(spec_sh_ext_fn(), i, r),",
         "splices": [{"at_start": True, "text": "    proof { lemma_is_fun_parse_tls_server_hello_extension(); }"}]},
        {"file": F_EXT, "kind": "fn", "name": "parse_tls_extensions", "contract": "    ensures repeat0(spec_ext_fn(), i, r),",
         "splices": [{"at_start": True, "text": "    proof { lemma_is_fun_parse_tls_extension(); }"}]},
    ],
    "epilogue": LEMMAS,
}
