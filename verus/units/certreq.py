# V-CERTREQ (properties C04, C01): the CertificateRequest body (RFC 5246 7.4.4 with and RFC 4346 7.4.4 without
# supported_signature_algorithms), extracted verbatim: both layouts proved field by field for every input length, the
# entry point proved to be "the TLS 1.2 layout made complete, else the older layout made complete".
import os, sys
sys.path.insert(0, os.path.dirname(os.path.abspath(__file__)))
import bodies2 as _b2

F_HS = "src/tls_handshake.rs"
_types = [it for it in _b2.UNIT["items"] if it["kind"] in ("struct", "enum", "newtype_enum")]

SPEC = r'''
pub open spec fn be16s(s: Seq<u8>, o: int) -> int { (s[o] as int) * 256 + (s[o + 1] as int) }
pub open spec fn is_incomplete<T>(r: IResult<&[u8], T>) -> bool { r is Err && r->Err_0 is Incomplete }

// length_count(be_u8, be_u8): count byte n, then n bytes, each one element
pub proof fn lemma_count_u8<'a>(i: &'a [u8], k: int, acc: Seq<u8>, r: IResult<&'a [u8], Vec<u8>>)
    requires k >= 0, count_from(fun_of(be_u8), i, k, acc, r),
        forall|j: &'a [u8]| be_post(1, j@, #[trigger] fun_of(be_u8)(j), |v: u8| v as int),
    ensures
        i@.len() < k ==> is_incomplete(r),
        i@.len() >= k ==> (r is Ok && r->Ok_0.0@ =~= i@.subrange(k, i@.len() as int) && r->Ok_0.1@ =~= acc + i@.subrange(0, k)),
    decreases k
{
    reveal_with_fuel(be_val, 2);
    if k > 0 {
        let r1 = fun_of(be_u8)(i);
        assert(be_post(1, i@, r1, |v: u8| v as int));
        if i@.len() >= 1 {
            let (i1, o) = r1->Ok_0;
            lemma_count_u8(i1, k - 1, acc.push(o), r);
            if i@.len() >= k {
                assert(acc.push(o) + i1@.subrange(0, k - 1) =~= acc + i@.subrange(0, k));
                assert(i1@.subrange(k - 1, i1@.len() as int) =~= i@.subrange(k, i@.len() as int));
            }
        }
    } else {
        assert(acc + i@.subrange(0, 0) =~= acc);
        assert(i@.subrange(0, i@.len() as int) =~= i@);
    }
}

// distinguished-name list: the explicit loop of SOME function that reads one u16-prefixed name, made complete
pub open spec fn name_elem_post(j: Seq<u8>, r: IResult<&[u8], &[u8]>) -> bool {
    if j.len() < 2 || j.len() < 2 + be16s(j, 0) { is_incomplete(r) }
    else { match r { Ok((rem, d)) => d@ =~= j.subrange(2, 2 + be16s(j, 0)) && rem@ =~= j.subrange(2 + be16s(j, 0), j.len() as int), Err(_) => false } }
}
pub open spec fn ca_list_post<'a>(w: &'a [u8], r: IResult<&'a [u8], Vec<&'a [u8]>>) -> bool {
    exists|p: spec_fn(&'a [u8]) -> IResult<&'a [u8], &'a [u8]>|
        (forall|j: &'a [u8]| name_elem_post(j@, #[trigger] p(j))) && #[trigger] many0_post(completed(p), w, r)
}
// tail shared by both layouts: at offset o a u16-prefixed window of distinguished names
pub open spec fn ca_tail_post<'a>(i: &'a [u8], o: int, types: Seq<u8>, algs: Option<Vec<u16>>, r: IResult<&'a [u8], TlsCertificateRequestContents<'a>>) -> bool {
    if i@.len() < o + 2 || i@.len() < o + 2 + be16s(i@, o) { is_incomplete(r) }
    else { let l = be16s(i@, o);
        exists|w: &'a [u8], inner: IResult<&'a [u8], Vec<&'a [u8]>>|
            w@ =~= i@.subrange(o + 2, o + 2 + l) && #[trigger] ca_list_post(w, inner) && match inner {
                Ok((_, v)) => (match r { Ok((rem, c)) => c.cert_types@ =~= types && c.sig_hash_algs == algs && c.unparsed_ca == v && rem@ =~= i@.subrange(o + 2 + l, i@.len() as int), Err(_) => false }),
                Err(e) => r == Err::<(&[u8], TlsCertificateRequestContents), Err<Error<&[u8]>>>(e),
            } }
}
// layout without signature algorithms: certificate_types<1..2^8-1>, certificate_authorities<0..2^16-1>
pub open spec fn nosig_post<'a>(i: &'a [u8], r: IResult<&'a [u8], TlsCertificateRequestContents<'a>>) -> bool {
    if i@.len() < 1 || i@.len() < 1 + i@[0] as int { is_incomplete(r) }
    else { ca_tail_post(i, 1 + i@[0] as int, i@.subrange(1, 1 + i@[0] as int), None, r) }
}
// TLS 1.2 layout: certificate_types, supported_signature_algorithms<2^16-1> (window parsed by the explicit loop of
// be_u16 made complete: an odd trailing byte ends the list), certificate_authorities
pub open spec fn full_post<'a>(i: &'a [u8], r: IResult<&'a [u8], TlsCertificateRequestContents<'a>>) -> bool {
    if i@.len() < 1 || i@.len() < 1 + i@[0] as int { is_incomplete(r) }
    else { let o = 1 + i@[0] as int;
        if i@.len() < o + 2 || i@.len() < o + 2 + be16s(i@, o) { is_incomplete(r) }
        else { let l = be16s(i@, o);
            exists|w: &'a [u8], inner: IResult<&'a [u8], Vec<u16>>|
                w@ =~= i@.subrange(o + 2, o + 2 + l) && #[trigger] many0_post(completed(fun_of(be_u16)), w, inner) && match inner {
                    Ok((_, v)) => ca_tail_post(i, o + 2 + l, i@.subrange(1, o), Some(v), r),
                    Err(e) => r == Err::<(&[u8], TlsCertificateRequestContents), Err<Error<&[u8]>>>(e),
                } } }
}
// entry point: alt((complete(full), complete(nosig)))
pub open spec fn certreq_post<'a>(i: &'a [u8], r: IResult<&'a [u8], TlsCertificateRequestContents<'a>>) -> bool {
    exists|rf: IResult<&'a [u8], TlsCertificateRequestContents<'a>>, rn: IResult<&'a [u8], TlsCertificateRequestContents<'a>>|
        #[trigger] full_post(i, rf) && #[trigger] nosig_post(i, rn)
        && r == (match complete_map(rf, i) { Err(Err::Error(_)) => complete_map(rn, i), x => x })
}
// ASSUMED (the definition of fun_of for fn items, as in every unit): the two layout parsers are deterministic, total
// functions of their input - `fun_of(f)(i)` is the result f returns on i (termination is property C01)
#[verifier::external_body]
pub proof fn axiom_layouts_are_functions<'a>()
    ensures
        forall|i: &'a [u8], r: IResult<&'a [u8], TlsCertificateRequestContents<'a>>| #[trigger] parse_certrequest_full.ensures((i,), r) ==> r == fun_of(parse_certrequest_full)(i),
        forall|i: &'a [u8], r: IResult<&'a [u8], TlsCertificateRequestContents<'a>>| #[trigger] parse_certrequest_nosigalg.ensures((i,), r) ==> r == fun_of(parse_certrequest_nosigalg)(i),
        forall|i: &'a [u8]| parse_certrequest_full.ensures((i,), #[trigger] fun_of(parse_certrequest_full)(i)),
        forall|i: &'a [u8]| parse_certrequest_nosigalg.ensures((i,), #[trigger] fun_of(parse_certrequest_nosigalg)(i)),
{}
pub open spec fn certreq_msg_post<'a>(i: &'a [u8], r: IResult<&'a [u8], TlsMessageHandshake<'a>>) -> bool {
    match r {
        Ok((rem, TlsMessageHandshake::CertificateRequest(c))) => certreq_post(i, Ok::<(&[u8], TlsCertificateRequestContents), Err<Error<&[u8]>>>((rem, c))),
        Ok(_) => false,
        Err(e) => certreq_post(i, Err::<(&[u8], TlsCertificateRequestContents), Err<Error<&[u8]>>>(e)),
    }
}
'''

LC_HINT = """)(i);
    proof {
        axiom_be_fun();
        let r0 = fun_of(be_u8)(i1);
        assert(be_post(1, i1@, r0, |v: u8| v as int));
        assert(length_count_post(fun_of(be_u8), fun_of(be_u8), i1, res));
        if r0 is Ok {
            let j = r0->Ok_0.0; let n = r0->Ok_0.1 as int;
            assert(j@ =~= i1@.subrange(1, i1@.len() as int));
            assert(n == i1@[0]);
            assert(count_from(fun_of(be_u8), j, n, Seq::<u8>::empty(), res));
            lemma_count_u8(j, n, Seq::<u8>::empty(), res);
            if j@.len() >= n {
                assert(Seq::<u8>::empty() + j@.subrange(0, n) =~= i1@.subrange(1, 1 + n));
                assert(j@.subrange(n, j@.len() as int) =~= i1@.subrange(1 + n, i1@.len() as int));
            }
        }
    }
    let (i, cert_types) = res?;
"""

CA_HINT = """)(i);
    proof {
        let (tk, mg) = choose|tk: spec_fn(&[u8]) -> IResult<&[u8], &[u8]>, mg: spec_fn(&[u8]) -> IResult<&[u8], Vec<&[u8]>>| res_ca == #[trigger] map_parser_fn(tk, mg, i2)
            && take_post(ca_len as int, i2@, tk(i2)) && (tk(i2) is Ok ==> ca_list_post(tk(i2)->Ok_0.1, mg(tk(i2)->Ok_0.1)));
        if tk(i2) is Ok {
            let w = tk(i2)->Ok_0.1;
            assert(ca_list_post(w, mg(w)));
            assert(w@ =~= i2@.subrange(0, ca_len as int));
        }
    }
    let (i, unparsed_ca) = res_ca?;
"""

SIG_HINT = """)(i);
    proof {
        let (tk, mg) = choose|tk: spec_fn(&[u8]) -> IResult<&[u8], &[u8]>, mg: spec_fn(&[u8]) -> IResult<&[u8], Vec<u16>>| res_sig == #[trigger] map_parser_fn(tk, mg, i3)
            && take_post(sig_hash_algs_len as int, i3@, tk(i3)) && (tk(i3) is Ok ==> many0_post(completed(fun_of(be_u16)), tk(i3)->Ok_0.1, mg(tk(i3)->Ok_0.1)));
        if tk(i3) is Ok {
            let w = tk(i3)->Ok_0.1;
            assert(many0_post(completed(fun_of(be_u16)), w, mg(w)));
            assert(w@ =~= i3@.subrange(0, sig_hash_algs_len as int));
        }
    }
    let (i, sig_hash_algs) = res_sig?;
"""

def layout(fn, post, extra, extra_subst=()):
    return {"file": F_HS, "kind": "fn", "name": fn, "rlimit": 60,
            "subst": [
                (r"^fn %s\(i: &\[u8\]\) -> IResult<&\[u8\], TlsCertificateRequestContents>" % fn, "pub fn %s<'a>(i: &'a [u8]) -> IResult<&'a [u8], TlsCertificateRequestContents<'a>>" % fn),
                # R11: the operand of `?` bound to a local first
                (r"let \(i, cert_types\) = length_count\(be_u8, be_u8\)\(i\)\?;\n", "let ghost i1 = i;\n    let res = length_count(be_u8, be_u8" + LC_HINT),
                (r"let \(i, unparsed_ca\) =\s*map_parser\(take\(ca_len as usize\), many0\(complete\(length_data\(be_u16\)\)\)\)\(i\)\?;\n",
                 "let ghost i2 = i;\n    let res_ca = map_parser(take(ca_len as usize), many0(complete(length_data(be_u16)))" + CA_HINT),
            ] + list(extra_subst),
            "splices": [{"at_start": True, "text": "    let ghost i0 = i@;\n    proof { reveal_with_fuel(be_val, 3); axiom_be_fun(); }"},
                        {"after": r"let \(i, cert_types\) = res\?;", "text": "    let ghost o: int = 1 + i0[0] as int;\n    proof { assert(cert_types@ =~= i0.subrange(1, o)); assert(i@ =~= i0.subrange(o, i0.len() as int)); }"}] + extra,
            "contract": "    ensures %s(i, r)," % post}

UNIT = {
    "name": "certreq",
    "property": ["C04", "C01"],
    "prelude": ["shim_nom.rs"],
    "items": _types + [
        {"file": "-", "kind": "inline", "name": "certificate-request-contracts", "text": SPEC},
        layout("parse_certrequest_nosigalg", "nosig_post", [
            {"after": r"let \(i, ca_len\) = [^;]*;", "text": "    proof { assert(ca_len as int == be16s(i0, o)); assert(i@ =~= i0.subrange(o + 2, i0.len() as int)); }"},
        ]),
        layout("parse_certrequest_full", "full_post", [
            {"after": r"let \(i, sig_hash_algs_len\) = [^;]*;", "text": "    let ghost sl: int = sig_hash_algs_len as int;\n    proof { assert(sl == be16s(i0, o)); assert(i@ =~= i0.subrange(o + 2, i0.len() as int)); }"},
            {"after": r"let \(i, ca_len\) = [^;]*;", "text": "    proof { assert(ca_len as int == be16s(i0, o + 2 + sl)); assert(i@ =~= i0.subrange(o + 4 + sl, i0.len() as int)); }"},
        ], extra_subst=[
            (r"let \(i, sig_hash_algs\) =\s*map_parser\(take\(sig_hash_algs_len as usize\), many0\(complete\(be_u16\)\)\)\(i\)\?;\n",
             "let ghost i3 = i;\n    let res_sig = map_parser(take(sig_hash_algs_len as usize), many0(complete(be_u16))" + SIG_HINT),
        ]),
        {"file": F_HS, "kind": "fn", "name": "parse_tls_handshake_certificaterequest",
         "subst": [(r"fn parse_tls_handshake_certificaterequest\(\s*i: &\[u8\],\s*\) -> IResult<&\[u8\], TlsCertificateRequestContents>",
                    "fn parse_tls_handshake_certificaterequest<'a>(i: &'a [u8]) -> IResult<&'a [u8], TlsCertificateRequestContents<'a>>")],
         "splices": [{"at_start": True, "text": "    proof { axiom_layouts_are_functions(); }"}],
         "contract": "    ensures certreq_post(i, r),"},
        {"file": F_HS, "kind": "fn", "name": "parse_tls_handshake_msg_certificaterequest",
         "subst": [
             (r"fn parse_tls_handshake_msg_certificaterequest\(i: &\[u8\]\) -> IResult<&\[u8\], TlsMessageHandshake>", "fn parse_tls_handshake_msg_certificaterequest<'a>(i: &'a [u8]) -> IResult<&'a [u8], TlsMessageHandshake<'a>>"),
             (r"TlsMessageHandshake::CertificateRequest,", "|x: TlsCertificateRequestContents<'a>| -> (y: TlsMessageHandshake<'a>) ensures y == TlsMessageHandshake::CertificateRequest(x) { TlsMessageHandshake::CertificateRequest(x) },"),
         ],
         "contract": "    ensures certreq_msg_post(i, r),"},
    ],
    "epilogue": "",
}
