# V-FRAME (property C02, C06, C11): parse_tls_raw_record / parse_tls_encrypted extracted verbatim
# (R0, R4, R5, R6) and proved against the RFC 8446 5.1 framing contract over Seq<u8> - every input
# length, every declared length, every trailing suffix.
import os, sys
sys.path.insert(0, os.path.dirname(os.path.abspath(__file__)))
from states import adt, F_HS
from derived_common import header_items

F_REC = "src/tls_record.rs"

SPEC = r'''
// ------------------------------------------------------------------ framing contract (from the property)
pub open spec fn be16s(s: Seq<u8>, o: int) -> int { (s[o] as int) * 256 + (s[o + 1] as int) }

// 2^14 + 256, the TLSCiphertext cap of RFC 8446 5.2
pub open spec fn record_cap() -> int { 16640int }

pub enum Framed {
    Ok { rem: Seq<u8>, hdr: TlsRecordHeader, payload: Seq<u8> },
    Incomplete(Needed),
    Error(ErrorKind),
    Failure(ErrorKind),
}

pub open spec fn framing_post(i: Seq<u8>, o: Framed) -> bool {
    if i.len() < 5 {
        o is Incomplete                                            // strict prefix of the header
    } else {
        let l = be16s(i, 3);
        if l > record_cap() {
            o == Framed::Error(ErrorKind::TooLarge)                // rejected whatever follows
        } else if i.len() < 5 + l {
            o == Framed::Incomplete(Needed::Size((5 + l - i.len()) as usize))   // exactly the missing bytes
        } else {
            match o {
                Framed::Ok { rem, hdr, payload } =>
                    hdr.record_type.0 == i[0] && hdr.version.0 as int == be16s(i, 1) && hdr.len as int == l
                    && payload =~= i.subrange(5, 5 + l)
                    && rem =~= i.subrange(5 + l, i.len() as int),
                _ => false,
            }
        }
    }
}

// header parser: body is the nom-derive generated TlsRecordHeader::parse, outside Verus's reach.
// ASSUMED here; OBLIGATION of Kani harness fd_record_header (full domain).
pub open spec fn header_post(i: Seq<u8>, r: IResult<&[u8], TlsRecordHeader>) -> bool {
    if i.len() < 5 { r is Err && r->Err_0 is Incomplete }
    else { match r {
        Ok((rem, h)) => h.record_type.0 == i[0] && h.version.0 as int == be16s(i, 1) && h.len as int == be16s(i, 3)
                        && rem@ =~= i.subrange(5, i.len() as int),
        Err(_) => false,
    } }
}

pub open spec fn framed_raw(r: IResult<&[u8], TlsRawRecord>) -> Framed {
    match r {
        Ok((rem, rec)) => Framed::Ok { rem: rem@, hdr: rec.hdr, payload: rec.data@ },
        Err(Err::Incomplete(n)) => Framed::Incomplete(n),
        Err(Err::Error(e)) => Framed::Error(e.code),
        Err(Err::Failure(e)) => Framed::Failure(e.code),
    }
}
pub open spec fn framed_enc(r: IResult<&[u8], TlsEncrypted>) -> Framed {
    match r {
        Ok((rem, rec)) => Framed::Ok { rem: rem@, hdr: rec.hdr, payload: rec.msg.blob@ },
        Err(Err::Incomplete(n)) => Framed::Incomplete(n),
        Err(Err::Error(e)) => Framed::Error(e.code),
        Err(Err::Failure(e)) => Framed::Failure(e.code),
    }
}
'''

UNIT = {
    "name": "frame",
    "needs_expanded": True,
    "property": ["C02", "C06", "C11"],
    "prelude": ["shim_nom.rs"],
    "items": [
        adt(F_HS, "struct", "TlsVersion"),
        adt(F_REC, "struct", "TlsRecordType"),
        adt(F_REC, "struct", "TlsRecordHeader"),
        adt(F_REC, "struct", "TlsRawRecord"),
        adt(F_REC, "struct", "TlsEncryptedContent"),
        adt(F_REC, "struct", "TlsEncrypted"),
        {"file": F_REC, "kind": "const", "name": "MAX_RECORD_LEN", "ensures": "MAX_RECORD_LEN == 16640",
         "proof": "assert((1u16 << 14) == 16384u16) by (bit_vector);"},
        {"file": "-", "kind": "inline", "name": "framing-contract", "text": SPEC},
    ] + header_items() + [
        {"file": F_REC, "kind": "fn", "name": "parse_tls_encrypted", "contract": """
    ensures framing_post(i@, framed_enc(r)),
"""},
        {"file": F_REC, "kind": "fn", "name": "parse_tls_raw_record", "contract": """
    ensures framing_post(i@, framed_raw(r)),
"""},
    ],
    "epilogue": r'''
// The property as stated (C02): a record header (type, version, declared length) followed by that many payload bytes and
// then ANYTHING yields exactly those header fields, exactly that payload and exactly the rest as remainder.
pub open spec fn enc_u16(n: int) -> Seq<u8> { seq![(n / 256) as u8, (n % 256) as u8] }
proof fn lemma_record_roundtrip(t: u8, v: u16, payload: Seq<u8>, tail: Seq<u8>, o: Framed)
    requires payload.len() <= 16640, framing_post(seq![t] + enc_u16(v as int) + enc_u16(payload.len() as int) + payload + tail, o),
    ensures o is Ok, o->hdr.record_type.0 == t, o->hdr.version.0 == v, o->hdr.len as int == payload.len(), o->payload =~= payload, o->rem =~= tail,
{
    let n = payload.len() as int;
    let b = seq![t] + enc_u16(v as int) + enc_u16(n) + payload + tail;
    assert(b[0] == t);
    assert(b[1] == ((v as int) / 256) as u8 && b[2] == ((v as int) % 256) as u8);
    assert(be16s(b, 1) == v as int);
    assert(b[3] == (n / 256) as u8 && b[4] == (n % 256) as u8);
    assert(be16s(b, 3) == n);
    assert(b.subrange(5, 5 + n) =~= payload);
    assert(b.subrange(5 + n, b.len() as int) =~= tail);
}
// ... and a declared length above the cap is rejected whatever follows
proof fn lemma_oversize_rejected(b: Seq<u8>, o: Framed)
    requires framing_post(b, o), b.len() >= 5, be16s(b, 3) > 16640,
    ensures o == Framed::Error(ErrorKind::TooLarge),
{}

// LOCALITY (C06) as a corollary of the contract alone: if a record is framed from b, it is framed
// identically from b ++ x, and the remainder is simply extended by x.
proof fn lemma_framing_local(b: Seq<u8>, x: Seq<u8>, o: Framed, o2: Framed)
    requires framing_post(b, o), o is Ok, framing_post(b + x, o2),
    ensures o2 is Ok, o2->hdr == o->hdr, o2->payload =~= o->payload, o2->rem =~= o->rem + x,
{
    let bx = b + x;
    assert(b.len() >= 5);
    assert(bx[0] == b[0] && bx[1] == b[1] && bx[2] == b[2] && bx[3] == b[3] && bx[4] == b[4]);
    let l = be16s(b, 3);
    assert(be16s(bx, 3) == l);
    assert(be16s(bx, 1) == be16s(b, 1));
    assert(bx.subrange(5, 5 + l) =~= b.subrange(5, 5 + l));
    assert(bx.subrange(5 + l, bx.len() as int) =~= b.subrange(5 + l, b.len() as int) + x);
}

// "Incomplete if and only if the input is a strict prefix of header+payload"
proof fn lemma_incomplete_iff_prefix(i: Seq<u8>, o: Framed)
    requires framing_post(i, o),
    ensures o is Incomplete <==> (i.len() < 5 || (be16s(i, 3) <= record_cap() && i.len() < 5 + be16s(i, 3))),
{
}
''',
}
