# shared pieces for units that take nom-derive GENERATED parsers from the macro-expanded source (R13)
EXP = "@expanded"
F_REC = "src/tls_record.rs"

INT_SHIMS = r"""
// nom-derive's Parse for the primitive integers is nom's big-endian reader (ASSUMED; Kani fd_record_header /
// leaf harnesses assert every integer field of the compiled parsers against the bytes)
#[verifier::external_body]
pub fn parse_be_u8<'a>(i: &'a [u8]) -> (r: IResult<&'a [u8], u8>) ensures be_post(1, i@, r, |v: u8| v as int), { unimplemented!() }
#[verifier::external_body]
pub fn parse_be_u16<'a>(i: &'a [u8]) -> (r: IResult<&'a [u8], u16>) ensures be_post(2, i@, r, |v: u16| v as int), { unimplemented!() }
"""

HEADER_SPEC = INT_SHIMS + r"""
pub open spec fn recordtype_post(i: Seq<u8>, r: IResult<&[u8], TlsRecordType>) -> bool {
    if i.len() < 1 { r is Err && r->Err_0 is Incomplete } else { match r { Ok((rem, v)) => v.0 == i[0] && rem@ =~= i.subrange(1, i.len() as int), Err(_) => false } }
}
pub open spec fn version_post(i: Seq<u8>, r: IResult<&[u8], TlsVersion>) -> bool {
    if i.len() < 2 { r is Err && r->Err_0 is Incomplete } else { match r { Ok((rem, v)) => v.0 as int == (i[0] as int) * 256 + (i[1] as int) && rem@ =~= i.subrange(2, i.len() as int), Err(_) => false } }
}
"""

NT_HINT = [{"at_start": True, "text": "    proof { reveal_with_fuel(be_val, 3); }"}]


def header_items():
    """TlsRecordHeader's generated parser and the hand-written entry point, PROVED against header_post (which the
    unit's own spec text defines); replaces the former external_body assumption"""
    return [
        {"file": "-", "kind": "inline", "name": "derived-header-contract", "text": HEADER_SPEC},
        {"file": EXP, "kind": "derived", "name": "TlsRecordType", "contract": "    ensures recordtype_post(orig_i@, r),", "splices": NT_HINT},
        {"file": EXP, "kind": "derived", "name": "TlsVersion", "contract": "    ensures version_post(orig_i@, r),", "splices": NT_HINT},
        {"file": EXP, "kind": "derived", "name": "TlsRecordHeader", "contract": "    ensures header_post(orig_i@, r),",
         "splices": [{"at_start": True, "text": "    let ghost i0 = orig_i@;\n    proof { reveal_with_fuel(be_val, 3); }"},
                     {"after": r"let \(i, record_type\) = parse_be_TlsRecordType\(i\)\?;", "text": "    proof { assert(i@ =~= i0.subrange(1, i0.len() as int)); }"},
                     {"after": r"let \(i, version\) = parse_be_TlsVersion\(i\)\?;", "text": "    proof { assert(i@ =~= i0.subrange(3, i0.len() as int)); }"},
                     {"after": r"let \(i, len\) = parse_be_u16\(i\)\?;", "text": "    proof { assert(i@ =~= i0.subrange(5, i0.len() as int)); }"}]},
        {"file": F_REC, "kind": "fn", "name": "parse_tls_record_header", "contract": "    ensures header_post(i@, r),",
         "subst": [(r"TlsRecordHeader::parse\(i\)", "parse_be_TlsRecordHeader(i)")]},   # the generated delegation (checked by the extractor)
    ]


def newtype_items(T, width):
    """a derive(Nom*) newtype over u8/u16: generated parse_be proved to be nom's big-endian reader followed by the
    constructor, and the generated `T::parse` delegation kept as a method (replaces a former external_body assumption)"""
    return [
        {"file": EXP, "kind": "derived", "name": T, "with_parse": True,
         "contract": "ensures be_post(%d, orig_i@, r, |v: %s| v.0 as int)," % (width, T)},
    ]


# ---- R17: the two std iterator-adapter chains, named as the shim functions of verus/shim_std.rs ------------------------
# `(E).chunks(C).map(|x| BODY).collect()`  ->  `chunks_map_collect(&(E), C, |x: &[u8]| -> (y: T) requires .. ensures .. { BODY })`
# `(E).iter().map(|&x| BODY).collect()`    ->  `iter_map_collect(&(E), |p: &u8| -> (y: T) ensures .. { let x = *p; BODY })`
# receiver, chunk size and closure BODY are carried over verbatim (an edited body reaches the verifier and fails the
# closure's postcondition; an edited chunk size fails the caller's postcondition); the closure contract is the element
# decode the property states: the big-endian u16 of the two bytes / the byte itself
def r17_chunks(T):
    return (r"\(?(\w+\[[^\]\n]*\])\)?\s*\.chunks\(([^()]*)\)\s*\.map\(\|(\w+)\| (.*?)\)\s*\.collect\(\)",
            r"chunks_map_collect(&(\1), \2, |\3: &[u8]| -> (y: %s) requires \3@.len() == 2 ensures y.0 as int == be16s(\3@, 0) { proof { lemma_shl8_or(\3@[0], \3@[1]); } \4 })" % T)
def r17_iter(T):
    return (r"\(?(\w+\[[^\]\n]*\])\)?\s*\.iter\(\)\s*\.map\(\|&(\w+)\| (.*?)\)\s*\.collect\(\)",
            r"iter_map_collect(&(\1), |\2_ref: &u8| -> (y: %s) ensures y.0 == *\2_ref { let \2 = *\2_ref; \3 })" % T)

# solver hints for the list helpers (optional: skipped when the anchored statement is gone): `len & 1` is `len % 2`
PARITY_PARAM = [{"at_start": True, "text": "    proof { lemma_parity(len); }"}]
PARITY_LOCAL = [{"after": r"let (\w+) = i\.len\(\);", "text": "    proof { lemma_parity({g1}); }", "optional": True}]
