# V-PLAINTEXT (properties C02, C03, C10, C16): parse_tls_plaintext (and the DTLS twin) - header, cap,
# take(len), map_parser glue around the record-payload parser.  The one closure in each body is kept
# verbatim; rule R9 makes its signature explicit and splices its `ensures` (a contract, not code).
import os, sys
sys.path.insert(0, os.path.dirname(os.path.abspath(__file__)))
from states import UNIT as _ST, adt, F_HS, F_MSG, F_AL, F_EC
from frame import SPEC as FRAME_SPEC
from derived_common import header_items

F_REC = "src/tls_record.rs"
_types = [it for it in _ST["items"] if it["kind"] in ("struct", "enum", "newtype_enum") and it["file"] in (F_HS, F_MSG, F_AL, F_EC)]

SPEC = FRAME_SPEC + r'''
// ------------------------------------------------------------------ record-payload parser: abstract here
// (its own contract is proved in unit `many`); a deterministic function of (payload bytes, header)
pub uninterp spec fn spec_prwh(i: Seq<u8>, hdr: TlsRecordHeader) -> IResult<&'static [u8], Vec<TlsMessage<'static>>>;

// ASSUMED here, PROVED in unit `many` (lemma_record_never_incomplete): a whole record never answers Incomplete
#[verifier::external_body]
pub proof fn axiom_prwh_never_incomplete(i: Seq<u8>, hdr: TlsRecordHeader)
    ensures !(spec_prwh(i, hdr) is Err && spec_prwh(i, hdr)->Err_0 is Incomplete) {}

// one-step parsing: framing exactly as for raw records, then the payload parser's verdict on exactly the
// payload bytes under exactly the decoded header; its inner remainder is dropped
pub open spec fn plaintext_post(i: Seq<u8>, r: IResult<&[u8], TlsPlaintext>) -> bool {
    if i.len() < 5 { r is Err && r->Err_0 is Incomplete }
    else {
        let l = be16s(i, 3);
        if l > record_cap() { r is Err && r->Err_0 is Error && r->Err_0->Error_0.code == ErrorKind::TooLarge }
        else if i.len() < 5 + l { r == Err::<(&[u8], TlsPlaintext), Err<Error<&[u8]>>>(Err::Incomplete(Needed::Size((5 + l - i.len()) as usize))) }
        else {
            let hdr = TlsRecordHeader { record_type: TlsRecordType(i[0]), version: TlsVersion(be16s(i, 1) as u16), len: l as u16 };
            match spec_prwh(i.subrange(5, 5 + l), hdr) {
                Ok((_, msgs)) => (match r { Ok((rem, rec)) => rem@ =~= i.subrange(5 + l, i.len() as int) && rec.hdr == hdr && rec.msg == msgs, Err(_) => false }),
                Err(e) => r is Err && !(r->Err_0 is Incomplete) && (r->Err_0 is Error <==> e is Error) && (r->Err_0 is Failure <==> e is Failure),
            }
        }
    }
}
'''

UNIT = {
    "name": "plaintext",
    "needs_expanded": True,
    "property": ["C02", "C03", "C16", "C06"],
    "prelude": ["shim_nom.rs"],
    "items": _types + [
        adt(F_REC, "struct", "TlsRecordType"),
        adt(F_REC, "newtype_enum", "TlsRecordType"),
        adt(F_REC, "struct", "TlsRecordHeader"),
        adt(F_REC, "struct", "TlsRawRecord"),
        adt(F_REC, "struct", "TlsEncryptedContent"),
        adt(F_REC, "struct", "TlsEncrypted"),
        adt(F_REC, "struct", "TlsPlaintext"),
        {"file": F_REC, "kind": "const", "name": "MAX_RECORD_LEN", "ensures": "MAX_RECORD_LEN == 16640",
         "proof": "assert((1u16 << 14) == 16384u16) by (bit_vector);"},
        {"file": "-", "kind": "inline", "name": "plaintext-contract", "text": SPEC},
    ] + header_items() + [
        {"file": F_REC, "kind": "fn", "name": "parse_tls_record_with_header", "external_body": True, "contract": """
    ensures r == spec_prwh(i@, *hdr),
"""},
        {"file": F_REC, "kind": "fn", "name": "parse_tls_plaintext",
         "subst": [
             # R9: name the elided lifetime; make the closure's signature explicit and give it its contract
             (r"pub fn parse_tls_plaintext\(i: &\[u8\]\) -> IResult<&\[u8\], TlsPlaintext>", "pub fn parse_tls_plaintext<'a>(i: &'a [u8]) -> IResult<&'a [u8], TlsPlaintext<'a>>"),
             (r"\|i\| \{\n(\s*)parse_tls_record_with_header\(i, &hdr\)", "|i: &'a [u8]| -> (r2: IResult<&'a [u8], Vec<TlsMessage<'a>>>) ensures r2 == spec_prwh(i@, hdr) {\n\\1parse_tls_record_with_header(i, &hdr)"),
         ],
         "splices": [{"at_start": True, "text": "    let ghost i0 = i@;"},
                     {"after": r"let \(i, hdr\) = parse_tls_record_header\(i\)\?;", "text": """    let ghost i1 = i@;
    proof {
        let l = be16s(i0, 3);
        assert(i1 =~= i0.subrange(5, i0.len() as int));
        assert(hdr == TlsRecordHeader { record_type: TlsRecordType(i0[0]), version: TlsVersion(be16s(i0, 1) as u16), len: l as u16 });
        if l <= i1.len() {
            assert(i1.subrange(0, l) =~= i0.subrange(5, 5 + l));
            assert(i1.subrange(l, i1.len() as int) =~= i0.subrange(5 + l, i0.len() as int));
            axiom_prwh_never_incomplete(i0.subrange(5, 5 + l), hdr);
        }
    }"""}],
         "contract": """
    ensures plaintext_post(i@, r),
"""},
    ],
    "epilogue": r'''
// C03: one-step parsing agrees with two-step parsing (raw record, then the record-payload parser on its data
// under its header): both are the payload parser's verdict on the same (bytes, header).
proof fn lemma_one_step_is_two_step(i: Seq<u8>, one: IResult<&[u8], TlsPlaintext>, raw: Framed)
    requires plaintext_post(i, one), framing_post(i, raw), raw is Ok,
    ensures
        one is Ok <==> spec_prwh(raw->payload, raw->hdr) is Ok,
        one is Ok ==> one->Ok_0.1.msg == spec_prwh(raw->payload, raw->hdr)->Ok_0.1 && one->Ok_0.1.hdr == raw->hdr && one->Ok_0.0@ =~= raw->rem,
{
    let l = be16s(i, 3);
    assert(raw->payload =~= i.subrange(5, 5 + l));
    let hdr = TlsRecordHeader { record_type: TlsRecordType(i[0]), version: TlsVersion(be16s(i, 1) as u16), len: l as u16 };
    assert(raw->hdr.record_type.0 == i[0]);
    assert(raw->hdr == hdr);
}

// C06 LOCALITY: a record parsed from b is parsed identically from b ++ x; once b holds the declared length the
// outcome class does not change either.
proof fn lemma_plaintext_local(b: Seq<u8>, x: Seq<u8>, r1: IResult<&[u8], TlsPlaintext>, r2: IResult<&[u8], TlsPlaintext>)
    requires plaintext_post(b, r1), plaintext_post(b + x, r2), b.len() >= 5, b.len() >= 5 + be16s(b, 3),
    ensures
        r1 is Ok <==> r2 is Ok,
        r1 is Ok ==> r2->Ok_0.1.hdr == r1->Ok_0.1.hdr && r2->Ok_0.1.msg == r1->Ok_0.1.msg && r2->Ok_0.0@ =~= r1->Ok_0.0@ + x,
{
    let bx = b + x;
    assert(bx[0] == b[0] && bx[1] == b[1] && bx[2] == b[2] && bx[3] == b[3] && bx[4] == b[4]);
    let l = be16s(b, 3);
    assert(be16s(bx, 3) == l && be16s(bx, 1) == be16s(b, 1));
    assert(bx.subrange(5, 5 + l) =~= b.subrange(5, 5 + l));
    assert(bx.subrange(5 + l, bx.len() as int) =~= b.subrange(5 + l, b.len() as int) + x);
}

// C02 for plaintext: Incomplete iff strict prefix of header+payload
proof fn lemma_plaintext_incomplete_iff_prefix(i: Seq<u8>, r: IResult<&[u8], TlsPlaintext>)
    requires plaintext_post(i, r),
    ensures (r is Err && r->Err_0 is Incomplete) <==> (i.len() < 5 || (be16s(i, 3) <= record_cap() && i.len() < 5 + be16s(i, 3))),
{
    if i.len() >= 5 && be16s(i, 3) <= record_cap() && i.len() >= 5 + be16s(i, 3) {
        let l = be16s(i, 3);
        let hdr = TlsRecordHeader { record_type: TlsRecordType(i[0]), version: TlsVersion(be16s(i, 1) as u16), len: l as u16 };
        axiom_prwh_never_incomplete(i.subrange(5, 5 + l), hdr);
    }
}
''',
}
