# V-SCT (properties C14, C06): the SCT entry and SCT list parsers (closure-free bodies) extracted verbatim; the
# SCT content parser abstract. Entry = the content parser's verdict on exactly the declared window; list = u16
# total, then the explicit loop over the single-entry parser confined to that window.
import os, sys
sys.path.insert(0, os.path.dirname(os.path.abspath(__file__)))
from states import adt
from many import abstract_parser

F_CT = "src/certificate_transparency.rs"
F_SH = "src/tls_sign_hash.rs"

SPEC = r'''
pub open spec fn be16s(s: Seq<u8>, o: int) -> int { (s[o] as int) * 256 + (s[o + 1] as int) }
pub open spec fn repeat0<'a, O>(p: spec_fn(&'a [u8]) -> IResult<&'a [u8], O>, i: &'a [u8], r: IResult<&'a [u8], Vec<O>>) -> bool {
    many0_post(completed(p), i, r)
}

// single entry: u16 length, then the content parser on EXACTLY the declared window (its own remainder is dropped);
// an entry whose declared length exceeds the input never yields an SCT
pub open spec fn sct_entry_post<'a>(i: &'a [u8], r: IResult<&'a [u8], SignedCertificateTimestamp<'a>>) -> bool {
    if i@.len() < 2 { r is Err && r->Err_0 is Incomplete }
    else {
        let l = be16s(i@, 0);
        if i@.len() < 2 + l { r is Err && r->Err_0 is Incomplete }
        else {
            exists|w: &'a [u8]| w@ =~= i@.subrange(2, 2 + l) && match #[trigger] spec_sct_content(w) {
                Ok((_, v)) => (match r { Ok((rem, v2)) => v2 == v && rem@ =~= i@.subrange(2 + l, i@.len() as int), Err(_) => false }),
                Err(e) => r == Err::<(&[u8], SignedCertificateTimestamp), Err<Error<&[u8]>>>(e),
            }
        }
    }
}

// list: u16 total length; a list longer than the input never yields a value; otherwise the entries are the explicit
// accumulate-while-Ok loop of the single-entry parser over EXACTLY the declared window, and the outer remainder is
// what follows the window
pub open spec fn sct_list_post<'a>(i: &'a [u8], r: IResult<&'a [u8], Vec<SignedCertificateTimestamp<'a>>>) -> bool {
    if i@.len() < 2 { r is Err && r->Err_0 is Incomplete }
    else {
        let l = be16s(i@, 0);
        if i@.len() < 2 + l { r is Err && r->Err_0 is Incomplete }
        else {
            exists|w: &'a [u8], inner: IResult<&'a [u8], Vec<SignedCertificateTimestamp<'a>>>|
                w@ =~= i@.subrange(2, 2 + l) && #[trigger] many0_post(completed(spec_sct_entry_fn()), w, inner) && match inner {
                    Ok((_, v)) => (match r { Ok((rem, v2)) => v2 == v && rem@ =~= i@.subrange(2 + l, i@.len() as int), Err(_) => false }),
                    Err(e) => r == Err::<(&[u8], Vec<SignedCertificateTimestamp>), Err<Error<&[u8]>>>(e),
                }
        }
    }
}
'''

UNIT = {
    "name": "sct",
    "property": ["C14", "C06"],
    "prelude": ["shim_nom.rs"],
    "items": [
        adt(F_SH, "struct", "HashAlgorithm"),
        adt(F_SH, "struct", "SignAlgorithm"),
        adt(F_SH, "struct", "SignatureAndHashAlgorithm"),
        adt(F_SH, "struct", "DigitallySigned"),
        adt(F_CT, "struct", "CtVersion"),
        adt(F_CT, "struct", "CtLogID"),
        adt(F_CT, "struct", "CtExtensions"),
        adt(F_CT, "struct", "SignedCertificateTimestamp"),
    ]
    + abstract_parser(F_CT, "parse_ct_signed_certificate_timestamp_content", "spec_sct_content", ret="SignedCertificateTimestamp<'a>")
    + [{"file": "-", "kind": "inline", "name": "spec_sct_entry", "text": r'''
// the single-entry parser as a mathematical function (for the list contract)
pub open spec fn spec_sct_entry_fn<'a>() -> spec_fn(&'a [u8]) -> IResult<&'a [u8], SignedCertificateTimestamp<'a>> { fun_of(parse_ct_signed_certificate_timestamp) }
// ASSUMED (definition of fun_of for this parser value): it is total, deterministic and non-growing, and fun_of's value
// is the result the function returns - so everything its verified postcondition says holds of fun_of's value
#[verifier::external_body]
proof fn axiom_entry_is_fun<'a>()
    ensures is_fun(parse_ct_signed_certificate_timestamp),
            forall|j: &'a [u8]| #[trigger] parse_ct_signed_certificate_timestamp.ensures((j,), fun_of(parse_ct_signed_certificate_timestamp)(j)) {}
'''},
        {"file": "-", "kind": "inline", "name": "sct-contract", "text": SPEC},
        {"file": F_CT, "kind": "fn", "name": "parse_ct_extensions", "contract": """
    ensures
        (i@.len() < 2 || i@.len() < 2 + be16s(i@, 0)) ==> r is Err && r->Err_0 is Incomplete,
        i@.len() >= 2 && i@.len() >= 2 + be16s(i@, 0) ==> r is Ok && r->Ok_0.1.0@ =~= i@.subrange(2, 2 + be16s(i@, 0)) && r->Ok_0.0@ =~= i@.subrange(2 + be16s(i@, 0), i@.len() as int),
""", "splices": [{"at_start": True, "text": "    let ghost i0 = i@;\n    proof { reveal_with_fuel(be_val, 3); }"},
                 {"after": r"let \(i, ext_len\) = be_u16\(i\)\?;", "text": "    proof { assert(i@ =~= i0.subrange(2, i0.len() as int)); assert(ext_len as int == be16s(i0, 0)); }"},
                 {"after": r"let \(i, ext_data\) = take\(ext_len as usize\)\(i\)\?;", "text": "    proof { let l = ext_len as int; assert(ext_data@ =~= i0.subrange(2, 2 + l)); assert(i@ =~= i0.subrange(2 + l, i0.len() as int)); }"}]},
        {"file": F_CT, "kind": "fn", "name": "parse_ct_signed_certificate_timestamp", "contract": """
    ensures sct_entry_post(i, r),
""", "splices": [{"at_start": True, "text": "    proof { reveal_with_fuel(be_val, 3); lemma_is_fun_parse_ct_signed_certificate_timestamp_content(); }"}]},
        {"file": F_CT, "kind": "fn", "name": "parse_ct_signed_certificate_timestamp_list", "contract": """
    ensures sct_list_post(i, r),
""", "subst": [
            # R11: the operand of `?` is bound to a local first (same evaluation order), so that a proof hint can name it
            (r"let \(i, sct_list\) = map_parser\(", "let ghost i1 = i;\n    let res = map_parser("),
            (r"\)\(i\)\?;\n(\s*)Ok\(\(i, sct_list\)\)", """)(i);
    proof {
        let (tk, mg) = choose|tk: spec_fn(&[u8]) -> IResult<&[u8], &[u8]>, mg: spec_fn(&[u8]) -> IResult<&[u8], Vec<SignedCertificateTimestamp>>| res == #[trigger] map_parser_fn(tk, mg, i1)
            && take_post(sct_len as int, i1@, tk(i1)) && (tk(i1) is Ok ==> many0_post(completed(spec_sct_entry_fn()), tk(i1)->Ok_0.1, mg(tk(i1)->Ok_0.1)));
        if tk(i1) is Ok {
            let w = tk(i1)->Ok_0.1;
            assert(many0_post(completed(spec_sct_entry_fn()), w, mg(w)));
            assert(w@ =~= i0.subrange(2, 2 + sct_len as int));
        }
    }
    let (i, sct_list) = res?;
\\1Ok((i, sct_list))"""),
         ], "splices": [{"at_start": True, "text": "    let ghost i0 = i@;\n    proof { reveal_with_fuel(be_val, 3); axiom_entry_is_fun(); }"},
                 {"after": r"let \(i, sct_len\) = be_u16\(i\)\?;", "text": """    proof {
        assert(i@ =~= i0.subrange(2, i0.len() as int));
        assert(sct_len as int == be16s(i0, 0));
        let l = sct_len as int;
        if l <= i@.len() {
            assert(i@.subrange(0, l) =~= i0.subrange(2, 2 + l));
            assert(i@.subrange(l, i@.len() as int) =~= i0.subrange(2 + l, i0.len() as int));
        }
    }"""}]},
    ],
    "epilogue": "",
}
