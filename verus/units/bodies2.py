# V-BODIES2 (properties C04, C10, C05, C06, C01): bodies with an optional trailing u16-prefixed block
# (`opt(complete(length_data(be_u16)))`) and the DTLS HelloVerifyRequest, extracted verbatim.
import os, sys
sys.path.insert(0, os.path.dirname(os.path.abspath(__file__)))
from states import UNIT as _ST, adt, F_HS, F_MSG, F_AL, F_EC
from derived_common import newtype_items, INT_SHIMS
import dtls as _d

F_DTLS = "src/dtls.rs"
_types = [it for it in _d.UNIT["items"] if it["kind"] in ("struct", "enum", "newtype_enum")]

SPEC = r'''
pub open spec fn be16s(s: Seq<u8>, o: int) -> int { (s[o] as int) * 256 + (s[o + 1] as int) }
pub open spec fn is_incomplete<T>(r: IResult<&[u8], T>) -> bool { r is Err && r->Err_0 is Incomplete }


// optional trailing block at offset o: present iff a whole u16-prefixed block fits; otherwise absent and nothing consumed
pub open spec fn ext_present(i: Seq<u8>, o: int) -> bool { i.len() >= o + 2 && i.len() >= o + 2 + be16s(i, o) }
pub open spec fn opt_ext_ok(i: Seq<u8>, o: int, ext: Option<&[u8]>, rem: Seq<u8>) -> bool {
    if ext_present(i, o) { ext is Some && ext->Some_0@ =~= i.subrange(o + 2, o + 2 + be16s(i, o)) && rem =~= i.subrange(o + 2 + be16s(i, o), i.len() as int) }
    else { ext is None && rem =~= i.subrange(o, i.len() as int) }
}

// HelloRetryRequest (TLS 1.3 drafts): version u16, cipher u16, optional extension block
pub open spec fn hrr_post(i: Seq<u8>, r: IResult<&[u8], TlsMessageHandshake>) -> bool {
    if i.len() < 4 { is_incomplete(r) }
    else { match r {
        Ok((rem, TlsMessageHandshake::HelloRetryRequest(h))) => h.version.0 as int == be16s(i, 0) && h.cipher.0 as int == be16s(i, 2) && opt_ext_ok(i, 4, h.ext, rem@),
        _ => false } }
}
// ServerHello, TLS 1.3 draft 18 form: version u16, random[32], cipher u16, optional extension block
pub open spec fn sh_d18_post(i: Seq<u8>, r: IResult<&[u8], TlsMessageHandshake>) -> bool {
    if i.len() < 36 { is_incomplete(r) }
    else { match r {
        Ok((rem, TlsMessageHandshake::ServerHelloV13Draft18(h))) => h.version.0 as int == be16s(i, 0) && h.random@ =~= i.subrange(2, 34) && h.cipher.0 as int == be16s(i, 34) && opt_ext_ok(i, 36, h.ext, rem@),
        _ => false } }
}
// DTLS HelloVerifyRequest (RFC 6347 4.2.1): server_version u16, cookie<u8>
pub open spec fn hvr_post(i: Seq<u8>, r: IResult<&[u8], DTLSMessageHandshakeBody>) -> bool {
    if i.len() < 3 || i.len() < 3 + i[2] as int { is_incomplete(r) }
    else { match r {
        Ok((rem, DTLSMessageHandshakeBody::HelloVerifyRequest(h))) => h.server_version.0 as int == be16s(i, 0) && h.cookie@ =~= i.subrange(3, 3 + i[2] as int) && rem@ =~= i.subrange(3 + i[2] as int, i.len() as int),
        _ => false } }
}
'''

OPT_HINT = """)(i);
    proof {
        axiom_be_fun();
        let r0 = fun_of(be_u16)(i1);
        assert(be_post(2, i1@, r0, |v: u16| v as int));
    }
    let (i, ext) = res?;
"""

UNIT = {
    "name": "bodies2",
    "needs_expanded": True,
    "property": ["C04", "C10", "C06", "C01"],
    "prelude": ["shim_nom.rs"],
    "items": _types + [
        {"file": "-", "kind": "inline", "name": "contracts", "text": INT_SHIMS + SPEC},
    ] + newtype_items("TlsVersion", 2) + [
        {"file": F_HS, "kind": "fn", "name": "parse_tls_handshake_msg_hello_retry_request",
         "subst": [
             (r"fn parse_tls_handshake_msg_hello_retry_request\(\s*i: &\[u8\],?\s*\) -> IResult<&\[u8\], TlsMessageHandshake>", "fn parse_tls_handshake_msg_hello_retry_request<'a>(i: &'a [u8]) -> IResult<&'a [u8], TlsMessageHandshake<'a>>"),
             (r"map\(be_u16, TlsCipherSuiteID\)\(i\)\?", "map(be_u16, |x: u16| -> (y: TlsCipherSuiteID) ensures y == TlsCipherSuiteID(x) { TlsCipherSuiteID(x) })(i)?"),
             (r"let \(i, ext\) = opt\(", "let ghost i1 = i;\n    let res = opt("),
             (r"\)\(i\)\?;\n(\s*)let content", OPT_HINT + "\\1let content"),
         ],
         "splices": [{"at_start": True, "text": "    let ghost i0 = i@;\n    proof { reveal_with_fuel(be_val, 3); axiom_be_fun(); }"},
                     {"after": r"let \(i, version\) = TlsVersion::parse\(i\)\?;", "text": "    let ghost ia = i@;\n    proof { assert(ia =~= i0.subrange(2, i0.len() as int)); assert(version.0 as int == be16s(i0, 0)); }"},
                     {"after": r"let \(i, cipher\) = map\(be_u16", "text": "    proof { assert(ia.len() >= 2); assert(i@ =~= i0.subrange(4, i0.len() as int)); assert(cipher.0 as int == be16s(i0, 2)); }"}],
         "contract": "    ensures hrr_post(i@, r),"},
        {"file": F_HS, "kind": "fn", "name": "parse_tls_handshake_msg_server_hello_tlsv13draft18",
         "subst": [
             (r"^fn parse_tls_handshake_msg_server_hello_tlsv13draft18\(\s*i: &\[u8\],?\s*\) -> IResult<&\[u8\], TlsMessageHandshake>", "pub fn parse_tls_handshake_msg_server_hello_tlsv13draft18<'a>(i: &'a [u8]) -> IResult<&'a [u8], TlsMessageHandshake<'a>>"),
             (r"map\(be_u16, TlsCipherSuiteID\)\(i\)\?", "map(be_u16, |x: u16| -> (y: TlsCipherSuiteID) ensures y == TlsCipherSuiteID(x) { TlsCipherSuiteID(x) })(i)?"),
             (r"let \(i, ext\) = opt\(", "let ghost i1 = i;\n    let res = opt("),
             (r"\)\(i\)\?;\n(\s*)let content", OPT_HINT + "\\1let content"),
         ],
         "splices": [{"at_start": True, "text": "    let ghost i0 = i@;\n    proof { reveal_with_fuel(be_val, 3); axiom_be_fun(); }"},
                     {"after": r"let \(i, version\) = TlsVersion::parse\(i\)\?;", "text": "    let ghost ia = i@;\n    proof { assert(ia =~= i0.subrange(2, i0.len() as int)); assert(version.0 as int == be16s(i0, 0)); }"},
                     {"after": r"let \(i, random\) = take\(32usize\)\(i\)\?;", "text": "    let ghost ib = i@;\n    proof { assert(random@ =~= i0.subrange(2, 34)); assert(ib =~= i0.subrange(34, i0.len() as int)); }"},
                     {"after": r"let \(i, cipher\) = map\(be_u16", "text": "    proof { assert(ib.len() >= 2); assert(i@ =~= i0.subrange(36, i0.len() as int)); assert(cipher.0 as int == be16s(i0, 34)); }"}],
         "contract": "    ensures sh_d18_post(i@, r),"},
        {"file": F_DTLS, "kind": "fn", "name": "parse_dtls_hello_verify_request", "contract": "    ensures hvr_post(i@, r),",
         "subst": [(r"^fn parse_dtls_hello_verify_request", "pub fn parse_dtls_hello_verify_request")],
         "splices": [{"at_start": True, "text": "    let ghost i0 = i@;\n    proof { reveal_with_fuel(be_val, 3); }"},
                     {"after": r"let \(i, server_version\) = TlsVersion::parse\(i\)\?;", "text": "    let ghost ia = i@;\n    proof { assert(ia =~= i0.subrange(2, i0.len() as int)); assert(server_version.0 as int == be16s(i0, 0)); }"},
                     {"after": r"let \(i, cookie\) = length_data\(be_u8\)\(i\)\?;", "text": "    proof { assert(ia.len() >= 1); assert(ia[0] == i0[2]); let l = i0[2] as int; assert(cookie@ =~= i0.subrange(3, 3 + l)); assert(i@ =~= i0.subrange(3 + l, i0.len() as int)); }"}]},
    ],
    "epilogue": "",
}
