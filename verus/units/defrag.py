# V-DEFRAG (properties C07, C01, C06): impl TlsRecordsParser extracted verbatim (R0, R2, R3, R5, R6)
# with the one-shot payload parser abstract (uninterpreted spec function).
import os, sys
sys.path.insert(0, os.path.dirname(__file__))
from states import UNIT as _ST, adt, F_HS, F_MSG, F_AL, F_EC

F_RP = "src/tls_records_parser.rs"
F_REC = "src/tls_record.rs"

# all message types (same list as the states unit) minus the state-machine items
_types = [it for it in _ST["items"] if it["kind"] in ("struct", "enum", "newtype_enum") and it["file"] in (F_HS, F_MSG, F_AL, F_EC)]

MODEL = r'''
// ------------------------------------------------------------------ abstract payload parser
// parse_tls_record_with_header is NOT verified here: it is some deterministic function of
// (payload bytes, header) - the weakest possible assumption.  PResult is its result type.
pub type PResult = IResult<&'static [u8], Vec<TlsMessage<'static>>>;

pub uninterp spec fn spec_prwh(i: Seq<u8>, hdr: TlsRecordHeader) -> PResult;

#[verifier::external_body]
pub fn parse_tls_record_with_header<'i>(i: &'i [u8], hdr: &TlsRecordHeader) -> (r: IResult<&'i [u8], Vec<TlsMessage<'i>>>)
    ensures r == spec_prwh(i@, *hdr),
{ unimplemented!() }

// ------------------------------------------------------------------ abstract state + step (from the property)
// derive(Default): Vec::default() is empty and Option::default() is None (ASSUMED: the derived impl is
// outside Verus's reach; checked on the real type by Kani harness fd_defrag_default)
pub assume_specification[ <TlsRecordsParser as core::default::Default>::default ]() -> (r: TlsRecordsParser)
    ensures r.buf().len() == 0, r.cur() is None;

impl TlsRecordsParser {
    pub closed spec fn buf(&self) -> Seq<u8> { self.record_defrag_buffer@ }
    pub closed spec fn cur(&self) -> Option<TlsRecordType> { self.current_record_type }
}

pub open spec fn is_err_complete(p: PResult) -> bool {
    match p {
        Err(Err::Error(e)) => e.code == ErrorKind::Complete,
        Err(Err::Failure(e)) => e.code == ErrorKind::Complete,
        _ => false,
    }
}
pub open spec fn is_incomplete(p: PResult) -> bool {
    match p { Err(Err::Incomplete(_)) => true, _ => false }
}
// "the one-shot parser says: not yet a whole message"
pub open spec fn is_fragment(p: PResult) -> bool { is_incomplete(p) || is_err_complete(p) }

pub open spec fn incomplete_unknown() -> PResult { Err(Err::Incomplete(Needed::Unknown)) }

pub open spec fn is_refusal(r: PResult, failure: bool, code: ErrorKind) -> bool {
    match r {
        Err(Err::Error(e)) => !failure && e.code == code && e.input@.len() == 0,
        Err(Err::Failure(e)) => failure && e.code == code && e.input@.len() == 0,
        _ => false,
    }
}

pub open spec fn never_buffered(t: TlsRecordType) -> bool { t.0 == 0x14 || t.0 == 0x15 }

// pseudo header under which the glued buffer is re-parsed: same type and version, len = the
// buffer length cast to u16 (for n >= 65536 Verus leaves the value of the truncating cast abstract,
// so everything below holds whatever the truncation yields)
pub open spec fn pseudo_header(hdr: TlsRecordHeader, n: usize) -> TlsRecordHeader {
    TlsRecordHeader { record_type: hdr.record_type, version: hdr.version, len: n as u16 }
}

// the defragmenter's documented limit: 10 MiB
pub open spec fn ten_mib() -> int { 10485760int }

pub struct St { pub buf: Seq<u8>, pub cur: Option<TlsRecordType> }

// nocopy: what the result must be, given the abstract state
pub open spec fn nocopy_ok(st: St, hdr: TlsRecordHeader, data: Seq<u8>, r: PResult) -> bool {
    if st.cur is Some {
        is_refusal(r, true, ErrorKind::NonEmpty)
    } else {
        let p = spec_prwh(data, hdr);
        if is_err_complete(p) { r == incomplete_unknown() } else { r == p }
    }
}

// parse_record: (new state, result) given the abstract state
pub open spec fn record_ok(st: St, hdr: TlsRecordHeader, data: Seq<u8>, st2: St, r: PResult) -> bool {
    if st.cur is None {
        if never_buffered(hdr.record_type) {
            st2 == st && nocopy_ok(st, hdr, data, r)
        } else {
            let p = spec_prwh(data, hdr);
            if p is Ok { st2 == st && r == p }                       // parses on its own: returned without buffering
            else if is_fragment(p) {                                  // start defragmenting
                st2.cur == Some(hdr.record_type) && st2.buf =~= data && r == incomplete_unknown()
            } else { st2 == st && r == p }
        }
    } else {
        if Some(hdr.record_type) != st.cur {
            st2 == st && is_refusal(r, false, ErrorKind::Tag)         // other content type refused, state unchanged
        } else if st.buf.len() + data.len() >= ten_mib() {
            st2 == st && is_refusal(r, false, ErrorKind::TooLarge)    // would reach 10 MiB: refused, state unchanged
        } else {
            let nb = st.buf + data;
            let p = spec_prwh(nb, pseudo_header(hdr, nb.len() as usize));
            st2.buf =~= nb
            && if p is Ok { st2.cur is None && r == p }               // completed: exactly the one-shot result on the concatenation
               else if is_err_complete(p) { st2.cur == st.cur && r == incomplete_unknown() }
               else { st2.cur == st.cur && r == p }
        }
    }
}
'''

HISTORY = r'''
// ------------------------------------------------------------------ history lemmas (all call sequences)
pub struct Frag { pub hdr: TlsRecordHeader, pub data: Seq<u8> }

pub open spec fn concat(fs: Seq<Frag>, k: int) -> Seq<u8>
    decreases k
{
    if k <= 0 { Seq::<u8>::empty() } else { concat(fs, k - 1) + fs[k - 1].data }
}

// header under which the one-shot parser sees the first k fragments glued together
pub open spec fn hdr_at(fs: Seq<Frag>, k: int) -> TlsRecordHeader {
    if k == 1 { fs[0].hdr } else { pseudo_header(fs[k - 1].hdr, concat(fs, k).len() as usize) }
}

// a run of same-type fragments whose proper prefixes are all "not yet a whole message"
pub open spec fn fragment_run(fs: Seq<Frag>) -> bool {
    fs.len() >= 1
    && !never_buffered(fs[0].hdr.record_type)
    && (forall|j: int| 0 <= j < fs.len() ==> #[trigger] fs[j].hdr.record_type == fs[0].hdr.record_type)
    && (forall|k: int| 1 <= k < fs.len() ==> is_fragment(#[trigger] spec_prwh(concat(fs, k), hdr_at(fs, k))))
    && concat(fs, fs.len() as int).len() < ten_mib()
}

// the abstract state after feeding the first k fragments (1 <= k < n) of a fragment run to parse_record
pub open spec fn mid_state(fs: Seq<Frag>, k: int) -> St {
    St { buf: concat(fs, k), cur: Some(fs[0].hdr.record_type) }
}

proof fn lemma_concat_len_mono(fs: Seq<Frag>, k: int, n: int)
    requires 0 <= k <= n
    ensures concat(fs, k).len() <= concat(fs, n).len()
    decreases n - k
{
    if k < n { lemma_concat_len_mono(fs, k, n - 1); }
}

// ACCUMULATE-THEN-PARSE, step form: starting from any idle state (cur == None: a fresh parser, after
// reset(), or after a completed message - whatever bytes the buffer still holds), every result
// record_ok allows for the k-th call of a fragment run is Incomplete with defragmentation in
// progress for k < n, and for k == n it is exactly the one-shot parser's answer on the glued payload.
proof fn lemma_accumulate_step(fs: Seq<Frag>, k: int, st: St, st2: St, r: PResult)
    requires
        fragment_run(fs),
        1 <= k <= fs.len(),
        k == 1 ==> st.cur is None,
        k >= 2 ==> st == mid_state(fs, k - 1),
        record_ok(st, fs[k - 1].hdr, fs[k - 1].data, st2, r),
        // the glued payload of all fragments parses (the "last one completes the first message" case)
        spec_prwh(concat(fs, fs.len() as int), hdr_at(fs, fs.len() as int)) is Ok,
    ensures
        // every call but the last answers Incomplete, with defragmentation in progress
        k < fs.len() ==> is_incomplete(r) && st2 == mid_state(fs, k) && st2.cur is Some,
        // the last returns exactly the one-shot parser's answer on the unsplit payload and ends defragmentation
        k == fs.len() && k >= 2 ==> r == spec_prwh(concat(fs, k), hdr_at(fs, k)) && st2.cur is None,
        k == fs.len() && k == 1 ==> r == spec_prwh(fs[0].data, fs[0].hdr) && st2 == st,
{
    reveal_with_fuel(concat, 2);
    assert(concat(fs, 1) =~= fs[0].data);
    lemma_concat_len_mono(fs, k, fs.len() as int);
    let hdr = fs[k - 1].hdr;
    let data = fs[k - 1].data;
    assert(hdr.record_type == fs[0].hdr.record_type);
    if k == 1 {
        let p = spec_prwh(data, hdr);
        assert(hdr_at(fs, 1) == fs[0].hdr);
        if k < fs.len() {
            assert(is_fragment(spec_prwh(concat(fs, 1), hdr_at(fs, 1))));
            assert(is_fragment(p));
            assert(st2.buf =~= concat(fs, 1));
            assert(st2 == mid_state(fs, 1));
        }
    } else {
        assert(concat(fs, k) =~= concat(fs, k - 1) + data);
        let nb = st.buf + data;
        assert(nb =~= concat(fs, k));
        assert(hdr_at(fs, k) == pseudo_header(hdr, nb.len() as usize));
        let p = spec_prwh(nb, pseudo_header(hdr, nb.len() as usize));
        if k < fs.len() {
            assert(is_fragment(spec_prwh(concat(fs, k), hdr_at(fs, k))));
            assert(is_fragment(p));
            assert(st2.buf =~= concat(fs, k));
            assert(st2 == mid_state(fs, k));
        }
    }
}

// FRESHNESS: from an idle state the outcome of any call does not depend on the stale buffer, i.e. it
// equals the outcome on a fresh parser; so after reset() and after a completed message no byte of
// earlier records can influence (or appear in) later results.
proof fn lemma_fresh(st: St, hdr: TlsRecordHeader, data: Seq<u8>, st2: St, r: PResult)
    requires st.cur is None, record_ok(st, hdr, data, st2, r),
    ensures
        record_ok(St { buf: Seq::<u8>::empty(), cur: None }, hdr, data,
                  St { buf: if st2.cur is Some { st2.buf } else { Seq::<u8>::empty() }, cur: st2.cur }, r),
        st2.cur is Some ==> st2.buf == data,
{
}

// REFUSALS leave the state unchanged, so a foreign-type record, an oversize fragment or a nocopy call in
// the middle of a fragment run does not disturb it.
proof fn lemma_refusals_frame(st: St, hdr: TlsRecordHeader, data: Seq<u8>, st2: St, r: PResult)
    requires st.cur is Some, record_ok(st, hdr, data, st2, r),
    ensures
        Some(hdr.record_type) != st.cur ==> st2 == st && is_refusal(r, false, ErrorKind::Tag),
        Some(hdr.record_type) == st.cur && st.buf.len() + data.len() >= ten_mib() ==> st2 == st && is_refusal(r, false, ErrorKind::TooLarge),
        // size invariant: whenever a fragment is accepted the buffer stays strictly below 10 MiB
        st2.buf.len() < ten_mib() || st2 == st,
{
}
'''

UNIT = {
    "name": "defrag",
    "property": ["C07", "C01", "C06"],
    "prelude": ["shim_nom.rs"],
    "items": _types + [
        adt(F_REC, "struct", "TlsRecordType"),
        adt(F_REC, "newtype_enum", "TlsRecordType"),
        adt(F_REC, "struct", "TlsRecordHeader"),
        adt(F_REC, "struct", "TlsRawRecord"),
        {"file": F_RP, "kind": "const", "name": "MAX_RECORD_DATA", "ensures": "MAX_RECORD_DATA == 10485760"},
        adt(F_RP, "struct", "TlsRecordsParser"),
        {"file": "-", "kind": "inline", "name": "model", "text": MODEL},
        {"file": F_RP, "kind": "impl", "name": "TlsRecordsParser", "methods": {
            "reset": {"contract": """
        ensures final(self).cur() is None, final(self).buf().len() == 0,
"""},
            "defrag_in_progress": {"returns": "b", "contract": """
        ensures b == self.cur() is Some,
"""},
            "parse_record_nocopy": {"rewrites": ["R2"], "contract": """
        ensures
            final(self).buf() == old(self).buf() && final(self).cur() == old(self).cur(),
            nocopy_ok(St { buf: old(self).buf(), cur: old(self).cur() }, record.hdr, record.data@, r),
"""},
            "parse_record": {"rewrites": ["R2"], "splices": [{"after": r"\.\.record\.hdr\s*\n\s*\};", "text": """        proof {
            // hint: the glued buffer and the pseudo header are the ones the contract names
            let nb = old(self).buf() + record.data@;
            assert(self.buf() =~= nb);
            assert(header.len == (nb.len() as usize) as u16);
            assert(header == pseudo_header(record.hdr, nb.len() as usize));
        }"""}], "subst": [(r"len: self\.record_defrag_buffer\.len\(\) as u16,", "len: #[verifier::truncate] (self.record_defrag_buffer.len() as u16),", "optional")], "contract": """
        ensures
            record_ok(St { buf: old(self).buf(), cur: old(self).cur() }, record.hdr, record.data@,
                      St { buf: final(self).buf(), cur: final(self).cur() }, r),
"""},
        }},
    ],
    "epilogue": HISTORY,
}
