# V-DTLS-MANY (properties C10, C16): DTLS record-payload container, record glue (closure, R9) and datagram
# parser extracted from src/dtls.rs; per-message parsers and the 13-byte header parser abstract.
import os, sys
sys.path.insert(0, os.path.dirname(os.path.abspath(__file__)))
from states import UNIT as _ST, adt, F_HS, F_MSG, F_AL, F_EC
from many import abstract_parser
import dtls as _d

F_REC = "src/tls_record.rs"
F_DTLS = "src/dtls.rs"
_types = [it for it in _d.UNIT["items"] if it["kind"] in ("struct", "enum", "newtype_enum")]

SPEC = r'''
pub open spec fn is_incomplete<T>(r: IResult<&[u8], T>) -> bool { r is Err && r->Err_0 is Incomplete }
pub open spec fn repeat1<'a, O>(p: spec_fn(&'a [u8]) -> IResult<&'a [u8], O>, i: &'a [u8], r: IResult<&'a [u8], Vec<O>>) -> bool {
    many1_post(completed(p), i, r)
}
pub open spec fn be16s(s: Seq<u8>, o: int) -> int { (s[o] as int) * 256 + (s[o + 1] as int) }
pub open spec fn record_cap() -> int { 16640int }

// record payload: CCS / alert / handshake are the explicit loop over the per-message parser; every other type is rejected
pub open spec fn dtls_prwh_post<'a>(i: &'a [u8], hdr: DTLSRecordHeader, r: IResult<&'a [u8], Vec<DTLSMessage<'a>>>) -> bool {
    let t = hdr.content_type.0;
    if t == 0x14 { repeat1(spec_dtls_ccs_fn(), i, r) }
    else if t == 0x15 { repeat1(spec_dtls_alert_fn(), i, r) }
    else if t == 0x16 { repeat1(spec_dtls_hs_fn(), i, r) }
    else { r == Err::<(&[u8], Vec<DTLSMessage>), Err<Error<&[u8]>>>(Err::Error(Error { input: i, code: ErrorKind::Switch })) }
}

'''

UNIT = {
    "name": "dtls_many",
    "property": ["C10", "C16"],
    "prelude": ["shim_nom.rs"],
    "items": [t for t in _types if t["kind"] != "const"]
    + abstract_parser(F_DTLS, "parse_dtls_message_changecipherspec", "spec_dtls_ccs", ret="DTLSMessage<'a>")
    + abstract_parser(F_DTLS, "parse_dtls_message_alert", "spec_dtls_alert", ret="DTLSMessage<'a>")
    + abstract_parser(F_DTLS, "parse_dtls_message_handshake", "spec_dtls_hs", ret="DTLSMessage<'a>")
    + abstract_parser(F_DTLS, "parse_dtls_plaintext_record", "spec_dtls_record", ret="DTLSPlaintext<'a>")
    + [
        {"file": "-", "kind": "inline", "name": "dtls-container-contract", "text": SPEC},
        {"file": F_DTLS, "kind": "fn", "name": "parse_dtls_record_with_header", "contract": """
    ensures dtls_prwh_post(i, *hdr, r),
""", "splices": [{"at_start": True, "text": """    proof {
        lemma_is_fun_parse_dtls_message_changecipherspec();
        lemma_is_fun_parse_dtls_message_alert();
        lemma_is_fun_parse_dtls_message_handshake();
    }"""}]},
        {"file": F_DTLS, "kind": "fn", "name": "parse_dtls_plaintext_records", "contract": """
    ensures repeat1(spec_dtls_record_fn(), i, r),
""", "splices": [{"at_start": True, "text": "    proof { lemma_is_fun_parse_dtls_plaintext_record(); }"}]},
    ],
    "epilogue": "",
}
