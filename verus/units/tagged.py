# V-TAGGED (property C05, C06): the 16 single-purpose ("tag-specific") extension parsers, extracted verbatim: each accepts
# exactly its own IANA type (2-byte tag), then frames the u16-length-prefixed data and returns its content parser's
# verdict on EXACTLY the declared bytes - which is what the generic dispatcher is proved to do for that type in unit
# dispatch_ext, so the two agree (lemma), except where stated (heartbeat: see the known finding).
import os, sys
sys.path.insert(0, os.path.dirname(os.path.abspath(__file__)))
import dispatch_ext as _de

F_EXT = "src/tls_extensions.rs"
_pre = [it for it in _de.UNIT["items"] if it["kind"] in ("struct", "enum", "newtype_enum") or it.get("name") == "ext_type_of_spec"]

SPEC = r'''
// what a tag-specific parser for type T must answer: T's two bytes (nom's streaming `tag`: a mismatching byte is
// Error(Tag) even when the input is short), u16 length, then the content parser's verdict on exactly the data
pub open spec fn tagged_post(hi: u8, lo: u8, i: Seq<u8>, r: IResult<&[u8], TlsExtension>, c: spec_fn(Seq<u8>, u16) -> IResult<&'static [u8], TlsExtension<'static>>) -> bool {
    if i.len() >= 1 && i[0] != hi { r is Err && r->Err_0 is Error && r->Err_0->Error_0.code == ErrorKind::Tag }
    else if i.len() >= 2 && i[1] != lo { r is Err && r->Err_0 is Error && r->Err_0->Error_0.code == ErrorKind::Tag }
    else if i.len() < 4 { r is Err && r->Err_0 is Incomplete }
    else {
        let l = (i[2] as int) * 256 + (i[3] as int);
        if i.len() < 4 + l { r == Err::<(&[u8], TlsExtension), Err<Error<&[u8]>>>(Err::Incomplete(Needed::Size((4 + l - i.len()) as usize))) }
        else { match c(i.subrange(4, 4 + l), l as u16) {
            Ok((_, e)) => (match r { Ok((rm, e2)) => e2 == e && rm@ =~= i.subrange(4 + l, i.len() as int), _ => false }),
            Err(e) => r == Err::<(&[u8], TlsExtension), Err<Error<&[u8]>>>(e),
        } }
    }
}
// heartbeat: as above, but a declared length other than 1 is rejected (Verify) BEFORE the data is framed
pub open spec fn tagged_heartbeat_post(i: Seq<u8>, r: IResult<&[u8], TlsExtension>) -> bool {
    if i.len() >= 1 && i[0] != 0 { r is Err && r->Err_0 is Error && r->Err_0->Error_0.code == ErrorKind::Tag }
    else if i.len() >= 2 && i[1] != 15 { r is Err && r->Err_0 is Error && r->Err_0->Error_0.code == ErrorKind::Tag }
    else if i.len() < 4 { r is Err && r->Err_0 is Incomplete }
    else {
        let l = (i[2] as int) * 256 + (i[3] as int);
        if l != 1 { r is Err && r->Err_0 is Error && r->Err_0->Error_0.code == ErrorKind::Verify }
        else { tagged_post(0, 15, i, r, |d: Seq<u8>, l: u16| spec_parse_tls_extension_heartbeat_content(d)) }
    }
}

// "accepts exactly its own IANA type": any other type on the wire is an error
proof fn lemma_tagged_rejects_other_types(hi: u8, lo: u8, i: Seq<u8>, r: IResult<&[u8], TlsExtension>, c: spec_fn(Seq<u8>, u16) -> IResult<&'static [u8], TlsExtension<'static>>)
    requires tagged_post(hi, lo, i, r, c), i.len() >= 2, be_val(i, 2) != (hi as int) * 256 + (lo as int),
    ensures r is Err && r->Err_0 is Error,
{
    reveal_with_fuel(be_val, 3);
}
// "... and then agrees with the generic parser": same outcome class, value and remainder as the generic dispatcher
// whenever the wire type is T, T is not a GREASE value and the generic table sends T to the same content parser
proof fn lemma_tagged_agrees_with_generic(hi: u8, lo: u8, t: u16, i: Seq<u8>, r: IResult<&[u8], TlsExtension>, g: IResult<&[u8], TlsExtension>,
                                          c: spec_fn(Seq<u8>, u16) -> IResult<&'static [u8], TlsExtension<'static>>)
    requires tagged_post(hi, lo, i, r, c), dispatch_post(i, g, |t: u16, d: Seq<u8>, l: u16| generic_table(t, d, l)),
        t as int == (hi as int) * 256 + (lo as int),
        i.len() >= 2, be_val(i, 2) == t as int, !is_grease(t),
        forall|d: Seq<u8>, l: u16| generic_table(t, d, l) == Some(#[trigger] c(d, l)),
    ensures ext_out(r) == ext_out(g) || (i.len() < 4 && r is Err && g is Err && r->Err_0 is Incomplete && g->Err_0 is Incomplete),
{
    reveal_with_fuel(be_val, 3);
    if i.len() >= 4 {
        let l = (i[2] as int) * 256 + (i[3] as int);
        if i.len() >= 4 + l {
            let d = i.subrange(4, 4 + l);
            assert(generic_table(t, d, l as u16) == Some(c(d, l as u16)));
            match c(d, l as u16) {
                Ok((_, e)) => { assert(r->Ok_0.0@ =~= g->Ok_0.0@); }
                Err(e) => {}
            }
        }
    }
}
'''

# (wire type, tag-specific fn, content fn, content takes ext_len, shape)
TAGGED = [
    (0, "parse_tls_extension_sni", "parse_tls_extension_sni_content", False, "A"),
    (1, "parse_tls_extension_max_fragment_length", "parse_tls_extension_max_fragment_length_content", False, "A"),
    (5, "parse_tls_extension_status_request", "parse_tls_extension_status_request_content", True, "B"),
    (10, "parse_tls_extension_elliptic_curves", "parse_tls_extension_elliptic_curves_content", False, "A"),
    (11, "parse_tls_extension_ec_point_formats", "parse_tls_extension_ec_point_formats_content", False, "A"),
    (13, "parse_tls_extension_signature_algorithms", "parse_tls_extension_signature_algorithms_content", False, "A"),
    (22, "parse_tls_extension_encrypt_then_mac", "parse_tls_extension_encrypt_then_mac_content", True, "B"),
    (23, "parse_tls_extension_extended_master_secret", "parse_tls_extension_extended_master_secret_content", True, "B"),
    (35, "parse_tls_extension_session_ticket", "parse_tls_extension_session_ticket_content", True, "B"),
    (51, "parse_tls_extension_key_share", "parse_tls_extension_key_share_content", True, "B"),
    (41, "parse_tls_extension_pre_shared_key", "parse_tls_extension_pre_shared_key_content", True, "B"),
    (42, "parse_tls_extension_early_data", "parse_tls_extension_early_data_content", True, "B"),
    (43, "parse_tls_extension_supported_versions", "parse_tls_extension_supported_versions_content", True, "B"),
    (44, "parse_tls_extension_cookie", "parse_tls_extension_cookie_content", True, "B"),
    (45, "parse_tls_extension_psk_key_exchange_modes", "parse_tls_extension_psk_key_exchange_modes_content", False, "C"),
]

HEAD = [{"at_start": True, "text": "    let ghost i0 = i@;\n    proof { reveal_with_fuel(be_val, 3); }"},
        {"after": r"let \(i, _\) = tag\([^;]*;", "text": "    let ghost i1 = i@;\n    proof { assert(i1 =~= i0.subrange(2, i0.len() as int)); }"}]
LEN_HINT = {"after": r"let \(i, ext_len\) = [^;]*;", "text": "    proof { assert(ext_len as int == (i0[2] as int) * 256 + (i0[3] as int)); assert(i@ =~= i0.subrange(4, i0.len() as int)); }"}


# R11 on the final expression: `map_parser(..)(i)` -> `let res = map_parser(..)(i); proof {..} res`
TAKE_HINT = """)(i);
    proof {
        let l = ext_len as int;
        let r1 = choose|r1: IResult<&[u8], &[u8]>| #[trigger] take_post(l, i2@, r1)
            && res == (match r1 { Ok((rem, o1)) => (match %(spec)s(o1@%(larg)s) { Ok((_, o2)) => Ok((rem, o2)), Err(e) => Err(e) }), Err(e) => Err(e) });
        if r1 is Ok {
            assert(r1->Ok_0.1@ =~= i0.subrange(4, 4 + l));
            assert(r1->Ok_0.0@ =~= i0.subrange(4 + l, i0.len() as int));
        }
    }
    res
}"""
LD_HINT = """)(i);
    proof {
        let (r0, r1) = choose|r0: IResult<&[u8], u16>, r1: IResult<&[u8], &[u8]>| be_post(2, i2@, r0, |v: u16| v as int) && #[trigger] length_data_post(r0, r1)
            && res == (match r1 { Ok((rem, o1)) => (match %(spec)s(o1@%(larg)s) { Ok((_, o2)) => Ok((rem, o2)), Err(e) => Err(e) }), Err(e) => Err(e) });
        if r1 is Ok {
            let l = (i0[2] as int) * 256 + (i0[3] as int);
            assert(r0 is Ok && r0->Ok_0.1 as int == l);
            assert(r1->Ok_0.1@ =~= i0.subrange(4, 4 + l));
            assert(r1->Ok_0.0@ =~= i0.subrange(4 + l, i0.len() as int));
        }
    }
    res
}"""


def tagged(t, fn, content, has_len, shape):
    cspec = "|d: Seq<u8>, l: u16| spec_%s(d%s)" % (content, ", l" if has_len else "")
    sub = [(r"fn %s\(i: &\[u8\]\) -> IResult<&\[u8\], TlsExtension>" % fn, "fn %s<'a>(i: &'a [u8]) -> IResult<&'a [u8], TlsExtension<'a>>" % fn)]
    sp = list(HEAD)
    if shape == "B":
        # R9: closure signature explicit, with its contract (what the callee's contract says)
        sub.append((r"move \|d\| \{\s*%s\(d, ext_len\)\s*\}" % content,
                    "move |d: &'a [u8]| -> (r2: IResult<&'a [u8], TlsExtension<'a>>) ensures r2 == spec_%s(d@, ext_len) { %s(d, ext_len) }" % (content, content)))
        sp.append(LEN_HINT)
    elif shape == "C":
        sp.append(LEN_HINT)
    hint = (LD_HINT if shape == "A" else TAKE_HINT) % {"spec": "spec_" + content, "larg": ", ext_len" if has_len else ""}
    sub.append((r"\n    map_parser\(", "\n    let ghost i2 = i;\n    let res = map_parser("))
    sub.append((r"\)\(i\)\n\}\s*$", hint))
    return {"file": F_EXT, "kind": "fn", "name": fn, "subst": sub, "splices": sp,
            "contract": "    ensures tagged_post(%d, %d, i@, r, %s)," % (t >> 8, t & 0xff, cspec)}


UNIT = {
    "name": "tagged",
    "property": ["C05", "C06"],
    "prelude": ["shim_nom.rs"],
    "items": _pre + _de.callee_items() + [
        {"file": "-", "kind": "inline", "name": "dispatch-contract", "text": _de.SPEC},
        {"file": "-", "kind": "inline", "name": "tagged-contract", "text": SPEC},
    ] + [tagged(*row) for row in TAGGED] + [
        {"file": F_EXT, "kind": "fn", "name": "parse_tls_extension_heartbeat",
         "subst": [(r"fn parse_tls_extension_heartbeat\(i: &\[u8\]\) -> IResult<&\[u8\], TlsExtension>", "fn parse_tls_extension_heartbeat<'a>(i: &'a [u8]) -> IResult<&'a [u8], TlsExtension<'a>>"),
                   # R15
                   (r"verify\(be_u16, \|&n\| n == 1\)", "verify(be_u16, |n: &u16| -> (b: bool) ensures b == (*n == 1) { *n == 1 })"),
                   (r"\n    map_parser\(", "\n    let ghost i2 = i;\n    let res = map_parser("),
                   (r"\)\(i\)\n\}\s*$", TAKE_HINT % {"spec": "spec_parse_tls_extension_heartbeat_content", "larg": ""})],
         "splices": HEAD + [LEN_HINT],
         "contract": "    ensures tagged_heartbeat_post(i@, r),"},
    ],
    "epilogue": "// the premises of lemma_tagged_agrees_with_generic hold for every row: the generic table sends the tag-specific parser's\n"
                "// type to the SAME content parser, and no row is a GREASE code point\n"
                "proof fn lemma_rows_agree()\n    ensures\n" + "".join(
                    "        !is_grease(%du16), forall|d: Seq<u8>, l: u16| #[trigger] generic_table(%du16, d, l) == Some(spec_%s(d%s)),\n" % (t, t, c, ", l" if hl else "")
                    for t, _, c, hl, _ in TAGGED) +
                "        !is_grease(15u16), forall|d: Seq<u8>, l: u16| #[trigger] generic_table(15u16, d, l) == Some(spec_parse_tls_extension_heartbeat_content(d)),\n"
                "{\n" + "".join("    assert(!is_grease(%du16)) by (bit_vector) requires is_grease(%du16) == ((%du16 & 0x0f0f) == 0x0a0a && (%du16 >> 8) == (%du16 & 0xff));\n" % (t, t, t, t, t) for t in [r[0] for r in TAGGED] + [15]) + "}\n",
}
