# V-BODIES (properties C04, C05, C14, C01, C06): closure-free body / content parsers extracted verbatim and proved
# against their wire-format contracts for EVERY input length (the Kani leaves check the same contracts on the
# compiled code, bounded). Includes the two manual-subtraction guard sites `len - 4` and `ext_len - 1`.
import os, sys
sys.path.insert(0, os.path.dirname(os.path.abspath(__file__)))
from states import adt, F_HS, F_EC
import dispatch_ext as _de

F_EXT = "src/tls_extensions.rs"
F_CT = "src/certificate_transparency.rs"
_ext_types = [it for it in _de.UNIT["items"] if it["kind"] in ("struct", "enum", "newtype_enum")]

SPEC = r'''
pub open spec fn be16s(s: Seq<u8>, o: int) -> int { (s[o] as int) * 256 + (s[o + 1] as int) }
pub open spec fn be24s(s: Seq<u8>, o: int) -> int { (s[o] as int) * 65536 + (s[o + 1] as int) * 256 + (s[o + 2] as int) }
pub open spec fn be32s(s: Seq<u8>, o: int) -> int { (s[o] as int) * 16777216 + (s[o + 1] as int) * 65536 + (s[o + 2] as int) * 256 + (s[o + 3] as int) }
pub open spec fn is_incomplete<T>(r: IResult<&[u8], T>) -> bool { r is Err && r->Err_0 is Incomplete }

// CertificateStatus (RFC 6066 8): status_type u8, OCSPResponse<u24>
pub open spec fn certstatus_post(i: Seq<u8>, r: IResult<&[u8], TlsCertificateStatusContents>) -> bool {
    if i.len() < 4 || i.len() < 4 + be24s(i, 1) { is_incomplete(r) }      // blob longer than the body: never a value
    else { let l = be24s(i, 1); match r {
        Ok((rem, c)) => c.status_type == i[0] && c.blob@ =~= i.subrange(4, 4 + l) && rem@ =~= i.subrange(4 + l, i.len() as int),
        Err(_) => false } }
}
// NextProtocol (draft-agl-tls-nextprotoneg): selected_protocol<u8>, padding<u8>
pub open spec fn nextproto_post(i: Seq<u8>, r: IResult<&[u8], TlsNextProtocolContent>) -> bool {
    if i.len() < 1 || i.len() < 2 + (i[0] as int) || i.len() < 2 + (i[0] as int) + (i[1 + i[0] as int] as int) { is_incomplete(r) }
    else { let a = i[0] as int; let b = i[1 + a] as int; match r {
        Ok((rem, c)) => c.selected_protocol@ =~= i.subrange(1, 1 + a) && c.padding@ =~= i.subrange(2 + a, 2 + a + b) && rem@ =~= i.subrange(2 + a + b, i.len() as int),
        Err(_) => false } }
}
// NewSessionTicket (RFC 5077): lifetime hint u32, then the remaining len-4 bytes; shorter than 4 bytes is rejected
pub open spec fn ticket_post(i: Seq<u8>, len: usize, r: IResult<&[u8], TlsMessageHandshake>) -> bool {
    if len < 4 { r is Err && r->Err_0 is Error && r->Err_0->Error_0.code == ErrorKind::Verify }
    else if i.len() < 4 || i.len() < len { is_incomplete(r) }
    else { match r {
        Ok((rem, TlsMessageHandshake::NewSessionTicket(t))) => t.ticket_lifetime_hint as int == be32s(i, 0) && t.ticket@ =~= i.subrange(4, len as int) && rem@ =~= i.subrange(len as int, i.len() as int),
        _ => false } }
}
// status_request content (RFC 6066 8): empty, or status type + the remaining ext_len-1 bytes
pub open spec fn status_request_post(i: Seq<u8>, ext_len: u16, r: IResult<&[u8], TlsExtension>) -> bool {
    if ext_len == 0 { match r { Ok((rem, TlsExtension::StatusRequest(None))) => rem@ =~= i, _ => false } }
    else if i.len() < 1 || i.len() < ext_len as int { is_incomplete(r) }
    else { match r {
        Ok((rem, TlsExtension::StatusRequest(Some((t, d))))) => t.0 == i[0] && d@ =~= i.subrange(1, ext_len as int) && rem@ =~= i.subrange(ext_len as int, i.len() as int),
        _ => false } }
}
// OID filter (RFC 8446 4.2.5): oid<u8>, values<u16>
pub open spec fn oid_filter_post(i: Seq<u8>, r: IResult<&[u8], OidFilter>) -> bool {
    if i.len() < 1 || i.len() < 3 + (i[0] as int) || i.len() < 3 + (i[0] as int) + be16s(i, 1 + i[0] as int) { is_incomplete(r) }
    else { let a = i[0] as int; let b = be16s(i, 1 + a); match r {
        Ok((rem, f)) => f.cert_ext_oid@ =~= i.subrange(1, 1 + a) && f.cert_ext_val@ =~= i.subrange(3 + a, 3 + a + b) && rem@ =~= i.subrange(3 + a + b, i.len() as int),
        Err(_) => false } }
}
'''

def hint(decls):
    return [{"at_start": True, "text": "    let ghost i0 = i@;\n    proof { reveal_with_fuel(be_val, 5); }"}] + decls

UNIT = {
    "name": "bodies",
    "property": ["C04", "C05", "C01", "C06"],
    "prelude": ["shim_nom.rs"],
    "items": _ext_types + [
        adt(F_HS, "struct", "TlsNewSessionTicketContent"),
        adt(F_HS, "struct", "TlsCertificateStatusContents"),
        adt(F_HS, "struct", "TlsNextProtocolContent"),
        # a cut-down TlsMessageHandshake is not possible (verbatim types only): the ticket parser returns the real enum,
        # so all payload types it mentions are extracted too
    ] + [it for it in __import__("states").UNIT["items"] if it["kind"] in ("struct", "enum") and it["file"] in (F_HS, F_EC)
         and it["name"] not in ("TlsVersion", "TlsCipherSuiteID", "TlsNewSessionTicketContent", "TlsCertificateStatusContents", "TlsNextProtocolContent")] + [
        {"file": "-", "kind": "inline", "name": "body-contracts", "text": SPEC},
        {"file": F_HS, "kind": "fn", "name": "parse_tls_handshake_msg_hello_request", "contract": "    ensures r is Ok, r->Ok_0.1 is HelloRequest, r->Ok_0.0@ =~= i@,"},
        {"file": F_HS, "kind": "fn", "name": "parse_tls_handshake_certificatestatus", "contract": "    ensures certstatus_post(i@, r),",
         "splices": hint([{"after": r"let \(i, status_type\) = be_u8\(i\)\?;", "text": "    let ghost i1 = i@;\n    proof { assert(i1 =~= i0.subrange(1, i0.len() as int)); }"},
                          {"after": r"let \(i, blob\) = length_data\(be_u24\)\(i\)\?;", "text": "    proof { assert(i1.len() >= 3); assert(be_val(i1, 3) == be24s(i0, 1)); let l = be24s(i0, 1); assert(blob@ =~= i0.subrange(4, 4 + l)); assert(i@ =~= i0.subrange(4 + l, i0.len() as int)); }"}])},
        {"file": F_HS, "kind": "fn", "name": "parse_tls_handshake_next_protocol", "contract": "    ensures nextproto_post(i@, r),",
         "splices": hint([{"after": r"let \(i, selected_protocol\) = length_data\(be_u8\)\(i\)\?;", "text": "    let ghost i1 = i@;\n    proof { let a = i0[0] as int; assert(selected_protocol@ =~= i0.subrange(1, 1 + a)); assert(i1 =~= i0.subrange(1 + a, i0.len() as int)); }"},
                          {"after": r"let \(i, padding\) = length_data\(be_u8\)\(i\)\?;", "text": "    proof { let a = i0[0] as int; let b = i0[1 + a] as int; assert(i1[0] == i0[1 + a]); assert(padding@ =~= i0.subrange(2 + a, 2 + a + b)); assert(i@ =~= i0.subrange(2 + a + b, i0.len() as int)); }"}])},
        {"file": F_HS, "kind": "fn", "name": "parse_tls_handshake_msg_certificatestatus",
         "subst": [(r"fn parse_tls_handshake_msg_certificatestatus\(i: &\[u8\]\) -> IResult<&\[u8\], TlsMessageHandshake>", "fn parse_tls_handshake_msg_certificatestatus<'a>(i: &'a [u8]) -> IResult<&'a [u8], TlsMessageHandshake<'a>>"),
                   # R10: constructor passed as a function value, eta-expanded with its (trivial) contract
                   (r"TlsMessageHandshake::CertificateStatus,", "|x: TlsCertificateStatusContents<'a>| -> (y: TlsMessageHandshake<'a>) ensures y == TlsMessageHandshake::CertificateStatus(x) { TlsMessageHandshake::CertificateStatus(x) },")],
         "contract": """    ensures match r {
            Ok((rem, TlsMessageHandshake::CertificateStatus(c))) => certstatus_post(i@, Ok::<(&[u8], TlsCertificateStatusContents), Err<Error<&[u8]>>>((rem, c))),
            Ok(_) => false,
            Err(e) => certstatus_post(i@, Err::<(&[u8], TlsCertificateStatusContents), Err<Error<&[u8]>>>(e)) },"""},
        {"file": F_HS, "kind": "fn", "name": "parse_tls_handshake_msg_next_protocol",
         "subst": [(r"fn parse_tls_handshake_msg_next_protocol\(i: &\[u8\]\) -> IResult<&\[u8\], TlsMessageHandshake>", "fn parse_tls_handshake_msg_next_protocol<'a>(i: &'a [u8]) -> IResult<&'a [u8], TlsMessageHandshake<'a>>"),
                   (r"TlsMessageHandshake::NextProtocol,", "|x: TlsNextProtocolContent<'a>| -> (y: TlsMessageHandshake<'a>) ensures y == TlsMessageHandshake::NextProtocol(x) { TlsMessageHandshake::NextProtocol(x) },")],
         "contract": """    ensures match r {
            Ok((rem, TlsMessageHandshake::NextProtocol(c))) => nextproto_post(i@, Ok::<(&[u8], TlsNextProtocolContent), Err<Error<&[u8]>>>((rem, c))),
            Ok(_) => false,
            Err(e) => nextproto_post(i@, Err::<(&[u8], TlsNextProtocolContent), Err<Error<&[u8]>>>(e)) },"""},
        {"file": F_HS, "kind": "fn", "name": "parse_tls_handshake_msg_newsessionticket", "contract": "    ensures ticket_post(i@, len, r),",
         "splices": hint([{"after": r"let \(i, ticket_lifetime_hint\) = be_u32\(i\)\?;", "text": "    let ghost i1 = i@;\n    proof { assert(i1 =~= i0.subrange(4, i0.len() as int)); assert(ticket_lifetime_hint as int == be32s(i0, 0)); }"},
                          {"after": r"let \(i, ticket\) = take\(len - 4\)\(i\)\?;", "text": "    proof { assert(ticket@ =~= i0.subrange(4, len as int)); assert(i@ =~= i0.subrange(len as int, i0.len() as int)); }"}])},
        {"file": F_EXT, "kind": "fn", "name": "parse_tls_extension_status_request_content", "contract": "    ensures status_request_post(i@, ext_len, r),",
         "splices": hint([{"after": r"let \(i, status_type\) = be_u8\(i\)\?;", "text": "            let ghost i1 = i@;\n            proof { assert(i1 =~= i0.subrange(1, i0.len() as int)); }"},
                          {"after": r"let \(i, request\) = take\(ext_len - 1\)\(i\)\?;", "text": "            proof { assert(request@ =~= i0.subrange(1, ext_len as int)); assert(i@ =~= i0.subrange(ext_len as int, i0.len() as int)); }"}])},
        {"file": F_EXT, "kind": "fn", "name": "parse_tls_oid_filter", "contract": "    ensures oid_filter_post(i@, r),",
         "splices": hint([{"after": r"let \(i, cert_ext_oid\) = length_data\(be_u8\)\(i\)\?;", "text": "    let ghost i1 = i@;\n    proof { let a = i0[0] as int; assert(cert_ext_oid@ =~= i0.subrange(1, 1 + a)); assert(i1 =~= i0.subrange(1 + a, i0.len() as int)); }"},
                          {"after": r"let \(i, cert_ext_val\) = length_data\(be_u16\)\(i\)\?;", "text": "    proof { let a = i0[0] as int; assert(i1.len() >= 2); assert(be_val(i1, 2) == be16s(i0, 1 + a)); let b = be16s(i0, 1 + a); assert(cert_ext_val@ =~= i0.subrange(3 + a, 3 + a + b)); assert(i@ =~= i0.subrange(3 + a + b, i0.len() as int)); }"}])},
    ],
    "epilogue": "",
}
