# V-DERIVED (properties C13, C11, C06, C01): the nom-derive GENERATED parsers, taken from the macro-expanded crate
# source on every run (R13), for ServerDHParams, ECPoint, ECCurve, ExplicitPrimeContent, ECParametersContent,
# ECParameters, ServerECDHParams, the newtypes they read and the two DigitallySigned forms - proved against the
# RFC 4492 / 5246 wire layout for every input length; parse_content_and_signature proved for every content parser.
import os, sys
sys.path.insert(0, os.path.dirname(os.path.abspath(__file__)))
from states import adt

EXP = "@expanded"   # the macro-expanded source of the tree under check, regenerated on every run
F_DH = "src/tls_dh.rs"
F_EC = "src/tls_ec.rs"
F_SH = "src/tls_sign_hash.rs"

SPEC_CORE = r"""
pub open spec fn is_incomplete<T>(r: IResult<&[u8], T>) -> bool { r is Err && r->Err_0 is Incomplete }

pub open spec fn be16s(s: Seq<u8>, o: int) -> int { (s[o] as int) * 256 + (s[o + 1] as int) }

// nom-derive's Parse for the primitive integers is nom's big-endian reader (ASSUMED; the Kani leaves of C13 assert
// every integer field against the bytes)
#[verifier::external_body]
pub fn parse_be_u8<'a>(i: &'a [u8]) -> (r: IResult<&'a [u8], u8>) ensures be_post(1, i@, r, |v: u8| v as int), { unimplemented!() }
#[verifier::external_body]
pub fn parse_be_u16<'a>(i: &'a [u8]) -> (r: IResult<&'a [u8], u16>) ensures be_post(2, i@, r, |v: u16| v as int), { unimplemented!() }

// a length-prefixed field (prefix width w in {1, 2}) at offset o
pub open spec fn lp_len(i: Seq<u8>, o: int, w: int) -> int { if w == 1 { i[o] as int } else { be16s(i, o) } }
pub open spec fn lp_ok(i: Seq<u8>, o: int, w: int) -> bool { 0 <= o && i.len() >= o + w && i.len() >= o + w + lp_len(i, o, w) }
pub open spec fn lp_next(i: Seq<u8>, o: int, w: int) -> int { o + w + lp_len(i, o, w) }
pub open spec fn lp_data(i: Seq<u8>, o: int, w: int) -> Seq<u8> { i.subrange(o + w, o + w + lp_len(i, o, w)) }

// subrange shift: a length-prefixed field at offset p of i.subrange(o, len) is the field at o + p of i
pub proof fn lemma_lp_shift(i: Seq<u8>, o: int, p: int, w: int)
    requires 0 <= o <= i.len(), 0 <= p, w == 1 || w == 2,
    ensures ({ let s = i.subrange(o, i.len() as int);
        lp_ok(s, p, w) == lp_ok(i, o + p, w)
        && (lp_ok(s, p, w) ==> lp_len(s, p, w) == lp_len(i, o + p, w) && lp_data(s, p, w) =~= lp_data(i, o + p, w)
            && lp_next(s, p, w) + o == lp_next(i, o + p, w)) }),
{
    let s = i.subrange(o, i.len() as int);
    if s.len() >= p + w {
        assert(s[p] == i[o + p]);
        if w == 2 { assert(s[p + 1] == i[o + p + 1]); }
    }
}

pub open spec fn hashalg_post(i: Seq<u8>, r: IResult<&[u8], HashAlgorithm>) -> bool {
    if i.len() < 1 { is_incomplete(r) } else { match r { Ok((rem, v)) => v.0 == i[0] && rem@ =~= i.subrange(1, i.len() as int), Err(_) => false } }
}

pub open spec fn signalg_post(i: Seq<u8>, r: IResult<&[u8], SignAlgorithm>) -> bool {
    if i.len() < 1 { is_incomplete(r) } else { match r { Ok((rem, v)) => v.0 == i[0] && rem@ =~= i.subrange(1, i.len() as int), Err(_) => false } }
}

// DigitallySigned, RFC 5246 4.7 (hash u8, signature u8, opaque<u16>) and the RFC 2246 form (opaque<u16>)
pub open spec fn ds_new_post(i: Seq<u8>, r: IResult<&[u8], DigitallySigned>) -> bool {
    if i.len() < 2 || !lp_ok(i, 2, 2) { is_incomplete(r) }
    else { match r {
        Ok((rem, d)) => d.alg is Some && d.alg->Some_0.hash.0 == i[0] && d.alg->Some_0.sign.0 == i[1] && d.data@ =~= lp_data(i, 2, 2)
                        && rem@ =~= i.subrange(lp_next(i, 2, 2), i.len() as int),
        Err(_) => false } }
}
pub open spec fn ds_old_post(i: Seq<u8>, r: IResult<&[u8], DigitallySigned>) -> bool {
    if !lp_ok(i, 0, 2) { is_incomplete(r) }
    else { match r {
        Ok((rem, d)) => d.alg is None && d.data@ =~= lp_data(i, 0, 2) && rem@ =~= i.subrange(lp_next(i, 0, 2), i.len() as int),
        Err(_) => false } }
}
"""

SPEC_KX = r"""



// ServerDHParams (RFC 5246 7.4.3): dh_p<u16>, dh_g<u16>, dh_Ys<u16>
pub open spec fn dh_post(i: Seq<u8>, r: IResult<&[u8], ServerDHParams>) -> bool {
    let o1 = lp_next(i, 0, 2); let o2 = lp_next(i, o1, 2); let o3 = lp_next(i, o2, 2);
    if !lp_ok(i, 0, 2) || !lp_ok(i, o1, 2) || !lp_ok(i, o2, 2) { is_incomplete(r) }
    else { match r {
        Ok((rem, p)) => p.dh_p@ =~= lp_data(i, 0, 2) && p.dh_g@ =~= lp_data(i, o1, 2) && p.dh_ys@ =~= lp_data(i, o2, 2) && rem@ =~= i.subrange(o3, i.len() as int),
        Err(_) => false } }
}
// ECPoint (RFC 4492 5.4): point<u8>
pub open spec fn ecpoint_post(i: Seq<u8>, r: IResult<&[u8], ECPoint>) -> bool {
    if !lp_ok(i, 0, 1) { is_incomplete(r) }
    else { match r { Ok((rem, p)) => p.point@ =~= lp_data(i, 0, 1) && rem@ =~= i.subrange(lp_next(i, 0, 1), i.len() as int), Err(_) => false } }
}
// ECCurve: a<u8>, b<u8>
pub open spec fn eccurve_post(i: Seq<u8>, r: IResult<&[u8], ECCurve>) -> bool {
    let o1 = lp_next(i, 0, 1);
    if !lp_ok(i, 0, 1) || !lp_ok(i, o1, 1) { is_incomplete(r) }
    else { match r { Ok((rem, c)) => c.a@ =~= lp_data(i, 0, 1) && c.b@ =~= lp_data(i, o1, 1) && rem@ =~= i.subrange(lp_next(i, o1, 1), i.len() as int), Err(_) => false } }
}


// ExplicitPrimeContent (RFC 4492 5.4 explicit_prime): prime_p<u8>, curve{a<u8>, b<u8>}, base<u8>, order<u8>, cofactor<u8>
pub open spec fn ep_offs(i: Seq<u8>) -> (int, int, int, int, int, int) {
    let o1 = lp_next(i, 0, 1); let o2 = lp_next(i, o1, 1); let o3 = lp_next(i, o2, 1);
    let o4 = lp_next(i, o3, 1); let o5 = lp_next(i, o4, 1); let o6 = lp_next(i, o5, 1);
    (o1, o2, o3, o4, o5, o6)
}
pub open spec fn ep_ok(i: Seq<u8>) -> bool {
    let (o1, o2, o3, o4, o5, o6) = ep_offs(i);
    lp_ok(i, 0, 1) && lp_ok(i, o1, 1) && lp_ok(i, o2, 1) && lp_ok(i, o3, 1) && lp_ok(i, o4, 1) && lp_ok(i, o5, 1)
}
pub open spec fn ep_val(i: Seq<u8>, c: ExplicitPrimeContent) -> bool {
    let (o1, o2, o3, o4, o5, o6) = ep_offs(i);
    c.prime_p@ =~= lp_data(i, 0, 1) && c.curve.a@ =~= lp_data(i, o1, 1) && c.curve.b@ =~= lp_data(i, o2, 1)
    && c.base.point@ =~= lp_data(i, o3, 1) && c.order@ =~= lp_data(i, o4, 1) && c.cofactor@ =~= lp_data(i, o5, 1)
}
pub open spec fn ep_post(i: Seq<u8>, r: IResult<&[u8], ExplicitPrimeContent>) -> bool {
    if !ep_ok(i) { is_incomplete(r) }
    else { match r { Ok((rem, c)) => ep_val(i, c) && rem@ =~= i.subrange(ep_offs(i).5, i.len() as int), Err(_) => false } }
}
// newtypes
pub open spec fn curvetype_post(i: Seq<u8>, r: IResult<&[u8], ECCurveType>) -> bool {
    if i.len() < 1 { is_incomplete(r) } else { match r { Ok((rem, v)) => v.0 == i[0] && rem@ =~= i.subrange(1, i.len() as int), Err(_) => false } }
}
pub open spec fn namedgroup_post(i: Seq<u8>, r: IResult<&[u8], NamedGroup>) -> bool {
    if i.len() < 2 { is_incomplete(r) } else { match r { Ok((rem, v)) => v.0 as int == be16s(i, 0) && rem@ =~= i.subrange(2, i.len() as int), Err(_) => false } }
}
pub open spec fn is_switch_error<T>(r: IResult<&[u8], T>, at: Seq<u8>) -> bool {
    r is Err && r->Err_0 is Error && r->Err_0->Error_0.code == ErrorKind::Switch && r->Err_0->Error_0.input@ =~= at
}
// ECParametersContent under a curve-type selector: 1 explicit prime, 3 named curve, everything else rejected
pub open spec fn epc_post(i: Seq<u8>, sel: u8, r: IResult<&[u8], ECParametersContent>) -> bool {
    if sel == 1 {
        if !ep_ok(i) { is_incomplete(r) }
        else { match r { Ok((rem, ECParametersContent::ExplicitPrime(c))) => ep_val(i, c) && rem@ =~= i.subrange(ep_offs(i).5, i.len() as int), _ => false } }
    } else if sel == 3 {
        if i.len() < 2 { is_incomplete(r) }
        else { match r { Ok((rem, ECParametersContent::NamedGroup(g))) => g.0 as int == be16s(i, 0) && rem@ =~= i.subrange(2, i.len() as int), _ => false } }
    } else { is_switch_error(r, i) }
}
// ECParameters: curve_type u8, then the content it selects
pub open spec fn ecparams_ok(i: Seq<u8>) -> bool {
    i.len() >= 1 && (if i[0] == 1 { ep_ok(i.subrange(1, i.len() as int)) } else if i[0] == 3 { i.len() >= 3 } else { false })
}
pub open spec fn ecparams_len(i: Seq<u8>) -> int {
    if i[0] == 1 { 1 + ep_offs(i.subrange(1, i.len() as int)).5 } else { 3 }
}
pub open spec fn ecparams_val(i: Seq<u8>, p: ECParameters) -> bool {
    p.curve_type.0 == i[0] && (if i[0] == 1 {
        p.params_content is ExplicitPrime && ep_val(i.subrange(1, i.len() as int), p.params_content->ExplicitPrime_0)
    } else {
        p.params_content is NamedGroup && p.params_content->NamedGroup_0.0 as int == be16s(i, 1)
    })
}
pub open spec fn ecparams_post(i: Seq<u8>, r: IResult<&[u8], ECParameters>) -> bool {
    if i.len() < 1 { is_incomplete(r) }
    else if i[0] != 1 && i[0] != 3 { is_switch_error(r, i.subrange(1, i.len() as int)) }
    else if !ecparams_ok(i) { is_incomplete(r) }
    else { match r { Ok((rem, p)) => ecparams_val(i, p) && rem@ =~= i.subrange(ecparams_len(i), i.len() as int), Err(_) => false } }
}
// ServerECDHParams: ECParameters, then the public ECPoint
pub open spec fn ecdh_post(i: Seq<u8>, r: IResult<&[u8], ServerECDHParams>) -> bool {
    if i.len() < 1 { is_incomplete(r) }
    else if i[0] != 1 && i[0] != 3 { is_switch_error(r, i.subrange(1, i.len() as int)) }
    else if !ecparams_ok(i) || !lp_ok(i, ecparams_len(i), 1) { is_incomplete(r) }
    else { match r {
        Ok((rem, p)) => ecparams_val(i, p.curve_params) && p.public.point@ =~= lp_data(i, ecparams_len(i), 1)
                        && rem@ =~= i.subrange(lp_next(i, ecparams_len(i), 1), i.len() as int),
        Err(_) => false } }
}
// nom::sequence::pair(f, g): run f, then g on f's remainder; both outputs, g's remainder; errors of either
// propagated unchanged.  ASSUMED here; OBLIGATION of Kani harness shim_pair (real nom, bounded input).
#[verifier::external_body]
pub fn pair<'a, O1, O2, F: Fn(&'a [u8]) -> IResult<&'a [u8], O1>, G: Fn(&'a [u8]) -> IResult<&'a [u8], O2>>(f: F, g: G) -> (h: impl Fn(&'a [u8]) -> IResult<&'a [u8], (O1, O2)>)
    requires forall|i: &'a [u8]| #[trigger] f.requires((i,)), forall|i: &'a [u8]| #[trigger] g.requires((i,)),
    ensures
        forall|i: &'a [u8]| #[trigger] h.requires((i,)),
        forall|i: &'a [u8], r: IResult<&'a [u8], (O1, O2)>| #[trigger] h.ensures((i,), r) ==>
            exists|r1: IResult<&'a [u8], O1>| #[trigger] f.ensures((i,), r1) && match r1 {
                Ok((rem1, o1)) => exists|r2: IResult<&'a [u8], O2>| #[trigger] g.ensures((rem1,), r2) && match r2 {
                    Ok((rem2, o2)) => r == Ok::<(&'a [u8], (O1, O2)), Err<Error<&'a [u8]>>>((rem2, (o1, o2))),
                    Err(e) => r == Err::<(&'a [u8], (O1, O2)), Err<Error<&'a [u8]>>>(e),
                },
                Err(e) => r == Err::<(&'a [u8], (O1, O2)), Err<Error<&'a [u8]>>>(e),
            },
{ |i: &'a [u8]| -> IResult<&'a [u8], (O1, O2)> { unimplemented!() } }

// parse_content_and_signature: the content parser's value, then the signature in the form the flag selects
pub open spec fn cas_post<'a, T>(r1: IResult<&'a [u8], T>, ext: bool, r: IResult<&'a [u8], (T, DigitallySigned<'a>)>) -> bool {
    match r1 {
        Err(e) => r == Err::<(&'a [u8], (T, DigitallySigned<'a>)), Err<Error<&'a [u8]>>>(e),
        Ok((rest, t)) => exists|r2: IResult<&'a [u8], DigitallySigned<'a>>|
            (if ext { ds_new_post(rest@, r2) } else { ds_old_post(rest@, r2) }) && match r2 {
                Ok((rem2, d)) => r == Ok::<(&'a [u8], (T, DigitallySigned<'a>)), Err<Error<&'a [u8]>>>((rem2, (t, d))),
                Err(e) => r == Err::<(&'a [u8], (T, DigitallySigned<'a>)), Err<Error<&'a [u8]>>>(e),
            },
    }
}
"""

SPEC = SPEC_CORE + SPEC_KX


LOCALITY = r'''
// ---------------------------------------------------------------------------------------------------------------
// The property as stated (C13): decoding what an RFC 4492/5246 ENCODER wrote returns exactly the encoded values,
// consumes exactly the encoding and leaves the following bytes as remainder - corollaries of the layout contracts.
pub open spec fn enc_u16(n: int) -> Seq<u8> { seq![(n / 256) as u8, (n % 256) as u8] }
pub open spec fn enc_opaque16(d: Seq<u8>) -> Seq<u8> { enc_u16(d.len() as int) + d }          // opaque<0..2^16-1>
pub open spec fn enc_opaque8(d: Seq<u8>) -> Seq<u8> { seq![d.len() as u8] + d }               // opaque<0..2^8-1>

proof fn lemma_lp16_of_enc(pre: Seq<u8>, d: Seq<u8>, post: Seq<u8>)
    requires d.len() <= 65535,
    ensures ({ let b = pre + enc_opaque16(d) + post; let o = pre.len() as int;
        lp_ok(b, o, 2) && lp_data(b, o, 2) =~= d && lp_next(b, o, 2) == o + 2 + d.len() }),
{
    let b = pre + enc_opaque16(d) + post; let o = pre.len() as int; let n = d.len() as int;
    assert(b[o] == (n / 256) as u8 && b[o + 1] == (n % 256) as u8);
    assert(be16s(b, o) == n);
    assert(b.subrange(o + 2, o + 2 + n) =~= d);
}
proof fn lemma_lp8_of_enc(pre: Seq<u8>, d: Seq<u8>, post: Seq<u8>)
    requires d.len() <= 255,
    ensures ({ let b = pre + enc_opaque8(d) + post; let o = pre.len() as int;
        lp_ok(b, o, 1) && lp_data(b, o, 1) =~= d && lp_next(b, o, 1) == o + 1 + d.len() }),
{
    let b = pre + enc_opaque8(d) + post; let o = pre.len() as int; let n = d.len() as int;
    assert(b[o] == n as u8);
    assert(b.subrange(o + 1, o + 1 + n) =~= d);
}
// ServerDHParams: for all p, g, Ys (lengths 0..65535) and all trailing bytes
proof fn lemma_dh_roundtrip(p: Seq<u8>, g: Seq<u8>, ys: Seq<u8>, tail: Seq<u8>, r: IResult<&[u8], ServerDHParams>)
    requires p.len() <= 65535, g.len() <= 65535, ys.len() <= 65535,
        dh_post(enc_opaque16(p) + enc_opaque16(g) + enc_opaque16(ys) + tail, r),
    ensures r is Ok, r->Ok_0.1.dh_p@ =~= p, r->Ok_0.1.dh_g@ =~= g, r->Ok_0.1.dh_ys@ =~= ys, r->Ok_0.0@ =~= tail,
{
    let b = enc_opaque16(p) + enc_opaque16(g) + enc_opaque16(ys) + tail;
    let e = Seq::<u8>::empty();
    lemma_lp16_of_enc(e, p, enc_opaque16(g) + enc_opaque16(ys) + tail);
    assert(e + enc_opaque16(p) + (enc_opaque16(g) + enc_opaque16(ys) + tail) =~= b);
    lemma_lp16_of_enc(enc_opaque16(p), g, enc_opaque16(ys) + tail);
    assert(enc_opaque16(p) + enc_opaque16(g) + (enc_opaque16(ys) + tail) =~= b);
    lemma_lp16_of_enc(enc_opaque16(p) + enc_opaque16(g), ys, tail);
    let o3 = 6 + p.len() + g.len() + ys.len();
    assert(b.subrange(o3 as int, b.len() as int) =~= tail);
}
// ECPoint: for all points (length 0..255) and all trailing bytes
proof fn lemma_ecpoint_roundtrip(pt: Seq<u8>, tail: Seq<u8>, r: IResult<&[u8], ECPoint>)
    requires pt.len() <= 255, ecpoint_post(enc_opaque8(pt) + tail, r),
    ensures r is Ok, r->Ok_0.1.point@ =~= pt, r->Ok_0.0@ =~= tail,
{
    let b = enc_opaque8(pt) + tail;
    lemma_lp8_of_enc(Seq::<u8>::empty(), pt, tail);
    assert(Seq::<u8>::empty() + enc_opaque8(pt) + tail =~= b);
    assert(b.subrange(1 + pt.len() as int, b.len() as int) =~= tail);
}
// DigitallySigned, both forms: for all algorithm pairs, all signatures (0..65535 bytes), all trailing bytes
proof fn lemma_ds_new_roundtrip(h: u8, sg: u8, sig: Seq<u8>, tail: Seq<u8>, r: IResult<&[u8], DigitallySigned>)
    requires sig.len() <= 65535, ds_new_post(seq![h, sg] + enc_opaque16(sig) + tail, r),
    ensures r is Ok, r->Ok_0.1.alg is Some, r->Ok_0.1.alg->Some_0.hash.0 == h, r->Ok_0.1.alg->Some_0.sign.0 == sg,
        r->Ok_0.1.data@ =~= sig, r->Ok_0.0@ =~= tail,
{
    let b = seq![h, sg] + enc_opaque16(sig) + tail;
    lemma_lp16_of_enc(seq![h, sg], sig, tail);
    assert(b[0] == h && b[1] == sg);
    assert(b.subrange(4 + sig.len() as int, b.len() as int) =~= tail);
}
proof fn lemma_ds_old_roundtrip(sig: Seq<u8>, tail: Seq<u8>, r: IResult<&[u8], DigitallySigned>)
    requires sig.len() <= 65535, ds_old_post(enc_opaque16(sig) + tail, r),
    ensures r is Ok, r->Ok_0.1.alg is None, r->Ok_0.1.data@ =~= sig, r->Ok_0.0@ =~= tail,
{
    let b = enc_opaque16(sig) + tail;
    lemma_lp16_of_enc(Seq::<u8>::empty(), sig, tail);
    assert(Seq::<u8>::empty() + enc_opaque16(sig) + tail =~= b);
    assert(b.subrange(2 + sig.len() as int, b.len() as int) =~= tail);
}
// ECParameters, named-curve form: curve_type 3, any of the 65536 groups; any other curve type than 1 / 3 is rejected
proof fn lemma_named_curve_roundtrip(g: u16, tail: Seq<u8>, r: IResult<&[u8], ECParameters>)
    requires ecparams_post(seq![3u8] + enc_u16(g as int) + tail, r),
    ensures r is Ok, r->Ok_0.1.curve_type.0 == 3, r->Ok_0.1.params_content is NamedGroup, r->Ok_0.1.params_content->NamedGroup_0.0 == g, r->Ok_0.0@ =~= tail,
{
    let b = seq![3u8] + enc_u16(g as int) + tail;
    assert(b[0] == 3 && b[1] == ((g as int) / 256) as u8 && b[2] == ((g as int) % 256) as u8);
    assert(be16s(b, 1) == g as int);
    assert(b.subrange(3, b.len() as int) =~= tail);
}
proof fn lemma_other_curve_types_rejected(b: Seq<u8>, r: IResult<&[u8], ECParameters>)
    requires ecparams_post(b, r), b.len() >= 1, b[0] != 1, b[0] != 3,
    ensures r is Err && r->Err_0 is Error,
{}

// ---------------------------------------------------------------------------------------------------------------
// C06 LOCALITY as corollaries of the contracts alone: a structure decoded from b is decoded identically from b ++ x,
// and the remainder simply grows by x (nested length fields can never reach into what follows).
pub proof fn lemma_lp_local(b: Seq<u8>, x: Seq<u8>, o: int, w: int)
    requires lp_ok(b, o, w), w == 1 || w == 2,
    ensures lp_ok(b + x, o, w), lp_len(b + x, o, w) == lp_len(b, o, w), lp_next(b + x, o, w) == lp_next(b, o, w), lp_data(b + x, o, w) =~= lp_data(b, o, w),
{
    let bx = b + x;
    assert(bx[o] == b[o]);
    if w == 2 { assert(bx[o + 1] == b[o + 1]); }
}
proof fn lemma_dh_local(b: Seq<u8>, x: Seq<u8>, r1: IResult<&[u8], ServerDHParams>, r2: IResult<&[u8], ServerDHParams>)
    requires dh_post(b, r1), r1 is Ok, dh_post(b + x, r2),
    ensures r2 is Ok, r2->Ok_0.0@ =~= r1->Ok_0.0@ + x,
        r2->Ok_0.1.dh_p@ =~= r1->Ok_0.1.dh_p@, r2->Ok_0.1.dh_g@ =~= r1->Ok_0.1.dh_g@, r2->Ok_0.1.dh_ys@ =~= r1->Ok_0.1.dh_ys@,
{
    let o1 = lp_next(b, 0, 2); let o2 = lp_next(b, o1, 2); let o3 = lp_next(b, o2, 2);
    lemma_lp_local(b, x, 0, 2); lemma_lp_local(b, x, o1, 2); lemma_lp_local(b, x, o2, 2);
    assert((b + x).subrange(o3, (b + x).len() as int) =~= b.subrange(o3, b.len() as int) + x);
}
proof fn lemma_ecpoint_local(b: Seq<u8>, x: Seq<u8>, r1: IResult<&[u8], ECPoint>, r2: IResult<&[u8], ECPoint>)
    requires ecpoint_post(b, r1), r1 is Ok, ecpoint_post(b + x, r2),
    ensures r2 is Ok, r2->Ok_0.0@ =~= r1->Ok_0.0@ + x, r2->Ok_0.1.point@ =~= r1->Ok_0.1.point@,
{
    lemma_lp_local(b, x, 0, 1);
    let o1 = lp_next(b, 0, 1);
    assert((b + x).subrange(o1, (b + x).len() as int) =~= b.subrange(o1, b.len() as int) + x);
}
proof fn lemma_ds_new_local(b: Seq<u8>, x: Seq<u8>, r1: IResult<&[u8], DigitallySigned>, r2: IResult<&[u8], DigitallySigned>)
    requires ds_new_post(b, r1), r1 is Ok, ds_new_post(b + x, r2),
    ensures r2 is Ok, r2->Ok_0.0@ =~= r1->Ok_0.0@ + x, r2->Ok_0.1.data@ =~= r1->Ok_0.1.data@,
        r2->Ok_0.1.alg->Some_0.hash.0 == r1->Ok_0.1.alg->Some_0.hash.0, r2->Ok_0.1.alg->Some_0.sign.0 == r1->Ok_0.1.alg->Some_0.sign.0,
{
    lemma_lp_local(b, x, 2, 2);
    let bx = b + x;
    assert(bx[0] == b[0] && bx[1] == b[1]);
    let o = lp_next(b, 2, 2);
    assert(bx.subrange(o, bx.len() as int) =~= b.subrange(o, b.len() as int) + x);
}
proof fn lemma_ds_old_local(b: Seq<u8>, x: Seq<u8>, r1: IResult<&[u8], DigitallySigned>, r2: IResult<&[u8], DigitallySigned>)
    requires ds_old_post(b, r1), r1 is Ok, ds_old_post(b + x, r2),
    ensures r2 is Ok, r2->Ok_0.0@ =~= r1->Ok_0.0@ + x, r2->Ok_0.1.data@ =~= r1->Ok_0.1.data@, r2->Ok_0.1.alg is None,
{
    lemma_lp_local(b, x, 0, 2);
    let o = lp_next(b, 0, 2);
    assert((b + x).subrange(o, (b + x).len() as int) =~= b.subrange(o, b.len() as int) + x);
}
// explicit-prime layout: all six fields and the end offset are unchanged by a suffix
proof fn lemma_ep_local(b: Seq<u8>, x: Seq<u8>)
    requires ep_ok(b),
    ensures ep_ok(b + x), ep_offs(b + x) == ep_offs(b),
        forall|c: ExplicitPrimeContent| ep_val(b, c) <==> #[trigger] ep_val(b + x, c),
{
    let (o1, o2, o3, o4, o5, o6) = ep_offs(b);
    lemma_lp_local(b, x, 0, 1); lemma_lp_local(b, x, o1, 1); lemma_lp_local(b, x, o2, 1);
    lemma_lp_local(b, x, o3, 1); lemma_lp_local(b, x, o4, 1); lemma_lp_local(b, x, o5, 1);
}
proof fn lemma_ecparams_local(b: Seq<u8>, x: Seq<u8>, r1: IResult<&[u8], ECParameters>, r2: IResult<&[u8], ECParameters>)
    requires ecparams_post(b, r1), r1 is Ok, ecparams_post(b + x, r2),
    ensures r2 is Ok, r2->Ok_0.0@ =~= r1->Ok_0.0@ + x, ecparams_val(b, r2->Ok_0.1), ecparams_len(b + x) == ecparams_len(b),
{
    let bx = b + x;
    assert(bx[0] == b[0]);
    if b[0] == 1 {
        let s = b.subrange(1, b.len() as int);
        assert(bx.subrange(1, bx.len() as int) =~= s + x);
        lemma_ep_local(s, x);
        assert(ep_val(s + x, r2->Ok_0.1.params_content->ExplicitPrime_0));
    } else {
        assert(bx[1] == b[1] && bx[2] == b[2]);
    }
    let n = ecparams_len(b);
    assert(bx.subrange(n, bx.len() as int) =~= b.subrange(n, b.len() as int) + x);
}
proof fn lemma_ecdh_local(b: Seq<u8>, x: Seq<u8>, r1: IResult<&[u8], ServerECDHParams>, r2: IResult<&[u8], ServerECDHParams>)
    requires ecdh_post(b, r1), r1 is Ok, ecdh_post(b + x, r2),
    ensures r2 is Ok, r2->Ok_0.0@ =~= r1->Ok_0.0@ + x, ecparams_val(b, r2->Ok_0.1.curve_params), r2->Ok_0.1.public.point@ =~= r1->Ok_0.1.public.point@,
{
    let bx = b + x;
    assert(bx[0] == b[0]);
    if b[0] == 1 {
        let s = b.subrange(1, b.len() as int);
        assert(bx.subrange(1, bx.len() as int) =~= s + x);
        lemma_ep_local(s, x);
        assert(ep_val(s + x, r2->Ok_0.1.curve_params.params_content->ExplicitPrime_0));
    } else {
        assert(bx[1] == b[1] && bx[2] == b[2]);
    }
    let n = ecparams_len(b);
    lemma_lp_local(b, x, n, 1);
    let o = lp_next(b, n, 1);
    assert(bx.subrange(o, bx.len() as int) =~= b.subrange(o, b.len() as int) + x);
}
'''


def lp_step(f, w, rdr):
    # order-independent: `off` is the running offset, so a layout whose fields are read in another order still goes
    # through the front end and fails its POSTCONDITION (not the hints)
    return {"after": r"let \(i, %s\) = length_data\(%s\)\(i\)\?;" % (f, rdr),
            "text": ("    proof { assert(lp_ok(i0, off, %d)); assert(%s@ =~= lp_data(i0, off, %d)); off = lp_next(i0, off, %d); assert(i@ =~= i0.subrange(off, i0.len() as int)); }") % (w, f, w, w)}


HEAD_HINT = {"at_start": True, "text": "    let ghost i0 = orig_i@;\n    let ghost mut off: int = 0;\n    proof { reveal_with_fuel(be_val, 3); }"}


def lp_hints(fields, w):
    """proof hints after each `let (i, <field>) = length_data(be_uW)(i)?;` of a sequential layout starting at offset 0"""
    rdr = "be_u8" if w == 1 else "be_u16"
    return [HEAD_HINT] + [lp_step(f, w, rdr) for f in fields]


EP_HINTS = [
    HEAD_HINT,
    lp_step("prime_p", 1, "be_u8"),
    {"before": r"let \(i, curve\) = parse_be_ECCurve\(i\)\?;",
     "text": "    proof { lemma_lp_shift(i0, off, 0, 1); if lp_ok(i0, off, 1) { lemma_lp_shift(i0, off, lp_next(i0, off, 1) - off, 1); } }"},
    {"after": r"let \(i, curve\) = parse_be_ECCurve\(i\)\?;",
     "text": "    proof { assert(lp_ok(i0, off, 1) && lp_ok(i0, lp_next(i0, off, 1), 1)); assert(curve.a@ =~= lp_data(i0, off, 1)); assert(curve.b@ =~= lp_data(i0, lp_next(i0, off, 1), 1)); off = lp_next(i0, lp_next(i0, off, 1), 1); assert(i@ =~= i0.subrange(off, i0.len() as int)); }"},
    {"before": r"let \(i, base\) = parse_be_ECPoint\(i\)\?;", "text": "    proof { lemma_lp_shift(i0, off, 0, 1); }"},
    {"after": r"let \(i, base\) = parse_be_ECPoint\(i\)\?;",
     "text": "    proof { assert(lp_ok(i0, off, 1)); assert(base.point@ =~= lp_data(i0, off, 1)); off = lp_next(i0, off, 1); assert(i@ =~= i0.subrange(off, i0.len() as int)); }"},
    lp_step("order", 1, "be_u8"),
    lp_step("cofactor", 1, "be_u8"),
]

NT_HINT = [{"at_start": True, "text": "    proof { reveal_with_fuel(be_val, 3); }"}]

UNIT = {
    "name": "derived",
    "needs_expanded": True,
    "property": ["C13", "C11", "C06", "C01"],
    "prelude": ["shim_nom.rs"],
    "items": [
        adt(F_DH, "struct", "ServerDHParams"),
        adt(F_EC, "struct", "NamedGroup"),
        adt(F_EC, "struct", "ECCurveType"),
        adt(F_EC, "newtype_enum", "ECCurveType"),
        adt(F_EC, "struct", "ECPoint"),
        adt(F_EC, "struct", "ECCurve"),
        adt(F_EC, "struct", "ExplicitPrimeContent"),
        adt(F_EC, "enum", "ECParametersContent"),
        adt(F_EC, "struct", "ECParameters"),
        adt(F_EC, "struct", "ServerECDHParams"),
        adt(F_SH, "struct", "HashAlgorithm"),
        adt(F_SH, "struct", "SignAlgorithm"),
        adt(F_SH, "struct", "SignatureAndHashAlgorithm"),
        adt(F_SH, "struct", "DigitallySigned"),
        {"file": "-", "kind": "inline", "name": "contracts", "text": SPEC},
        {"file": EXP, "kind": "derived", "name": "ServerDHParams", "contract": "    ensures dh_post(orig_i@, r),", "splices": lp_hints(["dh_p", "dh_g", "dh_ys"], 2)},
        {"file": EXP, "kind": "derived", "name": "ECPoint", "contract": "    ensures ecpoint_post(orig_i@, r),", "splices": lp_hints(["point"], 1)},
        {"file": EXP, "kind": "derived", "name": "ECCurve", "contract": "    ensures eccurve_post(orig_i@, r),", "splices": lp_hints(["a", "b"], 1)},
        {"file": EXP, "kind": "derived", "name": "ECCurveType", "contract": "    ensures curvetype_post(orig_i@, r),", "splices": NT_HINT},
        {"file": EXP, "kind": "derived", "name": "NamedGroup", "contract": "    ensures namedgroup_post(orig_i@, r),", "splices": NT_HINT},
        {"file": EXP, "kind": "derived", "name": "HashAlgorithm", "contract": "    ensures hashalg_post(orig_i@, r),", "splices": NT_HINT},
        {"file": EXP, "kind": "derived", "name": "SignAlgorithm", "contract": "    ensures signalg_post(orig_i@, r),", "splices": NT_HINT},
        {"file": EXP, "kind": "derived", "name": "ExplicitPrimeContent", "rlimit": 80, "contract": "    ensures ep_post(orig_i@, r),", "splices": EP_HINTS},
        {"file": EXP, "kind": "derived", "name": "ECParametersContent", "contract": "    ensures epc_post(orig_i@, selector.0, r),"},
        {"file": EXP, "kind": "derived", "name": "ECParameters", "contract": "    ensures ecparams_post(orig_i@, r),",
         "splices": [{"at_start": True, "text": "    let ghost i0 = orig_i@;"},
                     {"after": r"let \(i, curve_type\) = parse_be_ECCurveType\(i\)\?;", "text": "    proof { assert(i@ =~= i0.subrange(1, i0.len() as int)); if i0.len() >= 3 { assert(be16s(i@, 0) == be16s(i0, 1)); assert(i@.subrange(2, i@.len() as int) =~= i0.subrange(3, i0.len() as int)); } }"},
                     {"after": r"let \(i, params_content\) =\s*parse_be_ECParametersContent\(i, curve_type\)\?;", "text": "    proof { if i0[0] == 1 { let s = i0.subrange(1, i0.len() as int); assert(i@ =~= s.subrange(ep_offs(s).5, s.len() as int)); assert(i@ =~= i0.subrange(1 + ep_offs(s).5, i0.len() as int)); } }"}]},
        {"file": EXP, "kind": "derived", "name": "ServerECDHParams", "contract": "    ensures ecdh_post(orig_i@, r),",
         "splices": [{"at_start": True, "text": "    let ghost i0 = orig_i@;"},
                     {"after": r"let \(i, curve_params\) = parse_be_ECParameters\(i\)\?;", "text": "    proof { lemma_lp_shift(i0, ecparams_len(i0), 0, 1); }"}]},
        # hand-written entry points: `T::parse` is the generated delegation to `parse_be` (checked by the extractor)
        {"file": F_DH, "kind": "fn", "name": "parse_dh_params", "contract": "    ensures dh_post(i@, r),",
         "subst": [(r"ServerDHParams::parse\(i\)", "parse_be_ServerDHParams(i)")]},
        {"file": F_EC, "kind": "fn", "name": "parse_ec_parameters", "contract": "    ensures ecparams_post(i@, r),",
         "subst": [(r"ECParameters::parse\(i\)", "parse_be_ECParameters(i)")]},
        {"file": F_EC, "kind": "fn", "name": "parse_ecdh_params", "contract": "    ensures ecdh_post(i@, r),",
         "subst": [(r"ServerECDHParams::parse\(i\)", "parse_be_ServerECDHParams(i)")]},
        {"file": F_SH, "kind": "fn", "name": "parse_digitally_signed_old", "contract": "    ensures ds_old_post(i@, r),",
         "subst": [(r"pub fn parse_digitally_signed_old\(i: &\[u8\]\) -> IResult<&\[u8\], DigitallySigned>", "pub fn parse_digitally_signed_old<'a>(i: &'a [u8]) -> IResult<&'a [u8], DigitallySigned<'a>>"),
                   # R9: closure signature explicit, with its (trivial) contract
                   (r"\|data\| DigitallySigned \{\s*alg: None,\s*data,\s*\}", "|data: &'a [u8]| -> (d: DigitallySigned<'a>) ensures d.alg is None, d.data == data { DigitallySigned { alg: None, data } }")],
         "splices": [{"at_start": True, "text": "    proof { reveal_with_fuel(be_val, 3); }"}]},
        {"file": F_SH, "kind": "fn", "name": "parse_digitally_signed", "contract": "    ensures ds_new_post(i@, r),",
         "subst": [(r"HashAlgorithm::parse\(i\)", "parse_be_HashAlgorithm(i)"), (r"SignAlgorithm::parse\(i\)", "parse_be_SignAlgorithm(i)")],
         "splices": [{"at_start": True, "text": "    let ghost i0 = i@;\n    proof { reveal_with_fuel(be_val, 3); }"},
                     {"after": r"let \(i, sign\) = parse_be_SignAlgorithm\(i\)\?;", "text": "    proof { assert(i@ =~= i0.subrange(2, i0.len() as int)); lemma_lp_shift(i0, 2, 0, 2); }"},
                     {"after": r"let \(i, data\) = length_data\(be_u16\)\(i\)\?;", "text": "    proof { assert(lp_ok(i0, 2, 2)); assert(data@ =~= lp_data(i0, 2, 2)); assert(i@ =~= i0.subrange(lp_next(i0, 2, 2), i0.len() as int)); }"}]},
        {"file": F_SH, "kind": "fn", "name": "parse_content_and_signature",
         "contract": """
    requires forall|x: &'a [u8]| #[trigger] fun.requires((x,)),
    ensures exists|r1: IResult<&'a [u8], T>| #[trigger] fun.ensures((i,), r1) && cas_post(r1, ext, r),
"""},
    ],
    "epilogue": LOCALITY,
}
