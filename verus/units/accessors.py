# V-ACCESSORS (property C15): the ClientHello trait accessors of the TLS and DTLS ClientHello structures, the new()
# constructors and get_version(), extracted verbatim and proved to return the structure's own fields / to store their
# arguments unchanged - for every value, in particular for every list length.
import os, sys
sys.path.insert(0, os.path.dirname(os.path.abspath(__file__)))
import bodies2 as _b2

F_HS = "src/tls_handshake.rs"
F_DTLS = "src/dtls.rs"
_types = [it for it in _b2.UNIT["items"] if it["kind"] in ("struct", "enum", "newtype_enum")]


def getters(file, T):
    m = {
        "version": {"contract": "        ensures r == self.version,"},
        "random": {"contract": "        ensures r == self.random,"},
        "session_id": {"contract": "        ensures r == self.session_id,"},
        "ciphers": {"contract": "        ensures *r == self.ciphers,"},
        "comp": {"contract": "        ensures *r == self.comp,"},
        "ext": {"contract": "        ensures r == self.ext,"},
    }
    return {"file": file, "kind": "impl", "name": T, "trait": "ClientHello", "as_inherent": True, "methods": m}


UNIT = {
    "name": "accessors",
    "property": ["C15"],
    "prelude": ["shim_nom.rs"],
    "items": _types + [
        {"file": F_HS, "kind": "impl", "name": "TlsClientHelloContents", "methods": {
            "new": {"returns": "s", "contract": """
        ensures s.version.0 == v, s.random == random, s.session_id == sid, s.ciphers == c, s.comp == co, s.ext == e,
"""},
            "get_version": {"contract": "        ensures r == self.version,"},
            "get_ciphers": {"skip": True},     # iterator adapters: Kani (fd_route_get_ciphersuite, mod_ch_cipher_suites)
        }},
        {"file": F_HS, "kind": "impl", "name": "TlsServerHelloContents", "methods": {
            "new": {"returns": "s", "contract": """
        ensures s.version.0 == v, s.random == random, s.session_id == sid, s.cipher.0 == c, s.compression.0 == co, s.ext == e,
"""},
            "get_version": {"contract": "        ensures r == self.version,"},
            "get_cipher": {"skip": True},
        }},
        getters(F_HS, "TlsClientHelloContents"),
        getters(F_DTLS, "DTLSClientHello"),
    ],
    "epilogue": "",
}
