# V-DISPATCH-EXT (properties C05, C11, C06): the three extension dispatchers, parse_tls_extension_unknown
# and the variant -> wire-type mapping, extracted verbatim; content parsers abstract.
import os, sys
sys.path.insert(0, os.path.dirname(os.path.abspath(__file__)))
from states import adt, F_HS, F_EC

F_EXT = "src/tls_extensions.rs"

# (wire type, content parser, takes ext_len, variant recogniser, in client table, in server table)
TABLE = [
    (0, "parse_tls_extension_sni_content", False, "SNI", True, True),
    (1, "parse_tls_extension_max_fragment_length_content", False, "MaxFragmentLength", True, True),
    (5, "parse_tls_extension_status_request_content", True, "StatusRequest", True, True),
    (10, "parse_tls_extension_elliptic_curves_content", False, "EllipticCurves", True, False),
    (11, "parse_tls_extension_ec_point_formats_content", False, "EcPointFormats", True, True),
    (13, "parse_tls_extension_signature_algorithms_content", False, "SignatureAlgorithms", True, True),
    (15, "parse_tls_extension_heartbeat_content", False, "Heartbeat", True, True),
    (16, "parse_tls_extension_alpn_content", False, "ALPN", True, True),
    (18, "parse_tls_extension_signed_certificate_timestamp_content", False, "SignedCertificateTimestamp", True, True),
    (21, "parse_tls_extension_padding_content", True, "Padding", True, False),
    (22, "parse_tls_extension_encrypt_then_mac_content", True, "EncryptThenMac", True, True),
    (23, "parse_tls_extension_extended_master_secret_content", True, "ExtendedMasterSecret", True, True),
    (28, "parse_tls_extension_record_size_limit", False, "RecordSizeLimit", True, True),
    (35, "parse_tls_extension_session_ticket_content", True, "SessionTicket", True, True),
    (40, "parse_tls_extension_key_share_old_content", True, "KeyShareOld", False, False),
    (41, "parse_tls_extension_pre_shared_key_content", True, "PreSharedKey", True, True),
    (42, "parse_tls_extension_early_data_content", True, "EarlyData", True, True),
    (43, "parse_tls_extension_supported_versions_content", True, "SupportedVersions", True, True),
    (44, "parse_tls_extension_cookie_content", True, "Cookie", True, True),
    (45, "parse_tls_extension_psk_key_exchange_modes_content", False, "PskExchangeModes", True, False),
    (48, "parse_tls_extension_oid_filters", False, "OidFilters", True, False),
    (49, "parse_tls_extension_post_handshake_auth_content", True, "PostHandshakeAuth", True, False),
    (51, "parse_tls_extension_key_share_content", True, "KeyShare", True, True),
    (13172, "parse_tls_extension_npn_content", True, "NextProtocolNegotiation", True, True),
    (0xff01, "parse_tls_extension_renegotiation_info_content", False, "RenegotiationInfo", True, True),
    (0xffce, "parse_tls_extension_encrypted_server_name", False, "EncryptedServerName", True, False),
]

# variant -> IANA extension code point (oracle, from the IANA TLS ExtensionType registry)
EXT_TYPE_SPEC = "pub open spec fn ext_type_of_spec(e: TlsExtension) -> u16 {\n    match e {\n" + "".join(
    "        TlsExtension::%s%s => %d,\n" % (v, "{..}" if v == "EncryptedServerName" else ("" if v in ("EncryptThenMac", "ExtendedMasterSecret", "PostHandshakeAuth", "NextProtocolNegotiation") else "(..)"), t)
    for t, _, _, v, _, _ in TABLE) + "        TlsExtension::Grease(..) => 0xfafa,\n        TlsExtension::Unknown(x, _) => x.0,\n    }\n}\n"

def callee_items():
    out = []
    for t, fn, has_len, variant, _, _ in TABLE:
        # content parser: abstract (uninterpreted, deterministic). The one fact assumed about its value
        # - "on success it returns ITS variant" - is an obligation of the Kani leaf harness leaf_ext_<..>.
        spec = "spec_" + fn
        if has_len:
            out.append({"file": "-", "kind": "inline", "name": spec, "text":
                "pub uninterp spec fn %s(i: Seq<u8>, ext_len: u16) -> IResult<&'static [u8], TlsExtension<'static>>;" % spec})
            out.append({"file": F_EXT, "kind": "fn", "name": fn, "external_body": True, "contract":
                "    ensures r == %s(i@, ext_len), r is Ok ==> r->Ok_0.1 is %s," % (spec, variant)})
        else:
            out.append({"file": "-", "kind": "inline", "name": spec, "text":
                "pub uninterp spec fn %s(i: Seq<u8>) -> IResult<&'static [u8], TlsExtension<'static>>;" % spec})
            out.append({"file": F_EXT, "kind": "fn", "name": fn, "external_body": True, "contract":
                "    ensures r == %s(i@), r is Ok ==> r->Ok_0.1 is %s," % (spec, variant)})
    return out

def table_spec(name, col):
    arms = []
    for row in TABLE:
        t, fn, has_len, variant = row[:4]
        if col is not None and not row[col]:
            continue
        call = "spec_%s(d%s)" % (fn, ", l" if has_len else "")
        arms.append("        if t == %d { Some(%s) } else" % (t, call))
    return ("pub open spec fn %s(t: u16, d: Seq<u8>, l: u16) -> Option<IResult<&'static [u8], TlsExtension<'static>>> {\n" % name
            + "\n".join(arms) + "\n        { None }\n}\n")

SPEC = r'''
// ------------------------------------------------------------------ dispatch contract (from the property + IANA registry)
// RFC 8701 GREASE code points: 0x0A0A, 0x1A1A, ..., 0xFAFA (both bytes equal, low nibbles 0xA)
pub open spec fn is_grease(t: u16) -> bool { (t & 0x0f0f) == 0x0a0a && (t >> 8) == (t & 0xff) }

''' + table_spec("generic_table", None) + table_spec("client_table", 4) + table_spec("server_table", 5) + r'''

pub enum ExtOut { Incomplete(Needed), Error(ErrorKind), Failure(ErrorKind), Ok { rem: Seq<u8>, ext: TlsExtension<'static> } }

pub open spec fn ext_out(r: IResult<&[u8], TlsExtension>) -> ExtOut {
    match r {
        Ok((rem, e)) => ExtOut::Ok { rem: rem@, ext: e },
        Err(Err::Incomplete(n)) => ExtOut::Incomplete(n),
        Err(Err::Error(e)) => ExtOut::Error(e.code),
        Err(Err::Failure(e)) => ExtOut::Failure(e.code),
    }
}

// (type u16, length u16, data): what a dispatcher must answer on input i, given its table
pub open spec fn dispatch_post(i: Seq<u8>, r: IResult<&[u8], TlsExtension>,
                               table: spec_fn(u16, Seq<u8>, u16) -> Option<IResult<&'static [u8], TlsExtension<'static>>>) -> bool {
    if i.len() < 4 { r is Err && r->Err_0 is Incomplete }
    else {
        let t = (be_val(i, 2)) as u16;
        let l = (i[2] as int) * 256 + (i[3] as int);
        if i.len() < 4 + l {
            // a length field exceeding the enclosing block never yields a value
            r == Err::<(&[u8], TlsExtension), Err<Error<&[u8]>>>(Err::Incomplete(Needed::Size((4 + l - i.len()) as usize)))
        } else {
            let d = i.subrange(4, 4 + l);
            let rem = i.subrange(4 + l, i.len() as int);
            if is_grease(t) {
                match r { Ok((rm, TlsExtension::Grease(t2, d2))) => t2 == t && d2@ =~= d && rm@ =~= rem, _ => false }
            } else {
                match table(t, d, l as u16) {
                    // known type: the content parser's verdict on exactly the extension data; consumption 4 + length
                    Some(c) => match c {
                        Ok((_, e)) => (match r { Ok((rm, e2)) => e2 == e && rm@ =~= rem, _ => false }),
                        Err(e) => r == Err::<(&[u8], TlsExtension), Err<Error<&[u8]>>>(e),
                    },
                    // every other type: Unknown(type, data) byte-for-byte
                    None => match r { Ok((rm, TlsExtension::Unknown(t2, d2))) => t2.0 == t && d2@ =~= d && rm@ =~= rem, _ => false },
                }
            }
        }
    }
}
'''

LEMMAS = r'''
// C06 LOCALITY: an extension decoded from b is decoded identically from b ++ x, the remainder simply grows by x
// (nested length fields can never make the parser read into what follows).
proof fn lemma_ext_local(b: Seq<u8>, x: Seq<u8>, r1: IResult<&[u8], TlsExtension>, r2: IResult<&[u8], TlsExtension>,
                         table: spec_fn(u16, Seq<u8>, u16) -> Option<IResult<&'static [u8], TlsExtension<'static>>>)
    requires dispatch_post(b, r1, table), r1 is Ok, dispatch_post(b + x, r2, table),
    ensures
        r2 is Ok, r2->Ok_0.0@ =~= r1->Ok_0.0@ + x,
        match (r1->Ok_0.1, r2->Ok_0.1) {
            (TlsExtension::Grease(t1, d1), TlsExtension::Grease(t2, d2)) => t1 == t2 && d1@ =~= d2@,
            (TlsExtension::Unknown(t1, d1), TlsExtension::Unknown(t2, d2)) => t1 == t2 && d1@ =~= d2@,
            (e1, e2) => e1 == e2,
        },
{
    reveal_with_fuel(be_val, 3);
    let bx = b + x;
    assert(b.len() >= 4);
    assert(bx[0] == b[0] && bx[1] == b[1] && bx[2] == b[2] && bx[3] == b[3]);
    assert(be_val(bx, 2) == be_val(b, 2));
    let l = (b[2] as int) * 256 + (b[3] as int);
    assert(b.len() >= 4 + l);
    assert(bx.subrange(4, 4 + l) =~= b.subrange(4, 4 + l));
    assert(bx.subrange(4 + l, bx.len() as int) =~= b.subrange(4 + l, b.len() as int) + x);
}

// The three dispatchers agree on every type they all recognise (and on GREASE / unknown types).
proof fn lemma_tables_agree(t: u16, d: Seq<u8>, l: u16)
    ensures
        client_table(t, d, l) is Some ==> client_table(t, d, l) == generic_table(t, d, l),
        server_table(t, d, l) is Some ==> server_table(t, d, l) == generic_table(t, d, l),
        server_table(t, d, l) is Some ==> client_table(t, d, l) is Some,
{
}

// the 16 GREASE code points, and nothing else
proof fn lemma_grease_values(t: u16)
    ensures is_grease(t) <==> (t == 0x0a0a || t == 0x1a1a || t == 0x2a2a || t == 0x3a3a || t == 0x4a4a || t == 0x5a5a
        || t == 0x6a6a || t == 0x7a7a || t == 0x8a8a || t == 0x9a9a || t == 0xaaaa || t == 0xbaba || t == 0xcaca
        || t == 0xdada || t == 0xeaea || t == 0xfafa),
{
    assert(is_grease(t) <==> (t == 0x0a0a || t == 0x1a1a || t == 0x2a2a || t == 0x3a3a || t == 0x4a4a || t == 0x5a5a
        || t == 0x6a6a || t == 0x7a7a || t == 0x8a8a || t == 0x9a9a || t == 0xaaaa || t == 0xbaba || t == 0xcaca
        || t == 0xdada || t == 0xeaea || t == 0xfafa)) by (bit_vector)
        requires is_grease(t) == ((t & 0x0f0f) == 0x0a0a && (t >> 8) == (t & 0xff));
}
'''

HINTS = [
    {"at_start": True, "text": "    let ghost i0 = i@;\n    proof { reveal_with_fuel(be_val, 3); }"},
    # rename-tolerant anchors: {g1} = the name the remainder is bound to
    {"after": r"let \((\w+), ext_type\) = be_u16\(\w+\)\?;", "text": "    let ghost i1 = {g1}@;\n    proof { assert(i0.len() >= 2); assert(i1 =~= i0.subrange(2, i0.len() as int)); assert(ext_type as int == be_val(i0, 2)); }"},
    {"after": r"let \((\w+), ext_data\) = length_data\(be_u16\)\(\w+\)\?;", "text": "    proof { assert(i1.len() >= 2); assert(be_val(i1, 2) == (i0[2] as int) * 256 + (i0[3] as int)); let l = be_val(i1, 2); assert(0 <= l <= 65535); assert(ext_data@ =~= i0.subrange(4, 4 + l)); assert(ext_data@.len() == l); assert({g1}@ =~= i0.subrange(4 + l, i0.len() as int)); }"},
]

def disp(fn, table):
    return {"file": F_EXT, "kind": "fn", "name": fn, "contract": """
    ensures
        dispatch_post(i@, r, |t: u16, d: Seq<u8>, l: u16| %s(t, d, l)),
        // the tag derived from a decoded variant equals the wire type (every GREASE value -> the Grease tag)
        i@.len() >= 4 && r is Ok ==> ({ let t = be_val(i@, 2) as u16;
            if is_grease(t) { ext_type_of_spec(r->Ok_0.1) == 0xfafa } else { ext_type_of_spec(r->Ok_0.1) == t } }),
""" % table, "splices": HINTS}

UNIT = {
    "name": "dispatch_ext",
    "property": ["C05", "C11", "C06"],
    "prelude": ["shim_nom.rs"],
    "items": [
        adt(F_HS, "struct", "TlsVersion"),
        adt(F_HS, "struct", "TlsCipherSuiteID"),
        adt(F_EC, "struct", "NamedGroup"),
        adt(F_EXT, "struct", "TlsExtensionType"),
        adt(F_EXT, "newtype_enum", "TlsExtensionType"),
        adt(F_EXT, "struct", "SNIType"),
        adt(F_EXT, "struct", "CertificateStatusType"),
        adt(F_EXT, "struct", "OidFilter"),
        adt(F_EXT, "enum", "TlsExtension"),
        {"file": "-", "kind": "inline", "name": "ext_type_of_spec", "text": EXT_TYPE_SPEC},
    ] + callee_items() + [
        {"file": "-", "kind": "inline", "name": "dispatch-contract", "text": SPEC},
        {"file": F_EXT, "kind": "method_as_fn", "name": "from", "as": "ext_type_of",
         "header": r"^impl<'a> From<&'a TlsExtension<'a>> for TlsExtensionType", "contract": """
    ensures
        r.0 == ext_type_of_spec(*ext),
"""},
        {"file": F_EXT, "kind": "fn", "name": "parse_tls_extension_unknown", "contract": """
    ensures dispatch_post(i@, r, |t: u16, d: Seq<u8>, l: u16| None::<IResult<&'static [u8], TlsExtension<'static>>>) || (i@.len() >= 4 && is_grease(be_val(i@, 2) as u16)),
""", "splices": HINTS},
        disp("parse_tls_client_hello_extension", "client_table"),
        disp("parse_tls_server_hello_extension", "server_table"),
        disp("parse_tls_extension", "generic_table"),
    ],
    "epilogue": LEMMAS,
}
