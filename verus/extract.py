#!/usr/bin/env python3
"""
Mechanical extractor: slices items out of /repo/src/*.rs on every run, applies the
rewrite rules R0..R7 documented in DESIGN.md section 3.2 (and nothing else), splices the
contracts from the unit description, and writes one verus!{} file plus a line map.

A unit description is a python file defining UNIT = {
   "name": str,
   "prelude": [paths relative to /verif/verus, included verbatim inside verus!{}],
   "items": [ {file, kind, name, ...options} ],
   "epilogue": str (spec functions / lemmas, verbatim),
}

Item kinds:
   fn        free function          options: contract, returns, splices, rewrites, impl_of
   struct / enum                    options: derive_extra
   const                            options: ensures, proof
   impl      inherent impl block    options: methods {name: {contract, returns, splices}}
   newtype_enum   the newtype_enum!{ impl [debug|display] T { A = 1, ... } } macro call
                  -> impl T { pub const A: T = T(1); ... }   (rule R5)

Exit code 2 with "anchor lost" on stderr if an item or a splice anchor is missing.
"""
import difflib
import importlib.util
import json
import os
import re
import sys


class AnchorLost(Exception):
    pass


CANARY = False


# ----------------------------------------------------------------------------- lexing helpers

def mask_comments_and_strings(src):
    """Return a string of the same length where comments, string and char literals are
    replaced by spaces (newlines kept), so that brace matching and regexes are safe."""
    out = list(src)
    i, n = 0, len(src)
    while i < n:
        c = src[i]
        if src.startswith("//", i):
            j = src.find("\n", i)
            if j < 0:
                j = n
            for k in range(i, j):
                out[k] = " "
            i = j
        elif src.startswith("/*", i):
            depth, j = 1, i + 2
            while j < n and depth:
                if src.startswith("/*", j):
                    depth += 1
                    j += 2
                elif src.startswith("*/", j):
                    depth -= 1
                    j += 2
                else:
                    j += 1
            for k in range(i, j):
                if out[k] != "\n":
                    out[k] = " "
            i = j
        elif c == '"':
            j = i + 1
            while j < n and src[j] != '"':
                j += 2 if src[j] == "\\" else 1
            j += 1
            for k in range(i + 1, j - 1):
                if out[k] != "\n":
                    out[k] = " "
            i = j
        elif c == "r" and re.match(r'r#*"', src[i:]):
            m = re.match(r'r(#*)"', src[i:])
            close = '"' + m.group(1)
            j = src.find(close, i + len(m.group(0)))
            j = n if j < 0 else j + len(close)
            for k in range(i + len(m.group(0)), j - len(close)):
                if out[k] != "\n":
                    out[k] = " "
            i = j
        elif c == "'":
            # char literal or lifetime
            m = re.match(r"'(\\.[^']*|[^'\\])'", src[i:])
            if m:
                for k in range(i + 1, i + len(m.group(0)) - 1):
                    out[k] = " "
                i += len(m.group(0))
            else:
                i += 1
        else:
            i += 1
    return "".join(out)


def match_close(masked, open_pos):
    """masked[open_pos] is one of ( [ {  -> index of the matching closer"""
    pairs = {"(": ")", "[": "]", "{": "}"}
    o = masked[open_pos]
    c = pairs[o]
    depth = 0
    for k in range(open_pos, len(masked)):
        ch = masked[k]
        if ch == o:
            depth += 1
        elif ch == c:
            depth -= 1
            if depth == 0:
                return k
    raise AnchorLost("unbalanced %s at %d" % (o, open_pos))


def attr_start(src, masked, pos):
    """Walk backwards from the item keyword over preceding attributes / doc comments /
    blank lines; return the start offset of the first attached line."""
    start = src.rfind("\n", 0, pos) + 1
    while True:
        prev_end = start - 1
        if prev_end <= 0:
            return start
        prev_start = src.rfind("\n", 0, prev_end) + 1
        line = src[prev_start:prev_end].strip()
        if line.startswith("///") or line.startswith("#[") or line.startswith("//"):
            start = prev_start
            continue
        # multi-line attribute tail, e.g. "#[allow(...)] // comment"
        return start


# ----------------------------------------------------------------------------- slicing

def find_top_level(masked, regex, what):
    ms = [m for m in re.finditer(regex, masked, re.M)]
    if not ms:
        raise AnchorLost("%s not found" % what)
    return ms


def slice_fn(src, masked, name, within=None):
    lo, hi = (0, len(src)) if within is None else within
    rx = re.compile(r"^[ \t]*(pub(\([a-z]+\))?\s+)?(const\s+)?fn\s+%s\b" % re.escape(name), re.M)
    m = rx.search(masked, lo, hi)
    if not m:
        raise AnchorLost("fn %s not found" % name)
    # body: first '{' at paren/angle depth 0 after the signature's parameter list
    p = masked.index("(", m.end())
    # generics may precede the parameter list
    if "<" in masked[m.end():p]:
        # skip generic parameter list
        g = masked.index("<", m.end())
        depth, k = 0, g
        while True:
            if masked[k] == "<":
                depth += 1
            elif masked[k] == ">" and masked[k - 1] != "-":
                depth -= 1
                if depth == 0:
                    break
            k += 1
        p = masked.index("(", k)
    pe = match_close(masked, p)
    b = masked.index("{", pe)
    be = match_close(masked, b)
    start = attr_start(src, masked, m.start())
    return start, m.start(), pe, b, be + 1


def slice_adt(src, masked, kind, name):
    rx = re.compile(r"^[ \t]*(pub(\([a-z]+\))?\s+)?%s\s+%s\b" % (kind, re.escape(name)), re.M)
    m = rx.search(masked)
    if not m:
        raise AnchorLost("%s %s not found" % (kind, name))
    semi = masked.find(";", m.end())
    brace = masked.find("{", m.end())
    if brace < 0 or (0 <= semi < brace):
        end = semi + 1
    else:
        end = match_close(masked, brace) + 1
    start = attr_start(src, masked, m.start())
    return start, end


def slice_const(src, masked, name):
    rx = re.compile(r"^[ \t]*(pub(\([a-z]+\))?\s+)?const\s+%s\s*:" % re.escape(name), re.M)
    m = rx.search(masked)
    if not m:
        raise AnchorLost("const %s not found" % name)
    end = masked.index(";", m.end()) + 1
    start = attr_start(src, masked, m.start())
    return start, m.start(), end


def slice_impl(src, masked, name, trait=None):
    if trait:
        rx = re.compile(r"^impl(<[^>]*>)?\s+%s(<[^>]*>)?\s+for\s+%s(<[^>]*>)?\s*\{" % (re.escape(trait), re.escape(name)), re.M)
    else:
        rx = re.compile(r"^impl(<[^>]*>)?\s+%s(<[^>]*>)?\s*\{" % re.escape(name), re.M)
    m = rx.search(masked)
    if not m:
        raise AnchorLost("impl %s%s not found" % ((trait + " for ") if trait else "", name))
    b = m.end() - 1
    be = match_close(masked, b)
    start = attr_start(src, masked, m.start())
    return start, b, be + 1


def slice_trait(src, masked, name):
    rx = re.compile(r"^[ \t]*(pub(\([a-z]+\))?\s+)?trait\s+%s\b[^{]*\{" % re.escape(name), re.M)
    m = rx.search(masked)
    if not m:
        raise AnchorLost("trait %s not found" % name)
    b = m.end() - 1
    be = match_close(masked, b)
    start = attr_start(src, masked, m.start())
    return start, b, be + 1


def slice_newtype_enum(src, masked, name):
    rx = re.compile(r"^newtype_enum!\s*\{\s*impl\s+(debug\s+|display\s+)?%s\s*\{" % re.escape(name), re.M)
    m = rx.search(masked)
    if not m:
        raise AnchorLost("newtype_enum %s not found" % name)
    b = m.end() - 1
    be = match_close(masked, b)
    body_masked = masked[b + 1:be]
    body = src[b + 1:be]
    consts = []
    for cm in re.finditer(r"([A-Za-z_][A-Za-z0-9_]*)\s*=\s*([0-9a-fA-Fx_]+)", body_masked):
        consts.append((cm.group(1), cm.group(2)))
    if not consts:
        raise AnchorLost("newtype_enum %s has no constants" % name)
    return m.start(), be + 1, consts


# ----------------------------------------------------------------------------- rewrite rules

KEEP_DERIVES = {"Clone", "Copy", "Default", "PartialEq", "Eq"}
DROP_ATTRS = re.compile(r"^\s*#\[(rustfmt::skip|inline|allow\(|nom\(|deprecated|doc|repr\()")


def rule_R0(text, log):
    """drop doc comments, line comments on their own line, and no-runtime-meaning attributes;
    filter derives; R3: add Structural where PartialEq+Eq are derived"""
    out = []
    for line in text.split("\n"):
        s = line.strip()
        if s.startswith("///") or s.startswith("//!"):
            log.append("R0 drop doc: " + s[:60])
            continue
        if s.startswith("//"):
            log.append("R0 drop comment: " + s[:60])
            continue
        if DROP_ATTRS.match(line):
            # attribute possibly followed by a trailing comment; must be alone on the line
            log.append("R0 drop attr: " + s[:70])
            continue
        m = re.match(r"^(\s*)#\[derive\(([^)]*)\)\]\s*$", line)
        if m:
            ds = [d.strip() for d in m.group(2).split(",") if d.strip()]
            keep = [d for d in ds if d in KEEP_DERIVES]
            dropped = [d for d in ds if d not in KEEP_DERIVES]
            if dropped:
                log.append("R0 drop derives: " + ",".join(dropped))
            if "PartialEq" in keep and "Eq" in keep:
                keep.append("Structural")
                log.append("R3 add Structural")
            if keep:
                out.append("%s#[derive(%s)]" % (m.group(1), ", ".join(keep)))
            continue
        # strip trailing line comments (masked-aware: only if '//' is outside strings)
        mk = mask_comments_and_strings(line)
        idx = -1
        for mm in re.finditer(r"//", line):
            if mk[mm.start()] == " " or mk[mm.start():mm.start() + 2] == "  ":
                idx = mm.start()
                break
        if idx >= 0 and mk[idx:idx + 2] != "//":
            line = line[:idx].rstrip()
        out.append(line)
    return "\n".join(out)


def rule_R1(text, log):
    """in match-arm patterns, &Path(..) / &Path -> Path(..) / Path  (default binding modes)"""
    out = []
    for line in text.split("\n"):
        if "=>" in line:
            pat, arrow, rest = line.partition("=>")
            new = re.sub(r"&((?:[A-Z]\w*::)+[A-Z]\w*)", r"\1", pat)
            if new != pat:
                log.append("R1: " + pat.strip()[:80])
            line = new + arrow + rest
        out.append(line)
    return "\n".join(out)


def rule_R2(text, log, struct_name="Error"):
    """guard on a fieldless-enum field turned into a pattern:
         `P1(e) | P2(e) if e.f == Enum::V => body`   (body does not mention e)
      -> `P1(S { f: Enum::V, .. }) | P2(S { f: Enum::V, .. }) => body`
    For a fieldless enum with derived PartialEq, `x == Enum::V` holds iff the pattern `Enum::V`
    matches x, so arm selection is unchanged. (Verus rejects or-pattern + guard in one arm.)"""
    masked = mask_comments_and_strings(text)
    rx = re.compile(r"^([ \t]*)([^\n]*?\S)\s+if\s+(\w+)\.(\w+)\s*==\s*((?:\w+::)+\w+)\s*=>", re.M)
    out = []
    pos = 0
    for m in rx.finditer(masked):
        pats, binder, field, const = text[m.start(2):m.end(2)], m.group(3), m.group(4), m.group(5)
        alts = [a.strip() for a in pats.split("|")]
        if not all(re.search(r"\(%s\)" % re.escape(binder), a) for a in alts):
            continue
        # body extent: block or expression up to ',' at depth 0
        e0 = m.end()
        while masked[e0] in " \t\n":
            e0 += 1
        if masked[e0] == "{":
            e1 = match_close(masked, e0) + 1
        else:
            depth, k = 0, e0
            while True:
                ch = masked[k]
                if ch in "([{":
                    depth += 1
                elif ch in ")]}":
                    if depth == 0:
                        break
                    depth -= 1
                elif ch == "," and depth == 0:
                    break
                k += 1
            e1 = k
        if re.search(r"\b%s\b" % re.escape(binder), masked[e0:e1]):
            raise AnchorLost("R2: arm body uses the guard binder `%s`" % binder)
        newpats = " | ".join(re.sub(r"\(%s\)" % re.escape(binder), "(%s { %s: %s, .. })" % (struct_name, field, const), a) for a in alts)
        out.append(text[pos:m.start(2)])
        out.append(newpats + " =>")
        pos = m.end()
        log.append("R2 guard -> pattern: %s if %s.%s == %s" % (pats.strip(), binder, field, const))
    out.append(text[pos:])
    return "".join(out)


def rule_R20(text, log):
    """R20: cookie-factory's trait alias written out: `SerializeFn<X>` -> `Fn(WriteContext<X>) -> GenResult<X>` (its blanket
    impl makes the two bounds the same set of types)"""
    new, n = re.subn(r"\bSerializeFn<([^<>]*(?:<[^<>]*>)?[^<>]*)>", r"Fn(WriteContext<\1>) -> GenResult<\1>", text)
    if n:
        log.append("R20 SerializeFn<..> written out as its Fn bound (%d)" % n)
    return new


def rule_R21(text, log):
    """R21: `tuple((a, b, c))` -> `tuple3(a, b, c)` (cookie-factory's arity-generic `tuple` named per arity; arguments verbatim)"""
    out, pos, cnt = [], 0, 0
    masked = mask_comments_and_strings(text)
    for m in re.finditer(r"\btuple\(\(", masked):
        if m.start() < pos:
            continue
        inner_open = m.end() - 1
        inner_close = match_close(masked, inner_open)
        outer_close = match_close(masked, m.end() - 2)
        if masked[inner_close + 1:outer_close].strip() not in ("", ","):
            continue
        # top-level commas of the inner tuple
        depth, args, a0 = 0, [], inner_open + 1
        for k in range(inner_open + 1, inner_close):
            ch = masked[k]
            if ch in "([{":
                depth += 1
            elif ch in ")]}":
                depth -= 1
            elif ch == "," and depth == 0:
                args.append((a0, k)); a0 = k + 1
        if text[a0:inner_close].strip():
            args.append((a0, inner_close))
        inner = rule_R21(text[inner_open + 1:inner_close], log)      # nested tuples
        # recompute on the rewritten inner text is not needed: arity comes from the original argument list
        out.append(text[pos:m.start()] + "tuple%d(" % len(args) + inner.rstrip().rstrip(",") + ")")
        pos = outer_close + 1
        cnt += 1
    out.append(text[pos:])
    if cnt:
        log.append("R21 tuple((..)) -> tupleN(..) (%d)" % cnt)
    return "".join(out)


def name_return(sig_and_body, ret_name, log):
    """R6: `-> T {`  =>  `-> (ret_name: T)` on the first fn signature of the text; returns
    (text_before_body, body) split so that a contract can be inserted."""
    masked = mask_comments_and_strings(sig_and_body)
    m = re.search(r"\bfn\s+\w+", masked)
    p = masked.index("(", m.end())
    lt = masked.find("<", m.end(), p)
    if lt >= 0:
        depth, k = 0, lt
        while True:
            if masked[k] == "<":
                depth += 1
            elif masked[k] == ">" and masked[k - 1] != "-":
                depth -= 1
                if depth == 0:
                    break
            k += 1
        p = masked.index("(", k)
    pe = match_close(masked, p)
    b = masked.index("{", pe)
    head = sig_and_body[:b]
    body = sig_and_body[b:]
    am = re.search(r"->\s*", head[pe:])
    if am and ret_name:
        a0 = pe + am.end()
        # return type runs until 'where' or end of head
        wm = re.search(r"\bwhere\b", head[a0:])
        a1 = a0 + wm.start() if wm else len(head)
        ty = head[a0:a1].strip()
        head = head[:a0] + "(%s: %s)" % (ret_name, ty) + ("\n" + head[a1:] if wm else "\n")
        log.append("R6 name return value: (%s: %s)" % (ret_name, ty))
    return head, body


def apply_splices(body, splices, log, what):
    """insert proof text after the first line matching a regex (anchor) inside a body"""
    for sp in splices or []:
        if sp.get("at_start"):
            # right after the opening brace of the body
            body = "{\n" + sp["text"].rstrip("\n") + "\n" + body[1:].lstrip("\n")
            log.append("splice ghost/proof block at the start of the body")
            continue
        anchor = sp.get("after") or sp["before"]
        rx = re.compile(anchor, re.M)
        m = rx.search(body)
        if not m:
            # the anchored statement was edited: retry on `let (<rem>, <name>) = <anything>;` - the hint then still lands
            # after the statement binding <name>, and a changed right-hand side fails an OBLIGATION instead of the extraction
            lm = re.match(r"(let \\\((?:\w+|\(\\w\+\)), \w+\\\) = )", anchor)
            if lm:
                rx = re.compile(lm.group(1) + r"[^;]*;", re.M)
                m = rx.search(body)
                if m:
                    log.append("splice anchor /%s/ not found verbatim; loosened to the binding statement" % anchor)
        if not m and sp.get("optional"):
            log.append("optional proof hint /%s/: anchor absent, hint skipped" % anchor)
            continue
        if not m:
            raise AnchorLost("splice anchor %r lost in %s" % (anchor, what))
        eol = body.find("\n", m.end())
        if sp.get("inline"):
            eol = m.end() - 1
        if "before" in sp:                                # the line before the one holding the anchored statement
            eol = body.rfind("\n", 0, m.start())
        txt = sp["text"]
        for gi in range(1, (m.lastindex or 0) + 1):      # rename-tolerant hints: {g1}, {g2} = names bound / used in the anchored statement
            txt = txt.replace("{g%d}" % gi, m.group(gi) or "")
        body = body[:eol + 1] + txt.rstrip("\n") + "\n" + body[eol + 1:]
        log.append("splice proof block %s /%s/" % ("before" if "before" in sp else "after", anchor))
    return body


def contract_fn(text, opts, log, what):
    """text = one fn item (attrs + signature + body). Insert contract, apply rewrites."""
    text = rule_R0(text, log)
    for r in opts.get("rewrites", []):
        text = {"R1": rule_R1, "R2": rule_R2, "R20": rule_R20, "R21": rule_R21}[r](text, log)
    for sub in opts.get("subst", []):
        pat, rep = sub[0], sub[1]
        optional = len(sub) > 2 and sub[2] == "optional"
        new, n = re.subn(pat, rep, text)
        if n == 0:
            if optional:
                log.append("optional subst %r: anchor absent, skipped" % pat)
                continue
            raise AnchorLost("subst anchor %r lost in %s" % (pat, what))
        log.append("subst %r -> %r (%d)" % (pat, rep, n))
        text = new
    head, body = name_return(text, opts.get("returns", "r"), log)
    body = apply_splices(body, opts.get("splices"), log, what)
    contract = opts.get("contract", "").strip("\n")
    if CANARY and (contract or opts.get("inherits_contract")) and not opts.get("external_body"):
        # vacuity canary: with a contradictory precondition / vacuous assumption this would verify
        body = "{ proof { assert(false); }" + body[1:]
    if opts.get("external_body"):
        head = "#[verifier::external_body]\n" + head
        body = opts.get("external_body_text", "{ unimplemented!() }")     # (an `impl Fn` return type needs a closure-typed placeholder)
        log.append("external_body (body dropped and NOT verified, contract assumed)")
    if opts.get("rlimit"):
        head = "#[verifier::rlimit(%d)]\n" % opts["rlimit"] + head          # solver budget only (default 10)
        log.append("solver resource limit raised to %d for this function" % opts["rlimit"])
    if contract:
        return head.rstrip() + "\n" + contract + "\n" + body
    return head.rstrip() + "\n" + body


# ----------------------------------------------------------------------------- driver

EXPANDED_PATH = None   # set by verus_run: the macro-expanded source of the tree under check (R13)


def load_unit(path):
    spec = importlib.util.spec_from_file_location("unit", path)
    mod = importlib.util.module_from_spec(spec)
    spec.loader.exec_module(mod)
    return mod.UNIT


def extract(unit, repo, verus_dir):
    cache = {}

    def load(rel):
        if rel not in cache:
            p = EXPANDED_PATH if rel == "@expanded" else rel if os.path.isabs(rel) else os.path.join(repo, rel)
            if not os.path.exists(p):
                raise AnchorLost("file %s missing" % rel)
            s = open(p).read()
            cache[rel] = (s, mask_comments_and_strings(s))
        return cache[rel]

    parts = []       # (origin, text)
    diffs = []
    functions = []   # (name, file, has_contract, external)

    for rel in unit.get("prelude", []):
        parts.append(("prelude:" + rel, open(os.path.join(verus_dir, rel)).read()))

    for it in unit["items"]:
        if it["kind"] == "inline":
            parts.append(("inline:" + it["name"], it["text"]))
            continue
        src, masked = load(it["file"])
        kind, name = it["kind"], it["name"]
        log = []
        what = "%s %s (%s)" % (kind, name, it["file"])
        if kind == "fn":
            start, kw, pe, b, end = slice_fn(src, masked, name)
            orig = src[start:end]
            new = contract_fn(orig, it, log, what)
            functions.append((name, it["file"], bool(it.get("contract")), bool(it.get("external_body"))))
        elif kind in ("struct", "enum"):
            start, end = slice_adt(src, masked, kind, name)
            orig = src[start:end]
            new = rule_R0(orig, log)
            # field attributes #[nom(...)] inside the body
            new = "\n".join(l for l in new.split("\n") if not re.match(r"^\s*#\[nom\(", l))
            # R3 (second case): a FIELDLESS enum with derived PartialEq (no Eq): the derived `==` compares discriminants,
            # i.e. it is structural - tell Verus so, otherwise an exec `s == TlsState::None` has no specification
            if kind == "enum" and "Structural" not in new:
                bm = re.search(r"\{(.*)\}\s*$", new, re.S)
                dm = re.search(r"#\[derive\(([^)]*)\)\]", new)
                if bm and dm and "PartialEq" in dm.group(1) and not re.search(r"[({]", bm.group(1)):
                    new = new.replace(dm.group(0), "#[derive(%s, Structural)]" % dm.group(1), 1)
                    log.append("R3 add Structural (fieldless enum with derived PartialEq)")
            for pat, rep in it.get("subst", []):
                new2, n = re.subn(pat, rep, new)
                if n == 0:
                    raise AnchorLost("subst anchor %r lost in %s" % (pat, what))
                log.append("subst %r -> %r" % (pat, rep))
                new = new2
            if it.get("derive_extra"):
                new = "#[derive(%s)]\n" % it["derive_extra"] + new
        elif kind == "const":
            start, kw, end = slice_const(src, masked, name)
            orig = src[start:end]
            new = rule_R0(orig, log)
            if it.get("ensures"):
                # R4: const -> exec const with ensures; initializer verbatim
                m = re.match(r"(?s)(.*?)\bconst\s+(\w+)\s*:\s*([^=]+?)\s*=\s*(.*);\s*$", new)
                if not m:
                    raise AnchorLost("const shape " + what)
                new = "%sexec const %s: %s\n    ensures %s\n{\n%s    %s\n}" % (
                    m.group(1), m.group(2), m.group(3), it["ensures"],
                    ("    proof { " + it["proof"] + " }\n") if it.get("proof") else "", m.group(4))
                log.append("R4 exec const with ensures")
        elif kind == "impl":
            start, b, end = slice_impl(src, masked, name, it.get("trait"))
            orig = src[start:end]
            head = rule_R0(src[start:b + 1], log)
            if it.get("as_inherent"):
                # R8': `impl<'a> Trait<'a> for T<'a> {` -> `impl<'a> T<'a> {` (methods verbatim, made pub): Verus cannot attach
                # `ensures` to the methods of a trait impl whose trait declares none
                head2 = re.sub(r"impl(<[^>]*>)?\s+[\w:]+(<[^>]*>)?\s+for\s+", lambda m: "impl%s " % (m.group(1) or ""), head, count=1)
                if head2 == head:
                    raise AnchorLost("trait impl header shape " + what)
                head = head2
                log.append("R8' trait impl turned into an inherent impl (method bodies verbatim)")
            inner_src = src[b + 1:end - 1]
            inner_masked = masked[b + 1:end - 1]
            pieces = [("\n" + it["impl_extra"] + "\n") if it.get("impl_extra") else ""]     # ghost `spec fn` implementations of a trait impl
            pos = 0
            meths = it.get("methods", {})
            found = set()
            for fm in re.finditer(r"^[ \t]*(pub(\([a-z]+\))?\s+)?(const\s+)?fn\s+(\w+)", inner_masked, re.M):
                mname = fm.group(4)
                s0, kw, pe, bb, e0 = slice_fn(inner_src, inner_masked, mname)
                if s0 < pos:
                    continue
                pieces.append(rule_R0(inner_src[pos:s0], log))
                mopts = meths.get(mname, {})
                if it.get("inherits_contract"):      # a real trait impl: each method is checked against the TRAIT's ensures
                    mopts = dict(mopts, inherits_contract=True)
                if mopts.get("skip"):
                    log.append("skip method %s" % mname)
                else:
                    pieces.append(contract_fn(inner_src[s0:e0], mopts, log, "%s::%s" % (name, mname)))
                    functions.append(("%s::%s" % (name, mname), it["file"], bool(mopts.get("contract") or mopts.get("inherits_contract")), bool(mopts.get("external_body"))))
                found.add(mname)
                pos = e0
            pieces.append(rule_R0(inner_src[pos:], log))
            missing = set(meths) - found
            if missing:
                raise AnchorLost("methods %s of impl %s not found" % (sorted(missing), name))
            new = head + "".join(pieces) + "}"
            if it.get("pre_impl"):
                new = it["pre_impl"] + "\n" + new
        elif kind == "trait":
            # a trait definition kept as a trait: ghost `spec fn`s added (it["extra"]), required methods get a named return value
            # and an `ensures` (R6), default methods additionally keep their bodies verbatim and are VERIFIED against that ensures
            start, b, end = slice_trait(src, masked, name)
            orig = src[start:end]
            head = rule_R0(src[start:b + 1], log)
            inner_src = src[b + 1:end - 1]
            inner_masked = masked[b + 1:end - 1]
            pieces = [("\n" + it["extra"] + "\n") if it.get("extra") else ""]
            pos = 0
            meths = it.get("methods", {})
            found = set()
            for fm in re.finditer(r"^[ \t]*fn\s+(\w+)", inner_masked, re.M):
                mname = fm.group(1)
                p0 = inner_masked.index("(", fm.end())
                pe0 = match_close(inner_masked, p0)
                semi = inner_masked.find(";", pe0)
                brace = inner_masked.find("{", pe0)
                mopts = meths.get(mname, {})
                if semi >= 0 and (brace < 0 or semi < brace):
                    # required method: `fn f(&self) -> T;`
                    s0 = attr_start(inner_src, inner_masked, fm.start())
                    pieces.append(rule_R0(inner_src[pos:s0], log))
                    decl = rule_R0(inner_src[s0:semi], log)
                    am = re.search(r"->\s*(.+?)\s*$", decl, re.S)
                    if am and mopts.get("contract"):
                        decl = decl[:am.start()] + "-> (%s: %s)\n%s" % (mopts.get("returns", "r"), am.group(1), mopts["contract"].strip("\n"))
                        log.append("R6 name return value of required trait method %s + contract" % mname)
                    pieces.append(decl.rstrip().rstrip(",") + ";" if mopts.get("contract") else decl + ";")
                    functions.append(("%s::%s (trait declaration: its ensures is an obligation of every impl)" % (name, mname), it["file"], False, False))
                    pos = semi + 1
                else:
                    s0, kw, pe, bb, e0 = slice_fn(inner_src, inner_masked, mname)
                    pieces.append(rule_R0(inner_src[pos:s0], log))
                    pieces.append(contract_fn(inner_src[s0:e0], mopts, log, "%s::%s" % (name, mname)))
                    functions.append(("%s::%s" % (name, mname), it["file"], bool(mopts.get("contract")), bool(mopts.get("external_body"))))
                    pos = e0
                found.add(mname)
            pieces.append(rule_R0(inner_src[pos:], log))
            missing = set(meths) - found
            if missing:
                raise AnchorLost("methods %s of trait %s not found" % (sorted(missing), name))
            new = head + "".join(pieces) + "}"
        elif kind == "method_as_fn":
            # R8: a trait-impl method lifted to a free function of another name; body verbatim
            hm = re.search(it["header"], masked, re.M)
            if not hm:
                raise AnchorLost("impl header %r not found" % it["header"])
            b = masked.index("{", hm.start())
            be = match_close(masked, b)
            s0, kw, pe, bb, e0 = slice_fn(src, masked, name, within=(b, be))
            start = s0
            orig = src[s0:e0]
            txt = re.sub(r"(pub\s+)?\bfn\s+%s\b" % re.escape(name), "pub fn " + it["as"], orig, count=1)
            txt = "\n".join(l[4:] if l.startswith("    ") else l for l in txt.split("\n"))
            log.append("R8 trait-impl method `%s` lifted to free fn `%s` (body verbatim)" % (name, it["as"]))
            new = contract_fn(txt, it, log, what)
            functions.append((it["as"], it["file"], bool(it.get("contract")), bool(it.get("external_body"))))
        elif kind == "derived":
            # R13: a nom-derive generated `parse_be` taken from the MACRO-EXPANDED crate source (cargo +nightly rustc
            # -Zunpretty=expanded, regenerated on every run), lifted to a free fn `parse_be_<T>`; fully qualified nom paths
            # are shortened to the shim's names, `<X>::parse_be(i)` becomes `parse_be_X(i)`, 'nom is merged into 'a, and an
            # immediately applied closure `({ |i| e })(i)` is beta-reduced to `e` (R14).
            T = name
            rx = re.compile(r"^[ \t]*impl<[^>]*>\s*(?:nom_derive::Parse<[^{]*?>\s*for\s*)?%s(<'a>)?\s*(?:where[^{]*)?\{" % re.escape(T), re.M)
            hm = None
            for cand in rx.finditer(masked):
                b0 = masked.index("{", cand.end() - 1)
                e0 = match_close(masked, b0)
                if re.search(r"\bfn\s+parse_be\b", masked[b0:e0]):
                    hm = (cand, b0, e0)
                    break
            if not hm:
                raise AnchorLost("derived parser impl for %s not found in the expanded source" % T)
            cand, b0, e0 = hm
            lt = "<'a>" if cand.group(1) else ""
            s0, kw, pe, bb, e1 = slice_fn(src, masked, "parse_be", within=(b0, e0))
            start = s0
            orig = src[s0:e1]
            body = src[bb:e1]
            sig = src[kw:bb]
            selector = re.search(r"selector:\s*(\w+)", sig)
            # `T::parse` must be the generated delegation to `parse_be` (call sites of `T::parse` in hand-written code are
            # rewritten to `parse_be_T` on the strength of this)
            try:
                _p0, _pk, _pp, pbb, pe1 = slice_fn(src, masked, "parse", within=(b0, e0))
                pbody = re.sub(r"\s+", "", src[pbb:pe1])
            except AnchorLost:
                pbody = ""
            if pbody not in ("{Self::parse_be(orig_i)}", "{Self::parse_be(orig_i,selector)}"):
                raise AnchorLost("`%s::parse` is not the generated delegation to parse_be: %r" % (T, pbody[:80]))
            txt = body
            txt = re.sub(r"\(\{\s*\|i\|\s*(.*?)\s*\}\)\(i\)\?", r"\1?", txt, flags=re.S)                 # R14
            txt = re.sub(r"<(\w+)(?:<'a>)?>::parse_be\(", r"parse_be_\1(", txt)
            txt = re.sub(r"\b(\w+)::parse\(i,\s*(\w+)\)", r"parse_be_\1(i, \2)", txt)
            txt = txt.replace("::nom::error::make_error", "make_error").replace("nom::error::ErrorKind::", "ErrorKind::").replace("nom::Err::", "Err::")
            new_sig = "pub fn parse_be_%s<'a>(orig_i: &'a [u8]%s) -> IResult<&'a [u8], %s%s>\n" % (
                T, (", selector: %s" % selector.group(1)) if selector else "", T, lt)
            log.append("R13 derived parse_be of %s lifted from the macro expansion; R14 where an applied closure was reduced" % T)
            new = contract_fn(new_sig + txt, it, log, what)
            new = "\n".join(l[8:] if l.startswith("        ") else l for l in new.split("\n"))
            functions.append(("parse_be_" + T, it["file"], bool(it.get("contract")), bool(it.get("external_body"))))
            if it.get("with_parse"):
                # the generated `fn parse(orig_i) { Self::parse_be(orig_i) }` (checked above), kept as an inherent method
                # so that hand-written call sites `T::parse(i)` stay verbatim
                if selector or lt:
                    raise AnchorLost("with_parse supports plain (selector-free, lifetime-free) types only: " + T)
                new += ("\n\nimpl %s {\n    pub fn parse<'a>(orig_i: &'a [u8]) -> (r: IResult<&'a [u8], %s>)\n    %s\n    {\n        %sparse_be_%s(orig_i)\n    }\n}"
                        % (T, T, it["contract"].strip(), "proof { assert(false); } " if CANARY else "", T))
                log.append("R13 generated `%s::parse` (delegation to parse_be) kept as an inherent method" % T)
                functions.append((T + "::parse", it["file"], True, False))
        elif kind == "newtype_enum":
            start, end, consts = slice_newtype_enum(src, masked, name)
            orig = src[start:end]
            lines = ["impl %s {" % name]
            for cn, cv in consts:
                lines.append("    pub const %s: %s = %s(%s);" % (cn, name, name, cv))
            lines.append("}")
            new = "\n".join(lines)
            log.append("R5 newtype_enum! expanded to %d associated consts (Display/Debug impl dropped)" % len(consts))
        else:
            raise AnchorLost("unknown kind " + kind)
        lineno = src.count("\n", 0, start) + 1
        parts.append(("%s:%d %s %s" % (it["file"], lineno, kind, name), new))
        d = list(difflib.unified_diff(orig.split("\n"), new.split("\n"), "repo:" + what, "verus:" + what, lineterm="", n=0))
        diffs.append({"item": what, "line": lineno, "rules": log, "diff": d[:400]})

    if unit.get("epilogue"):
        parts.append(("epilogue", unit["epilogue"]))

    out_lines = ["// GENERATED by /verif/verus/extract.py from /repo/src on every run. Do not edit.",
                 "#![allow(unused_imports, dead_code, unused_variables, non_snake_case, non_camel_case_types, non_upper_case_globals, unused_parens, unused_mut, unreachable_patterns)]",
                 "use vstd::prelude::*;", "verus! {", ""]
    linemap = []
    for origin, text in parts:
        first = len(out_lines) + 1
        out_lines.append("// ---- " + origin)
        out_lines.extend(text.split("\n"))
        out_lines.append("")
        linemap.append({"origin": origin, "first": first, "last": len(out_lines)})
    out_lines.append("} // verus!")
    out_lines.append("fn main() {}")
    return "\n".join(out_lines) + "\n", linemap, diffs, functions


def main():
    import argparse
    ap = argparse.ArgumentParser()
    ap.add_argument("unit")
    ap.add_argument("--repo", default="/repo")
    ap.add_argument("--out", required=True)
    ap.add_argument("--meta", required=True)
    ap.add_argument("--canary", action="store_true")
    a = ap.parse_args()
    global CANARY
    CANARY = a.canary
    verus_dir = os.path.dirname(os.path.abspath(__file__))
    try:
        unit = load_unit(a.unit)
        text, linemap, diffs, functions = extract(unit, a.repo, verus_dir)
    except AnchorLost as e:
        sys.stderr.write("anchor lost: %s\n" % e)
        sys.exit(2)
    os.makedirs(os.path.dirname(os.path.abspath(a.out)), exist_ok=True)
    open(a.out, "w").write(text)
    json.dump({"unit": unit["name"], "linemap": linemap, "diffs": diffs,
               "functions": [{"name": n, "file": f, "contract": c, "external_body": e} for n, f, c, e in functions]},
              open(a.meta, "w"), indent=1)


if __name__ == "__main__":
    main()
