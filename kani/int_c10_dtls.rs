// C10 — crate-private DTLS body parsers (through the cfg(kani) accessors).
use super::src::Src;
use super::tp;
use super::util::*;
use super::pub_c05_ext::inp;
use alloc::vec::Vec;
use crate::dtls::verif_access as da;
use tp::nom::error::ErrorKind;
use tp::nom::{Err, IResult};
use tp::*;

pub fn h_dtls_hvr<S: Src>(s: &mut S) {
    let (buf, n) = inp::<S, 8>(s);
    let i = &buf[..n];
    let r = da::dtls_hello_verify_request(i);
    if n < 3 || n - 3 < i[2] as usize { vassert!(s, r.is_err(), "hello_verify_request: truncated => no value"); return; }
    let l = i[2] as usize;
    vassert!(s, matches!(&r, Ok((rem, DTLSMessageHandshakeBody::HelloVerifyRequest(h))) if h.server_version.0 == be16(i, 0) && is_sub(i, h.cookie, 3, l) && is_suffix(i, rem, 3 + l)),
             "hello_verify_request: version (any value) and u8-prefixed cookie verbatim, exact consumption");
}
pub fn h_dtls_fragment<S: Src>(s: &mut S) {
    let (buf, n) = inp::<S, 6>(s);
    let i = &buf[..n];
    let r = da::dtls_fragment(i);
    vassert!(s, matches!(&r, Ok((rem, DTLSMessageHandshakeBody::Fragment(d))) if rem.is_empty() && is_sub(i, d, 0, n)), "dtls fragment: the whole input as one opaque fragment, zero-copy");
}

use super::int_c04_private::{h_client_hello_mod, stub_cipher_suites, stub_compressions};
harness!(leaf_dtls_hvr, unwind = 4, h_dtls_hvr);
harness!(leaf_dtls_fragment, unwind = 3, h_dtls_fragment);
harness!(mod_dtls_client_hello, unwind = 4,
    stubs = [crate::tls_handshake::parse_cipher_suites => stub_cipher_suites, crate::tls_handshake::parse_compressions_algs => stub_compressions],
    h_client_hello_mod::<_, 80, true>);
