// C10 — DTLS record header (full domain) and message-level leaf parsers (RFC 6347 4.1, 4.2).
use super::src::Src;
use super::tp;
use super::util::*;
use super::pub_c05_ext::inp;
use alloc::vec::Vec;
use tp::nom::error::ErrorKind;
use tp::nom::{Err, IResult};
use tp::*;

pub fn h_dtls_header<S: Src>(s: &mut S) {
    let (buf, n) = inp::<S, 16>(s);
    let i = &buf[..n];
    let r = parse_dtls_record_header(i);
    if n < 13 { vassert!(s, is_incomplete(&r), "dtls header: fewer than 13 bytes => Incomplete"); return; }
    match &r {
        Ok((rem, h)) => {
            vassert!(s, h.content_type.0 == i[0] && h.version.0 == be16(i, 1), "dtls header: type and version verbatim (any value)");
            vassert!(s, h.epoch == be16(i, 3), "dtls header: epoch == bytes 3..5");
            vassert!(s, h.sequence_number == (be64(i, 3) & 0x0000_ffff_ffff_ffff) && h.sequence_number == (((be16(i, 5) as u64) << 32) | be32(i, 7) as u64), "dtls header: 48-bit sequence number == bytes 5..11");
            vassert!(s, h.length == be16(i, 11), "dtls header: length == bytes 11..13");
            vassert!(s, is_suffix(i, rem, 13), "dtls header: consumes exactly 13 bytes");
        }
        Err(_) => vassert!(s, false, "dtls header: 13 bytes => Ok"),
    }
}

pub fn h_dtls_ccs_alert<S: Src>(s: &mut S) {
    let (buf, n) = inp::<S, 4>(s);
    let i = &buf[..n];
    let r = parse_dtls_message_changecipherspec(i);
    if n == 0 { vassert!(s, is_incomplete(&r), "dtls ccs: empty => Incomplete"); }
    else if i[0] == 1 { vassert!(s, matches!(&r, Ok((rem, DTLSMessage::ChangeCipherSpec)) if is_suffix(i, rem, 1)), "dtls ccs: 0x01 => Ok, consumes 1"); }
    else { vassert!(s, class_of(&r) == Class::Error, "dtls ccs: any other byte rejected"); }
    let r = parse_dtls_message_alert(i);
    if n < 2 { vassert!(s, is_incomplete(&r), "dtls alert: fewer than 2 bytes => Incomplete"); }
    else { vassert!(s, matches!(&r, Ok((rem, DTLSMessage::Alert(a))) if a.severity.0 == i[0] && a.code.0 == i[1] && is_suffix(i, rem, 2)), "dtls alert: (level, description) verbatim (any value), consumes 2"); }
}

pub fn h_dtls_is_fragment<S: Src>(s: &mut S) {
    let k = s.u8();
    let d: [u8; 2] = s.bytes();
    let body = if k == 0 { DTLSMessageHandshakeBody::Fragment(&d) } else if k == 1 { DTLSMessageHandshakeBody::ServerDone(&d) } else { DTLSMessageHandshakeBody::HelloRequest };
    let m = DTLSMessage::Handshake(DTLSMessageHandshake { msg_type: TlsHandshakeType(s.u8()), length: s.u32(), message_seq: s.u16(), fragment_offset: s.u32(), fragment_length: s.u32(), body });
    vassert!(s, m.is_fragment() == (k == 0), "is_fragment(): true exactly for a Fragment body");
    vassert!(s, !DTLSMessage::ChangeCipherSpec.is_fragment(), "is_fragment(): false for non-handshake messages");
}

harness!(fd_dtls_header, unwind = 10, h_dtls_header);
harness!(fd_dtls_ccs_alert, unwind = 3, h_dtls_ccs_alert);
harness!(fd_dtls_is_fragment, unwind = 3, h_dtls_is_fragment);
