// C07 — paired harness on the real compiled TlsRecordsParser (heartbeat records, tiny payloads):
// two-call histories against the accumulate-then-parse contract. Cross-checks the Verus extract and
// gives replayable witnesses (e.g. the debug_assert on an empty first fragment).
use super::src::Src;
use super::tp;
use super::util::*;
use alloc::vec::Vec;
use tp::nom::error::ErrorKind;
use tp::nom::{Err, Needed};
use tp::*;

fn rec<'a>(ty: u8, ver: u16, data: &'a [u8]) -> TlsRawRecord<'a> {
    TlsRawRecord { hdr: TlsRecordHeader { record_type: TlsRecordType(ty), version: TlsVersion(ver), len: data.len() as u16 }, data }
}

pub fn h_defrag_default<S: Src>(s: &mut S) {
    let p = TlsRecordsParser::default();
    vassert!(s, !p.defrag_in_progress(), "defrag: a fresh parser is idle");
    let mut p = p;
    p.reset();
    vassert!(s, !p.defrag_in_progress(), "defrag: reset() leaves the parser idle");
}

/// two heartbeat fragments (<= N bytes each) fed to one parser
pub fn h_defrag_two<S: Src, const N: usize>(s: &mut S) {
    let b1: [u8; N] = s.bytes();
    let n1 = s.usize();
    vassume!(s, n1 <= N);
    let b2: [u8; N] = s.bytes();
    let n2 = s.usize();
    vassume!(s, n2 <= N);
    let ver = s.u16();
    let d1 = &b1[..n1];
    let d2 = &b2[..n2];
    // what the one-shot parser says about the first fragment alone
    let hdr1 = rec(0x18, ver, d1).hdr;
    let one1 = parse_tls_record_with_header(d1, &hdr1);
    let frag1 = match &one1 {
        Err(Err::Incomplete(_)) => true,
        Err(Err::Error(e)) | Err(Err::Failure(e)) => e.code == ErrorKind::Complete,
        _ => false,
    };
    let mut p = TlsRecordsParser::default();
    {
        let r1 = p.parse_record(rec(0x18, ver, d1));
        if frag1 {
            vassert!(s, matches!(r1, Err(Err::Incomplete(_))), "defrag: a first fragment answers Incomplete");
        } else {
            vassert!(s, r1 == one1, "defrag: a record that parses (or fails) on its own is answered as by the one-shot parser");
        }
    }
    vassert!(s, p.defrag_in_progress() == frag1, "defrag: in progress exactly after a first fragment");
    vcover!(s, frag1 && n1 == 0, "empty first fragment reached");
    vcover!(s, frag1 && n1 > 0, "non-empty first fragment reached");
    if !frag1 { return; }
    // a foreign content type is refused with Tag and leaves the state unchanged
    {
        let rt = p.parse_record(rec(0x16, ver, d2));
        vassert!(s, matches!(rt, Err(Err::Error(ref e)) if e.code == ErrorKind::Tag), "defrag: other content type refused with Tag while in progress");
    }
    vassert!(s, p.defrag_in_progress(), "defrag: Tag refusal leaves defragmentation in progress");
    {
        let rn = p.parse_record_nocopy(rec(0x18, ver, d2));
        vassert!(s, matches!(rn, Err(Err::Failure(ref e)) if e.code == ErrorKind::NonEmpty), "defrag: nocopy refused with Failure(NonEmpty) while in progress");
    }
    // the glued payload, parsed in one shot under the pseudo header
    let mut glued = [0u8; 16];
    let mut k = 0;
    while k < n1 { glued[k] = d1[k]; k += 1; }
    let mut j = 0;
    while j < n2 { glued[n1 + j] = d2[j]; j += 1; }
    let g = &glued[..n1 + n2];
    let hdr2 = TlsRecordHeader { record_type: TlsRecordType(0x18), version: TlsVersion(ver), len: (n1 + n2) as u16 };
    let one2 = parse_tls_record_with_header(g, &hdr2);
    let r2 = p.parse_record(rec(0x18, ver, d2));
    match (&one2, &r2) {
        (Ok((rem1, m1)), Ok((rem2, m2))) => {
            vcover!(s, true, "completed by the second fragment reached");
            vassert!(s, rem1.len() == rem2.len() && m1 == m2, "defrag: last fragment returns exactly what parsing the unsplit payload returns");
        }
        (Ok(_), _) => vassert!(s, false, "defrag: unsplit payload parses => the completing call returns Ok"),
        (Err(Err::Incomplete(_)), r) => vassert!(s, matches!(r, Err(Err::Incomplete(_))), "defrag: still incomplete => Incomplete"),
        (Err(Err::Error(e)), r) | (Err(Err::Failure(e)), r) => {
            if e.code == ErrorKind::Complete {
                vassert!(s, matches!(r, Err(Err::Incomplete(_))), "defrag: Complete error on the glued payload => Incomplete");
            } else {
                vassert!(s, matches!(r, Err(Err::Error(_)) | Err(Err::Failure(_))), "defrag: other errors are passed through");
            }
        }
    }
}

harness!(fd_defrag_default, unwind = 2, h_defrag_default);
// measured: even with 1-byte fragments CBMC does not finish in 400 s (Vec<TlsMessage> + drop glue), so the
// two-call body is kept for the replay crate (concrete inputs) but is not a Kani harness.
