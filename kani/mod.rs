// Included into the crate by the one cfg(kani) hook line in /repo/src/lib.rs.
#![allow(unused_qualifications, dead_code, unused_imports, unused_macros, unused_variables)]
#![allow(clippy::all)]

pub(crate) use crate as tp;

#[macro_use]
#[path = "src.rs"]
pub mod src;

#[path = "util.rs"]
pub mod util;

#[path = "pub_c02_framing.rs"]
pub mod pub_c02_framing;

#[path = "pub_c08_states.rs"]
pub mod pub_c08_states;

#[path = "pub_c07_defrag.rs"]
pub mod pub_c07_defrag;

#[path = "pub_c03_record.rs"]
pub mod pub_c03_record;

#[path = "pub_c03_messages.rs"]
pub mod pub_c03_messages;

#[path = "pub_c04_handshake.rs"]
pub mod pub_c04_handshake;

#[path = "int_c04_private.rs"]
pub mod int_c04_private;

#[path = "pub_shim_nom.rs"]
pub mod pub_shim_nom;

#[path = "pub_shim_std.rs"]
pub mod pub_shim_std;

#[path = "pub_c05_ext.rs"]
pub mod pub_c05_ext;

#[path = "int_c05_ext.rs"]
pub mod int_c05_ext;

#[path = "pub_c10_dtls.rs"]
pub mod pub_c10_dtls;

#[path = "int_c10_dtls.rs"]
pub mod int_c10_dtls;

#[path = "pub_c13_kx.rs"]
pub mod pub_c13_kx;

#[path = "pub_c14_sct.rs"]
pub mod pub_c14_sct;

#[path = "pub_c17_consts.rs"]
pub mod pub_c17_consts;

#[path = "pub_c17_registry.rs"]
pub mod pub_c17_registry;

#[path = "pub_c15_accessors.rs"]
pub mod pub_c15_accessors;

#[path = "pub_c12_rows.rs"]
pub mod pub_c12_rows;

#[path = "pub_c12_ciphers.rs"]
pub mod pub_c12_ciphers;

#[cfg(feature = "serialize")]
#[path = "ser_c09.rs"]
pub mod ser_c09;

#[path = "pub_c06_local.rs"]
pub mod pub_c06_local;

#[path = "int_c15_ciphers.rs"]
pub mod int_c15_ciphers;
