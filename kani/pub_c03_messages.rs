// C03 / C11 / C02 — per-message leaf parsers: CCS, alert, application data, heartbeat.
// Contracts from the property text and RFC 5246 6.2 / RFC 6520.
use super::src::Src;
use super::tp;
use super::util::*;
use alloc::vec::Vec;
use tp::nom::error::ErrorKind;
use tp::nom::{Err, IResult};
use tp::*;

pub fn h_msg_ccs<S: Src>(s: &mut S) {
    let buf: [u8; 3] = s.bytes();
    let n = s.usize();
    vassume!(s, n <= 3);
    let i = &buf[..n];
    let r = parse_tls_message_changecipherspec(i);
    if n == 0 {
        vassert!(s, is_incomplete(&r), "ccs: empty input => Incomplete");
    } else if i[0] == 1 {
        match &r {
            Ok((rem, TlsMessage::ChangeCipherSpec)) => vassert!(s, is_suffix(i, rem, 1), "ccs: consumes exactly the 0x01 byte"),
            _ => vassert!(s, false, "ccs: byte 0x01 => Ok(ChangeCipherSpec)"),
        }
    } else {
        vassert!(s, class_of(&r) == Class::Error, "ccs: any other byte is rejected with an error");
    }
}

pub fn h_msg_alert<S: Src>(s: &mut S) {
    let buf: [u8; 4] = s.bytes();
    let n = s.usize();
    vassume!(s, n <= 4);
    let i = &buf[..n];
    let r = parse_tls_message_alert(i);
    if n < 2 {
        vassert!(s, is_incomplete(&r), "alert: fewer than 2 bytes => Incomplete");
    } else {
        match &r {
            Ok((rem, TlsMessage::Alert(a))) => {
                // C11: every level / description value is accepted and returned unchanged
                vassert!(s, a.severity.0 == i[0], "alert: severity == byte 0 (any value)");
                vassert!(s, a.code.0 == i[1], "alert: description == byte 1 (any value)");
                vassert!(s, is_suffix(i, rem, 2), "alert: consumes exactly 2 bytes");
            }
            _ => vassert!(s, false, "alert: 2 bytes => Ok(Alert)"),
        }
    }
}

pub fn h_msg_appdata<S: Src>(s: &mut S) {
    let buf: [u8; 6] = s.bytes();
    let n = s.usize();
    vassume!(s, n <= 6);
    let i = &buf[..n];
    let r = parse_tls_message_applicationdata(i);
    match &r {
        Ok((rem, TlsMessage::ApplicationData(d))) => {
            vassert!(s, rem.is_empty(), "appdata: consumes the whole input");
            vassert!(s, is_sub(i, d.blob, 0, n), "appdata: blob is exactly the input, zero-copy");
        }
        _ => vassert!(s, false, "appdata: every input (also empty) => Ok(ApplicationData)"),
    }
}

/// heartbeat message parser with the record length it is given (full domain)
pub fn h_msg_heartbeat<S: Src, const N: usize>(s: &mut S) {
    let buf: [u8; N] = s.bytes();
    let n = s.usize();
    vassume!(s, n <= N);
    let rec_len = s.u16();
    let i = &buf[..n];
    let r = parse_tls_message_heartbeat(i, rec_len);
    if n < 3 {
        vassert!(s, r.is_err(), "heartbeat: fewer than 3 bytes never yields a value");
        return;
    }
    let plen = be16(i, 1) as usize;
    if rec_len < 3 {
        vassert!(s, class_of(&r) == Class::Error, "heartbeat: record shorter than the 3-byte header is rejected");
        return;
    }
    if n < 3 + plen {
        vcover!(s, true, "heartbeat payload_len beyond the data reached");
        vassert!(s, r.is_err(), "heartbeat: payload_len beyond the data never yields a value");
        return;
    }
    vcover!(s, n > 3 + plen, "heartbeat with padding reached");
    vcover!(s, plen == 0, "heartbeat with empty payload reached");
    match &r {
        Ok((rem, v)) => {
            vassert!(s, v.len() == 1, "heartbeat: exactly one message");
            match &v[0] {
                TlsMessage::Heartbeat(h) => {
                    vassert!(s, h.heartbeat_type.0 == i[0], "heartbeat: type == byte 0 (any value)");
                    vassert!(s, h.payload_len as usize == plen, "heartbeat: payload_len == be16(bytes 1..3)");
                    vassert!(s, is_sub(i, h.payload, 3, plen), "heartbeat: payload is i[3..3+payload_len], zero-copy");
                    vassert!(s, is_suffix(i, rem, 3 + plen), "heartbeat: padding is left as remainder");
                }
                _ => vassert!(s, false, "heartbeat: message kind"),
            }
        }
        Err(_) => vassert!(s, false, "heartbeat: well-formed message => Ok"),
    }
}

/// C02: "a whole record never answers Incomplete" on the heartbeat arm of the record-payload parser;
/// C03: unknown content types are rejected. Content type CONCRETE per instantiation so CBMC prunes.
pub fn h_prwh_heartbeat<S: Src, const N: usize>(s: &mut S) {
    let buf: [u8; N] = s.bytes();
    let n = s.usize();
    vassume!(s, n <= N);
    let ver = s.u16();
    let i = &buf[..n];
    let hdr = TlsRecordHeader { record_type: TlsRecordType(0x18), version: TlsVersion(ver), len: n as u16 };
    let r = parse_tls_record_with_header(i, &hdr);
    vcover!(s, n == 0, "empty heartbeat record reached");
    vcover!(s, n >= 3 && (be16(i, 1) as usize) > n - 3, "heartbeat record with oversized payload_len reached");
    vassert!(s, !is_incomplete(&r), "record payload: a whole heartbeat record never answers Incomplete");
    if n >= 3 && (be16(i, 1) as usize) <= n - 3 {
        match &r {
            Ok((rem, v)) => {
                vassert!(s, v.len() == 1, "record payload: heartbeat record yields one message");
                vassert!(s, is_suffix(i, rem, 3 + be16(i, 1) as usize), "record payload: heartbeat padding is the remainder");
            }
            Err(_) => vassert!(s, false, "record payload: well-formed heartbeat record => Ok"),
        }
    } else {
        vassert!(s, r.is_err(), "record payload: malformed heartbeat record is rejected");
    }
}

/// application-data arm of the record-payload parser (concrete content type 0x17)
pub fn h_prwh_appdata<S: Src, const N: usize>(s: &mut S) {
    let buf: [u8; N] = s.bytes();
    let n = s.usize();
    vassume!(s, n <= N);
    let ver = s.u16();
    let i = &buf[..n];
    let hdr = TlsRecordHeader { record_type: TlsRecordType(0x17), version: TlsVersion(ver), len: n as u16 };
    let r = parse_tls_record_with_header(i, &hdr);
    vcover!(s, n == 0, "empty application-data record reached");
    vcover!(s, n > 0, "non-empty application-data record reached");
    match &r {
        Ok((rem, v)) => {
            vassert!(s, rem.is_empty(), "record payload: application data consumes the whole payload");
            vassert!(s, v.len() == 1, "record payload: one opaque application-data blob");
            match &v[0] {
                TlsMessage::ApplicationData(d) => vassert!(s, is_sub(i, d.blob, 0, n), "record payload: application-data blob is the payload, zero-copy"),
                _ => vassert!(s, false, "record payload: application-data record yields application data"),
            }
        }
        Err(_) => vassert!(s, false, "record payload: an application-data record of any length decodes to one blob"),
    }
}

harness!(leaf_prwh_appdata, unwind = 4, h_prwh_appdata::<_, 3>);
harness!(fd_msg_ccs, unwind = 3, h_msg_ccs);
harness!(fd_msg_alert, unwind = 3, h_msg_alert);
harness!(leaf_msg_appdata, unwind = 3, h_msg_appdata);
harness!(leaf_msg_heartbeat, unwind = 4, h_msg_heartbeat::<_, 8>);
harness!(leaf_prwh_heartbeat, unwind = 4, h_prwh_heartbeat::<_, 6>);
