// C15 — ClientHello trait accessors, constructors, getters (TLS and DTLS).
use super::src::Src;
use super::tp;
use super::util::*;
use alloc::vec::Vec;
use tp::*;

pub fn h_accessors<S: Src, const DTLS: bool>(s: &mut S) {
    let rbuf: [u8; 36] = s.bytes();
    let rn = s.usize();
    vassume!(s, rn <= 36);
    let random = &rbuf[..rn];
    let sbuf: [u8; 3] = s.bytes();
    let has_sid = s.bool();
    let has_ext = s.bool();
    let v = s.u16();
    let c0 = s.u16();
    let c1 = s.u16();
    let k0 = s.u8();
    let nc = s.u8();
    vassume!(s, nc <= 2);
    let mut ciphers = Vec::new();
    if nc >= 1 { ciphers.push(TlsCipherSuiteID(c0)); }
    if nc >= 2 { ciphers.push(TlsCipherSuiteID(c1)); }
    let mut comp = Vec::new();
    comp.push(TlsCompressionID(k0));
    let sid: Option<&[u8]> = if has_sid { Some(&sbuf[..]) } else { None };
    let ext: Option<&[u8]> = if has_ext { Some(&sbuf[1..]) } else { None };
    let tls;
    let dtls;
    let ch: &dyn ClientHello = if DTLS {
        dtls = DTLSClientHello { version: TlsVersion(v), random, session_id: sid, cookie: &sbuf[..1], ciphers, comp, ext };
        &dtls
    } else {
        tls = TlsClientHelloContents::new(v, random, sid, ciphers, comp, ext);
        vassert!(s, tls.get_version().0 == v, "get_version() returns the stored version");
        &tls
    };
    vassert!(s, ch.version().0 == v, "version() is the structure's own version");
    vassert!(s, ch.random().as_ptr() == random.as_ptr() && ch.random().len() == rn, "random() is the structure's own random slice");
    vassert!(s, match (ch.session_id(), sid) { (None, None) => true, (Some(a), Some(b)) => a.as_ptr() == b.as_ptr() && a.len() == b.len(), _ => false }, "session_id() is the structure's own session id");
    vassert!(s, match (ch.ext(), ext) { (None, None) => true, (Some(a), Some(b)) => a.as_ptr() == b.as_ptr() && a.len() == b.len(), _ => false }, "ext() is the structure's own extension block");
    vassert!(s, ch.ciphers().len() == nc as usize && (nc < 1 || ch.ciphers()[0].0 == c0) && (nc < 2 || ch.ciphers()[1].0 == c1), "ciphers() is the structure's own cipher list, in order");
    vassert!(s, ch.comp().len() == 1 && ch.comp()[0].0 == k0, "comp() is the structure's own compression list");
    if rn >= 4 {
        vcover!(s, rn == 32, "32-byte random reached");
        vassert!(s, ch.rand_time() == be32(random, 0), "rand_time() is the big-endian u32 formed by the first four random bytes");
        vassert!(s, ch.rand_bytes().as_ptr() == random[4..].as_ptr() && ch.rand_bytes().len() == rn - 4, "rand_bytes() is the rest of the random after the first four bytes");
    }
}

pub fn h_server_hello_ctor<S: Src>(s: &mut S) {
    let rbuf: [u8; 32] = s.bytes();
    let v = s.u16();
    let c = s.u16();
    let k = s.u8();
    let sh = TlsServerHelloContents::new(v, &rbuf, None, c, k, Some(&rbuf[..2]));
    vassert!(s, sh.get_version().0 == v && sh.version.0 == v && sh.cipher.0 == c && sh.compression.0 == k, "TlsServerHelloContents::new / get_version store and return their arguments unchanged");
    vassert!(s, sh.random.as_ptr() == rbuf.as_ptr() && sh.session_id.is_none() && matches!(sh.ext, Some(e) if e.len() == 2), "TlsServerHelloContents::new stores the slices it is given");
}

harness!(leaf_ch_accessors_tls, unwind = 6, h_accessors::<_, false>);
harness!(leaf_ch_accessors_dtls, unwind = 6, h_accessors::<_, true>);
harness!(fd_server_hello_ctor, unwind = 3, h_server_hello_ctor);
