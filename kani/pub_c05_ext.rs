// C05 / C11 / C06 — extension content parsers (public ones) and the 16 tag-specific parsers.
// Reference grammar: RFC 6066, 8422, 7301, 6962, 8446 4.2, 5746, 7685, 8449, draft-ietf-tls-esni.
use super::src::Src;
use super::tp;
use super::util::*;
use alloc::vec::Vec;
use tp::nom::error::ErrorKind;
use tp::nom::{Err, IResult};
use tp::*;

pub fn inp<S: Src, const N: usize>(s: &mut S) -> ([u8; N], usize) {
    let buf: [u8; N] = s.bytes();
    let n = s.usize();
    vassume!(s, n <= N);
    (buf, n)
}

// ---------------------------------------------------------------- single-integer contents
pub fn h_ext_max_fragment_length<S: Src>(s: &mut S) {
    let (buf, n) = inp::<S, 3>(s);
    let i = &buf[..n];
    let r = parse_tls_extension_max_fragment_length_content(i);
    if n < 1 { vassert!(s, is_incomplete(&r), "max_fragment_length: empty => no value"); return; }
    vassert!(s, matches!(&r, Ok((rem, TlsExtension::MaxFragmentLength(v))) if *v == i[0] && is_suffix(i, rem, 1)), "max_fragment_length: value == byte 0 (any value), variant MaxFragmentLength");
}
pub fn h_ext_heartbeat<S: Src>(s: &mut S) {
    let (buf, n) = inp::<S, 3>(s);
    let i = &buf[..n];
    let r = parse_tls_extension_heartbeat_content(i);
    if n < 1 { vassert!(s, is_incomplete(&r), "heartbeat ext: empty => no value"); return; }
    vassert!(s, matches!(&r, Ok((rem, TlsExtension::Heartbeat(v))) if *v == i[0] && is_suffix(i, rem, 1)), "heartbeat ext: mode == byte 0 (any value), variant Heartbeat");
}

// ---------------------------------------------------------------- u8 / u16 length-prefixed opaque contents
pub fn h_ext_ec_point_formats<S: Src>(s: &mut S) {
    let (buf, n) = inp::<S, 6>(s);
    let i = &buf[..n];
    let r = parse_tls_extension_ec_point_formats_content(i);
    if n < 1 || n - 1 < i[0] as usize { vassert!(s, r.is_err(), "ec_point_formats: list longer than the data => no value"); return; }
    let l = i[0] as usize;
    vassert!(s, matches!(&r, Ok((rem, TlsExtension::EcPointFormats(d))) if is_sub(i, d, 1, l) && is_suffix(i, rem, 1 + l)), "ec_point_formats: u8-prefixed format list verbatim (any values)");
}
pub fn h_ext_renegotiation_info<S: Src>(s: &mut S) {
    let (buf, n) = inp::<S, 6>(s);
    let i = &buf[..n];
    let r = parse_tls_extension_renegotiation_info_content(i);
    if n < 1 || n - 1 < i[0] as usize { vassert!(s, r.is_err(), "renegotiation_info: data longer than the extension => no value"); return; }
    let l = i[0] as usize;
    vassert!(s, matches!(&r, Ok((rem, TlsExtension::RenegotiationInfo(d))) if is_sub(i, d, 1, l) && is_suffix(i, rem, 1 + l)), "renegotiation_info: u8-prefixed data verbatim");
}
pub fn h_ext_psk_modes<S: Src>(s: &mut S) {
    let (buf, n) = inp::<S, 6>(s);
    let i = &buf[..n];
    let r = parse_tls_extension_psk_key_exchange_modes_content(i);
    if n < 1 || n - 1 < i[0] as usize { vassert!(s, r.is_err(), "psk_key_exchange_modes: list longer than the data => no value"); return; }
    let l = i[0] as usize;
    match &r {
        Ok((rem, TlsExtension::PskExchangeModes(v))) => {
            vassert!(s, v.len() == l && is_suffix(i, rem, 1 + l), "psk_key_exchange_modes: one mode per byte");
            let mut k = 0;
            while k < v.len() { vassert!(s, v[k] == i[1 + k], "psk_key_exchange_modes: k-th mode exact (any value)"); k += 1; }
        }
        _ => vassert!(s, false, "psk_key_exchange_modes: well-formed => Ok(PskExchangeModes)"),
    }
}
pub fn h_ext_sct<S: Src>(s: &mut S) {
    let (buf, n) = inp::<S, 6>(s);
    let i = &buf[..n];
    let r = parse_tls_extension_signed_certificate_timestamp_content(i);
    let (want, used) = super::pub_c04_handshake::ref_opt_ext(i, 0);
    vcover!(s, want.is_some(), "SCT extension with list reached");
    vcover!(s, want.is_none(), "empty SCT extension reached");
    vassert!(s, matches!(&r, Ok((rem, TlsExtension::SignedCertificateTimestamp(d))) if super::pub_c04_handshake::ext_matches(i, *d, want) && is_suffix(i, rem, used)),
             "signed_certificate_timestamp: optional u16-prefixed list verbatim");
}
pub fn h_ext_unknown<S: Src>(s: &mut S) {
    let (buf, n) = inp::<S, 8>(s);
    let i = &buf[..n];
    let r = parse_tls_extension_unknown(i);
    if n < 4 || n - 4 < be16(i, 2) as usize { vassert!(s, r.is_err(), "unknown ext: length beyond the data => no value"); return; }
    let l = be16(i, 2) as usize;
    vassert!(s, matches!(&r, Ok((rem, TlsExtension::Unknown(t, d))) if t.0 == be16(i, 0) && is_sub(i, d, 4, l) && is_suffix(i, rem, 4 + l)), "unknown ext: (type, data) byte-for-byte for every type");
}

// ---------------------------------------------------------------- lists
pub fn h_ext_elliptic_curves<S: Src, const N: usize>(s: &mut S) {
    let (buf, n) = inp::<S, N>(s);
    let i = &buf[..n];
    let r = parse_tls_extension_elliptic_curves_content(i);
    if n < 2 || n - 2 < be16(i, 0) as usize { vassert!(s, r.is_err(), "supported_groups: list longer than the data => no value"); return; }
    let l = be16(i, 0) as usize;
    if l % 2 == 1 { vcover!(s, true, "odd group list reached"); vassert!(s, r.is_err(), "supported_groups: odd list length is rejected"); return; }
    match &r {
        Ok((rem, TlsExtension::EllipticCurves(v))) => {
            vassert!(s, v.len() == l / 2 && is_suffix(i, rem, 2 + l), "supported_groups: one group per 2 bytes, exact consumption");
            let mut k = 0;
            while k < v.len() { vassert!(s, v[k].0 == be16(i, 2 + 2 * k), "supported_groups: k-th named group exact, wire order (any value)"); k += 1; }
            vcover!(s, v.len() == 2, "two groups reached");
        }
        _ => vassert!(s, false, "supported_groups: well-formed => Ok(EllipticCurves)"),
    }
}
pub fn h_named_groups<S: Src, const N: usize>(s: &mut S) {
    let (buf, n) = inp::<S, N>(s);
    let i = &buf[..n];
    let r = parse_named_groups(i);
    if n % 2 == 1 { vassert!(s, class_of(&r) == Class::Error, "named groups: odd length is rejected"); return; }
    match &r {
        Ok((rem, v)) => {
            vassert!(s, v.len() == n / 2 && rem.is_empty(), "named groups: one group per 2 bytes, everything consumed");
            let mut k = 0;
            while k < v.len() { vassert!(s, v[k].0 == be16(i, 2 * k), "named groups: k-th group exact (any value)"); k += 1; }
        }
        Err(_) => vassert!(s, false, "named groups: even length => Ok"),
    }
}
pub fn h_ext_signature_algorithms<S: Src, const N: usize>(s: &mut S) {
    let (buf, n) = inp::<S, N>(s);
    let i = &buf[..n];
    let r = parse_tls_extension_signature_algorithms_content(i);
    if n < 2 || n - 2 < be16(i, 0) as usize { vassert!(s, r.is_err(), "signature_algorithms: list longer than the data => no value"); return; }
    let l = be16(i, 0) as usize;
    match &r {
        Ok((rem, TlsExtension::SignatureAlgorithms(v))) => {
            vassert!(s, v.len() == l / 2 && is_suffix(i, rem, 2 + l), "signature_algorithms: one scheme per 2 bytes, exact consumption");
            let mut k = 0;
            while k < v.len() { vassert!(s, v[k] == be16(i, 2 + 2 * k), "signature_algorithms: k-th scheme exact, wire order (any value)"); k += 1; }
        }
        _ => vassert!(s, false, "signature_algorithms: well-formed => Ok(SignatureAlgorithms)"),
    }
}
pub fn h_ext_alpn<S: Src, const N: usize>(s: &mut S) {
    let (buf, n) = inp::<S, N>(s);
    let i = &buf[..n];
    let r = parse_tls_extension_alpn_content(i);
    if n < 2 || n - 2 < be16(i, 0) as usize { vassert!(s, r.is_err(), "alpn: list longer than the data => no value"); return; }
    let l = be16(i, 0) as usize;
    match &r {
        Ok((rem, TlsExtension::ALPN(v))) => {
            vassert!(s, is_suffix(i, rem, 2 + l), "alpn: exact consumption");
            let end = 2 + l;
            let mut o = 2;
            let mut k = 0;
            while o + 1 <= end && o + 1 + (i[o] as usize) <= end {
                let pl = i[o] as usize;
                vassert!(s, k < v.len() && is_sub(i, v[k], o + 1, pl), "alpn: k-th protocol name is the k-th u8-prefixed entry, verbatim, in order");
                o += 1 + pl;
                k += 1;
            }
            vassert!(s, k == v.len(), "alpn: no extra entries");
            vcover!(s, k == 2, "two protocol names reached");
        }
        _ => vassert!(s, false, "alpn: well-formed => Ok(ALPN)"),
    }
}
pub fn h_ext_sni<S: Src, const N: usize>(s: &mut S) {
    let (buf, n) = inp::<S, N>(s);
    let i = &buf[..n];
    let r = parse_tls_extension_sni_content(i);
    if n == 0 { vassert!(s, matches!(&r, Ok((rem, TlsExtension::SNI(v))) if v.is_empty() && rem.is_empty()), "sni: empty extension (server side) => empty list"); return; }
    if n < 2 || n - 2 < be16(i, 0) as usize { vassert!(s, r.is_err(), "sni: list longer than the data => no value"); return; }
    let l = be16(i, 0) as usize;
    match &r {
        Ok((rem, TlsExtension::SNI(v))) => {
            vassert!(s, is_suffix(i, rem, 2 + l), "sni: exact consumption");
            let end = 2 + l;
            let mut o = 2;
            let mut k = 0;
            while o + 3 <= end && o + 3 + (be16(i, o + 1) as usize) <= end {
                let nl = be16(i, o + 1) as usize;
                vassert!(s, k < v.len() && v[k].0 .0 == i[o] && is_sub(i, v[k].1, o + 3, nl), "sni: k-th entry (name type any value, name verbatim), in order");
                o += 3 + nl;
                k += 1;
            }
            vassert!(s, k == v.len(), "sni: no extra entries");
            vcover!(s, k == 1, "one server name reached");
        }
        _ => vassert!(s, false, "sni: well-formed => Ok(SNI)"),
    }
}
pub fn h_ext_esni<S: Src, const N: usize>(s: &mut S) {
    let (buf, n) = inp::<S, N>(s);
    let i = &buf[..n];
    let r = parse_tls_extension_encrypted_server_name(i);
    // reference walk: cipher(2) group(2) key_share<u16> record_digest<u16> encrypted_sni<u16>
    let mut ok = n >= 6;
    let mut o = 4;
    let mut f = [(0usize, 0usize); 3];
    let mut k = 0;
    while ok && k < 3 {
        if n < o + 2 || n - (o + 2) < be16(i, o) as usize { ok = false; } else { f[k] = (o + 2, be16(i, o) as usize); o += 2 + be16(i, o) as usize; k += 1; }
    }
    if !ok { vassert!(s, r.is_err(), "esni: truncated field => no value"); return; }
    match &r {
        Ok((rem, TlsExtension::EncryptedServerName { ciphersuite, group, key_share, record_digest, encrypted_sni })) => {
            vassert!(s, ciphersuite.0 == be16(i, 0) && group.0 == be16(i, 2), "esni: cipher suite and group exact (any value)");
            vassert!(s, is_sub(i, key_share, f[0].0, f[0].1) && is_sub(i, record_digest, f[1].0, f[1].1) && is_sub(i, encrypted_sni, f[2].0, f[2].1), "esni: three u16-prefixed fields verbatim");
            vassert!(s, is_suffix(i, rem, o), "esni: exact consumption");
        }
        _ => vassert!(s, false, "esni: well-formed => Ok(EncryptedServerName)"),
    }
}

// ---------------------------------------------------------------- tag-specific parsers
/// TAG = the IANA type this parser is for; `which` selects the parser.
#[derive(Clone, Copy)]
pub enum TagP { Sni, MaxFrag, StatusRequest, Groups, EcPointFormats, SigAlgs, Heartbeat, Etm, Ems, SessionTicket, KeyShare, PreSharedKey, EarlyData, SupportedVersions, Cookie, PskModes }

pub fn run_tag(which: TagP, i: &[u8]) -> IResult<&[u8], TlsExtension> {
    match which {
        TagP::Sni => parse_tls_extension_sni(i),
        TagP::MaxFrag => parse_tls_extension_max_fragment_length(i),
        TagP::StatusRequest => parse_tls_extension_status_request(i),
        TagP::Groups => parse_tls_extension_elliptic_curves(i),
        TagP::EcPointFormats => parse_tls_extension_ec_point_formats(i),
        TagP::SigAlgs => parse_tls_extension_signature_algorithms(i),
        TagP::Heartbeat => parse_tls_extension_heartbeat(i),
        TagP::Etm => parse_tls_extension_encrypt_then_mac(i),
        TagP::Ems => parse_tls_extension_extended_master_secret(i),
        TagP::SessionTicket => parse_tls_extension_session_ticket(i),
        TagP::KeyShare => parse_tls_extension_key_share(i),
        TagP::PreSharedKey => parse_tls_extension_pre_shared_key(i),
        TagP::EarlyData => parse_tls_extension_early_data(i),
        TagP::SupportedVersions => parse_tls_extension_supported_versions(i),
        TagP::Cookie => parse_tls_extension_cookie(i),
        TagP::PskModes => parse_tls_extension_psk_key_exchange_modes(i),
    }
}

/// (a) any other type in the first two bytes is refused
pub fn h_tag_rejects_others<S: Src>(s: &mut S, which: TagP, tag: u16) {
    let (buf, n) = inp::<S, 6>(s);
    vassume!(s, n >= 2);
    let i = &buf[..n];
    vassume!(s, be16(i, 0) != tag);
    let r = run_tag(which, i);
    vassert!(s, class_of(&r) == Class::Error, "tag-specific parser: refuses every type but its own IANA type");
}
macro_rules! tag_rej_harnesses {
    ($($rej:ident, $f1:ident, $which:expr, $tag:expr;)*) => {
        $(
            pub fn $f1<S: Src>(s: &mut S) { h_tag_rejects_others(s, $which, $tag) }
            harness!($rej, unwind = 4, $f1);
        )*
    };
}
tag_rej_harnesses! {
    rel_tag_rej_sni, h_tr_sni, TagP::Sni, 0;
    rel_tag_rej_max_fragment_length, h_tr_mfl, TagP::MaxFrag, 1;
    rel_tag_rej_status_request, h_tr_sr, TagP::StatusRequest, 5;
    rel_tag_rej_elliptic_curves, h_tr_ec, TagP::Groups, 10;
    rel_tag_rej_ec_point_formats, h_tr_epf, TagP::EcPointFormats, 11;
    rel_tag_rej_signature_algorithms, h_tr_sa, TagP::SigAlgs, 13;
    rel_tag_rej_heartbeat, h_tr_hb, TagP::Heartbeat, 15;
    rel_tag_rej_encrypt_then_mac, h_tr_etm, TagP::Etm, 22;
    rel_tag_rej_extended_master_secret, h_tr_ems, TagP::Ems, 23;
    rel_tag_rej_session_ticket, h_tr_st, TagP::SessionTicket, 35;
    rel_tag_rej_pre_shared_key, h_tr_psk, TagP::PreSharedKey, 41;
    rel_tag_rej_early_data, h_tr_ed, TagP::EarlyData, 42;
    rel_tag_rej_supported_versions, h_tr_sv, TagP::SupportedVersions, 43;
    rel_tag_rej_cookie, h_tr_ck, TagP::Cookie, 44;
    rel_tag_rej_psk_key_exchange_modes, h_tr_pm, TagP::PskModes, 45;
    rel_tag_rej_key_share, h_tr_ks, TagP::KeyShare, 51;
}

harness!(fd_ext_max_fragment_length, unwind = 3, h_ext_max_fragment_length);
harness!(fd_ext_heartbeat, unwind = 3, h_ext_heartbeat);
harness!(leaf_ext_ec_point_formats, unwind = 3, h_ext_ec_point_formats);
harness!(leaf_ext_renegotiation_info, unwind = 3, h_ext_renegotiation_info);
harness!(leaf_ext_psk_modes, unwind = 7, h_ext_psk_modes);
harness!(leaf_ext_sct, unwind = 4, h_ext_sct);
harness!(leaf_ext_unknown, unwind = 4, h_ext_unknown);
harness!(leaf_ext_elliptic_curves, unwind = 6, h_ext_elliptic_curves::<_, 8>);
harness!(leaf_named_groups, unwind = 6, h_named_groups::<_, 7>);
harness!(leaf_ext_signature_algorithms, unwind = 6, h_ext_signature_algorithms::<_, 8>);
harness!(leaf_ext_alpn, unwind = 10, h_ext_alpn::<_, 8>);
harness!(leaf_ext_sni, unwind = 6, h_ext_sni::<_, 10>);
harness!(leaf_ext_esni, unwind = 5, h_ext_esni::<_, 12>);
