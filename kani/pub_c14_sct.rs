// C14 / C06 — Signed Certificate Timestamps (RFC 6962 3.2, 3.3).
use super::src::Src;
use super::tp;
use super::util::*;
use alloc::vec::Vec;
use tp::nom::{Err, IResult};
use tp::*;

/// reference: is i[o..o+len] one well-formed SCT body? returns (ext off/len, sig off/len) if so
pub fn sct_body(i: &[u8], o: usize, len: usize) -> Option<((usize, usize), (usize, usize))> {
    // version(1) log_id(32) timestamp(8) ext_len(2) ext hash(1) sig(1) sig_len(2) sig
    if len < 43 { return None; }
    let el = be16(i, o + 41) as usize;
    if len - 43 < el { return None; }
    let so = o + 43 + el;
    if len - 43 - el < 4 { return None; }
    let sl = be16(i, so + 2) as usize;
    if len - 43 - el - 4 < sl { return None; }
    Some(((o + 43, el), (so + 4, sl)))
}

/// single SCT: u16 length prefix, body confined to it. Concrete total length N (47-byte minimum SCT + slack).
pub fn h_sct_entry<S: Src, const N: usize>(s: &mut S) {
    let buf: [u8; N] = s.bytes();
    let n = s.usize();
    vassume!(s, n <= N);
    let i = &buf[..n];
    let r = parse_ct_signed_certificate_timestamp(i);
    if n < 2 || n - 2 < be16(i, 0) as usize {
        vcover!(s, n >= 2, "entry longer than the input reached");
        vassert!(s, r.is_err(), "sct: declared length beyond the input never yields an SCT");
        return;
    }
    let l = be16(i, 0) as usize;
    match sct_body(i, 2, l) {
        None => { vcover!(s, l >= 43, "malformed inner lengths reached"); vassert!(s, r.is_err(), "sct: a field cut off by the entry length never yields an SCT") }
        Some(((eo, el), (so, sl))) => match &r {
            Ok((rem, t)) => {
                vassert!(s, t.version.0 == i[2], "sct: version byte (any value)");
                vassert!(s, t.id.key_id.as_ptr() == i[3..].as_ptr(), "sct: 32-byte log id is bytes 1..33 of the body, zero-copy");
                vassert!(s, t.timestamp == be64(i, 35), "sct: 64-bit timestamp, big-endian, full range");
                vassert!(s, is_sub(i, t.extensions.0, eo, el), "sct: u16-prefixed extensions verbatim");
                vassert!(s, matches!(&t.signature.alg, Some(a) if a.hash.0 == i[eo + el] && a.sign.0 == i[eo + el + 1]), "sct: hash and signature algorithm bytes (any value)");
                vassert!(s, is_sub(i, t.signature.data, so, sl), "sct: u16-prefixed signature verbatim");
                vassert!(s, is_suffix(i, rem, 2 + l), "sct: consumes exactly one length-prefixed entry");
                vcover!(s, el > 0 && sl > 0, "SCT with extensions and signature reached");
            }
            Err(_) => vassert!(s, false, "sct: well-formed entry => Ok"),
        },
    }
}

/// list framing: u16 total; entries confined to the list. With short inputs no entry can be well-formed
/// (an SCT is >= 47 bytes), which exercises exactly the "never yields an SCT" clauses.
pub fn h_sct_list_short<S: Src, const N: usize>(s: &mut S) {
    let buf: [u8; N] = s.bytes();
    let n = s.usize();
    vassume!(s, n <= N);
    let i = &buf[..n];
    let r = parse_ct_signed_certificate_timestamp_list(i);
    if n < 2 || n - 2 < be16(i, 0) as usize {
        vassert!(s, r.is_err(), "sct list: declared length beyond the input never yields a value");
        return;
    }
    let l = be16(i, 0) as usize;
    match &r {
        Ok((rem, v)) => {
            vassert!(s, is_suffix(i, rem, 2 + l), "sct list: consumes exactly 2 + total length");
            vassert!(s, v.is_empty(), "sct list: an entry that does not fit in the list never yields an SCT");
        }
        Err(_) => vassert!(s, false, "sct list: list within the input => Ok"),
    }
}

harness!(leaf_sct_entry, unwind = 10, h_sct_entry::<_, 52>);
harness!(leaf_sct_list_short, unwind = 10, h_sct_list_short::<_, 12>);
harness!(leaf_sct_list_tiny, unwind = 6, h_sct_list_short::<_, 6>);
