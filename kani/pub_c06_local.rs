// C06 — locality of the leaf self-delimiting parsers on the real code: run the parser on b = buf[..n] and on
// b ++ x = buf[..m] (same array, n <= m): a success on b is the same success on b ++ x, the remainder just grows.
// (Records, handshake messages, extensions, DTLS: Verus lemmas lemma_*_local, unbounded.)
use super::src::Src;
use super::tp;
use super::util::*;
use alloc::vec::Vec;
use tp::nom::{Err, IResult};
use tp::*;

pub fn two<S: Src, const N: usize>(s: &mut S) -> ([u8; N], usize, usize) {
    let buf: [u8; N] = s.bytes();
    let n = s.usize();
    let m = s.usize();
    vassume!(s, n <= m && m <= N);
    (buf, n, m)
}

macro_rules! local_harness {
    ($hname:ident, $f:ident, $parser:expr, $n:expr, $unwind:expr, $label_ok:literal, $label_val:literal) => {
        pub fn $f<S: Src>(s: &mut S) {
            let (buf, n, m) = two::<S, $n>(s);
            let r1 = ($parser)(&buf[..n]);
            let r2 = ($parser)(&buf[..m]);
            vcover!(s, r1.is_ok() && m > n, "success followed by appended bytes reached");
            if let Ok((rem1, v1)) = &r1 {
                match &r2 {
                    Ok((rem2, v2)) => {
                        vassert!(s, rem2.as_ptr() == rem1.as_ptr() && rem2.len() == rem1.len() + (m - n), $label_ok);
                        vassert!(s, v1 == v2, $label_val);
                    }
                    Err(_) => vassert!(s, false, $label_ok),
                }
            }
        }
        harness!($hname, unwind = $unwind, $f);
    };
}

local_harness!(rel_local_raw_record, h_local_raw, parse_tls_raw_record, 12, 14,
    "locality(raw record): appending bytes only extends the remainder", "locality(raw record): appending bytes leaves the value unchanged");
local_harness!(rel_local_dh_params, h_local_dh, parse_dh_params, 10, 5,
    "locality(dh params): appending bytes only extends the remainder", "locality(dh params): appending bytes leaves the value unchanged");
local_harness!(rel_local_ecdh_params, h_local_ecdh, parse_ecdh_params, 8, 8,
    "locality(ecdh params): appending bytes only extends the remainder", "locality(ecdh params): appending bytes leaves the value unchanged");
local_harness!(rel_local_digitally_signed, h_local_ds, parse_digitally_signed, 8, 10,
    "locality(digitally-signed): appending bytes only extends the remainder", "locality(digitally-signed): appending bytes leaves the value unchanged");
local_harness!(rel_local_ext_unknown, h_local_extu, parse_tls_extension_unknown, 8, 10,
    "locality(extension framing): appending bytes only extends the remainder", "locality(extension framing): appending bytes leaves the value unchanged");
local_harness!(rel_local_dtls_header, h_local_dtlsh, parse_dtls_record_header, 16, 10,
    "locality(dtls header): appending bytes only extends the remainder", "locality(dtls header): appending bytes leaves the value unchanged");
