// C12 — cipher-suite registry lookups and derived sizes over the full id domain.
use super::src::Src;
use super::tp;
use super::pub_c12_rows::{listed, N_ROWS};
use core::convert::TryFrom;
use tp::*;

pub fn h_from_id<S: Src>(s: &mut S) {
    let id = s.u16();
    let a = TlsCipherSuite::from_id(id);
    vassert!(s, a.is_some() == listed(id), "from_id: a suite iff the id is listed in scripts/tls-ciphersuites.txt");
    vassert!(s, match a { Some(c) => c.id.0 == id, None => true }, "from_id: the suite carries the queried id");
    vcover!(s, a.is_some(), "listed id reached");
    vcover!(s, a.is_none(), "unlisted id reached");
}

fn same(x: Option<&'static TlsCipherSuite>, a: Option<&'static TlsCipherSuite>) -> bool {
    match (x, a) { (None, None) => true, (Some(p), Some(q)) => core::ptr::eq(p, q), _ => false }
}
pub fn h_route_try_from_u16<S: Src>(s: &mut S) {
    let id = s.u16();
    vassert!(s, same(<&TlsCipherSuite>::try_from(id).ok(), TlsCipherSuite::from_id(id)), "TryFrom<u16> returns the very same entry as from_id (or neither returns one)");
}
pub fn h_route_try_from_id<S: Src>(s: &mut S) {
    let id = s.u16();
    vassert!(s, same(<&TlsCipherSuite>::try_from(TlsCipherSuiteID(id)).ok(), TlsCipherSuite::from_id(id)), "TryFrom<TlsCipherSuiteID> returns the very same entry as from_id");
}
pub fn h_route_get_ciphersuite<S: Src>(s: &mut S) {
    let id = s.u16();
    vassert!(s, same(TlsCipherSuiteID(id).get_ciphersuite(), TlsCipherSuite::from_id(id)), "TlsCipherSuiteID::get_ciphersuite returns the very same entry as from_id");
}

pub fn h_len<S: Src>(s: &mut S) {
    vassert!(s, CIPHERS.len() == N_ROWS, "registry contains exactly the listed number of suites");
}

/// derived sizes, for every registry entry (symbolic listed id)
pub fn h_sizes<S: Src>(s: &mut S) {
    let id = s.u16();
    if let Some(c) = TlsCipherSuite::from_id(id) {
        vassert!(s, c.enc_key_size() == (c.enc_size / 8) as usize, "enc_key_size == key bits / 8");
        let ml = c.mac_length();
        let want = match c.mac {
            TlsCipherMac::Null | TlsCipherMac::Aead => 0,
            TlsCipherMac::HmacMd5 => 16, TlsCipherMac::HmacSha1 => 20, TlsCipherMac::HmacSha256 => 32,
            TlsCipherMac::HmacSha384 => 48, TlsCipherMac::HmacSha512 => 64,
        };
        vassert!(s, ml == want, "mac_length: 0 for null/AEAD, 16/20/32/48/64 for the HMACs");
        vassert!(s, matches!(c.mac, TlsCipherMac::Null | TlsCipherMac::Aead) || ml == (c.mac_size / 8) as usize, "mac_length == MAC bits / 8 for the HMACs");
        let bs = match c.enc {
            TlsCipherEnc::Des | TlsCipherEnc::TripleDes | TlsCipherEnc::Idea | TlsCipherEnc::Rc2 => 8,
            TlsCipherEnc::Aes | TlsCipherEnc::Aria | TlsCipherEnc::Camellia | TlsCipherEnc::Seed | TlsCipherEnc::Sm4 => 16,
            _ => 0,
        };
        vassert!(s, c.enc_block_size() == bs, "enc_block_size: 8 for DES/3DES/IDEA/RC2, 16 for AES/ARIA/Camellia/SEED/SM4, 0 otherwise");
    }
}

harness!(fd_from_id, unwind = 2, h_from_id);
harness!(fd_route_try_from_u16, unwind = 2, h_route_try_from_u16);
harness!(fd_route_try_from_id, unwind = 2, h_route_try_from_id);
harness!(fd_route_get_ciphersuite, unwind = 2, h_route_get_ciphersuite);
harness!(fd_ciphers_len, unwind = 2, h_len);
harness!(fd_cipher_sizes, unwind = 2, h_sizes);
