// C02 — TLS record framing (raw / encrypted): contract from RFC 8446 5.1 and the property text.
use super::src::Src;
use super::tp;
use super::util::*;
use tp::nom::error::ErrorKind;
use tp::nom::IResult;

pub const CAP: usize = (1 << 14) + 256;

/// post_framing: total contract of a record-framing parser on input `i`
/// result is abstracted to (remainder, type, version, len, payload)
pub fn post_framing<S: Src>(s: &mut S, i: &[u8], r: &IResult<&[u8], (u8, u16, u16, &[u8])>) {
    if i.len() < 5 {
        vcover!(s, true, "short header reached");
        vassert!(s, is_incomplete(r), "framing: fewer than 5 bytes => Incomplete");
        return;
    }
    let l = be16(i, 3) as usize;
    if l > CAP {
        vcover!(s, true, "over-cap reached");
        vassert!(s, err_kind(r) == Some(ErrorKind::TooLarge) && class_of(r) == Class::Error,
                 "framing: declared length above 2^14+256 => Error(TooLarge) whatever follows");
        return;
    }
    if i.len() < 5 + l {
        vcover!(s, true, "truncated payload reached");
        vassert!(s, is_incomplete(r), "framing: strict prefix of header+payload => Incomplete");
        vassert!(s, needed_size(r) == Some(5 + l - i.len()), "framing: Needed == number of missing bytes");
        return;
    }
    vcover!(s, l == 0, "empty payload reached");
    vcover!(s, l > 0 && i.len() > 5 + l, "payload with trailing bytes reached");
    match r {
        Ok((rem, (ty, ver, len, data))) => {
            vassert!(s, *ty == i[0], "framing: type == byte 0");
            vassert!(s, *ver == be16(i, 1), "framing: version == be16(bytes 1..3)");
            vassert!(s, *len as usize == l, "framing: len == be16(bytes 3..5)");
            vassert!(s, is_sub(i, data, 5, l), "framing: payload is exactly i[5..5+len], zero-copy");
            vassert!(s, is_suffix(i, rem, 5 + l), "framing: remainder is i[5+len..], untouched");
        }
        Err(_) => vassert!(s, false, "framing: complete record within the cap => Ok, never Incomplete/Error"),
    }
}

pub fn h_raw_record<S: Src, const N: usize>(s: &mut S) {
    let buf: [u8; N] = s.bytes();
    let n = s.usize();
    vassume!(s, n <= N);
    let i = &buf[..n];
    let r = tp::parse_tls_raw_record(i).map(|(rem, rec)| (rem, (rec.hdr.record_type.0, rec.hdr.version.0, rec.hdr.len, rec.data)));
    post_framing(s, i, &r);
}

pub fn h_encrypted<S: Src, const N: usize>(s: &mut S) {
    let buf: [u8; N] = s.bytes();
    let n = s.usize();
    vassume!(s, n <= N);
    let i = &buf[..n];
    let r = tp::parse_tls_encrypted(i).map(|(rem, rec)| (rem, (rec.hdr.record_type.0, rec.hdr.version.0, rec.hdr.len, rec.msg.blob)));
    post_framing(s, i, &r);
}

pub fn h_record_header<S: Src>(s: &mut S) {
    let buf: [u8; 8] = s.bytes();
    let n = s.usize();
    vassume!(s, n <= 8);
    let i = &buf[..n];
    let r = tp::parse_tls_record_header(i);
    if n < 5 {
        vassert!(s, is_incomplete(&r), "header: fewer than 5 bytes => Incomplete");
    } else {
        match r {
            Ok((rem, h)) => {
                vassert!(s, h.record_type.0 == i[0] && h.version.0 == be16(i, 1) && h.len == be16(i, 3), "header: fields are the 5 bytes, big-endian");
                vassert!(s, is_suffix(i, rem, 5), "header: consumes exactly 5 bytes");
            }
            Err(_) => vassert!(s, false, "header: 5 bytes available => Ok"),
        }
    }
}

harness!(fd_record_header, unwind = 4, h_record_header);
// quick: all 65536 declared lengths; Ok class for payloads <= 40 bytes, <= 8 trailing bytes
harness!(fd_raw_record_small, unwind = 4, h_raw_record::<_, 53>);
harness!(fd_encrypted_small, unwind = 4, h_encrypted::<_, 53>);
// thorough: complete up to the record cap (every framed length 0..=16640), <= 16 trailing bytes
harness!(fd_raw_record_full, unwind = 4, h_raw_record::<_, 16661>);
harness!(fd_encrypted_full, unwind = 4, h_encrypted::<_, 16661>);
