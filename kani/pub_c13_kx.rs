// C13 / C06 / C11 — key-exchange parameters and signatures (RFC 4492 5.4, RFC 5246 7.4.3, 4.7).
use super::src::Src;
use super::tp;
use super::util::*;
use super::pub_c05_ext::inp;
use alloc::vec::Vec;
use tp::nom::error::ErrorKind;
use tp::nom::{Err, IResult};
use tp::*;

/// walk `count` length-prefixed fields (prefix width w in {1,2}) starting at offset o; None if truncated
pub fn walk(i: &[u8], mut o: usize, w: usize, count: usize, out: &mut [(usize, usize); 6]) -> Option<usize> {
    let mut k = 0;
    while k < count {
        if i.len() < o + w { return None; }
        let l = if w == 1 { i[o] as usize } else { be16(i, o) as usize };
        if i.len() - (o + w) < l { return None; }
        out[k] = (o + w, l);
        o += w + l;
        k += 1;
    }
    Some(o)
}

pub fn h_dh_params<S: Src, const N: usize>(s: &mut S) {
    let (buf, n) = inp::<S, N>(s);
    let i = &buf[..n];
    let r = parse_dh_params(i);
    let mut f = [(0usize, 0usize); 6];
    match walk(i, 0, 2, 3, &mut f) {
        None => vassert!(s, r.is_err(), "dh params: truncated field => no value"),
        Some(end) => match &r {
            Ok((rem, p)) => {
                vassert!(s, is_sub(i, p.dh_p, f[0].0, f[0].1) && is_sub(i, p.dh_g, f[1].0, f[1].1) && is_sub(i, p.dh_ys, f[2].0, f[2].1), "dh params: p, g, Ys are the three u16-prefixed fields, verbatim, in order");
                vassert!(s, is_suffix(i, rem, end), "dh params: consumes exactly its own encoding");
                vcover!(s, f[0].1 > 0 && f[2].1 > 0 && rem.len() > 0, "non-empty fields with trailing bytes reached");
            }
            Err(_) => vassert!(s, false, "dh params: well-formed => Ok"),
        },
    }
}

pub fn h_ecpoint_signed<S: Src, const N: usize>(s: &mut S) {
    let (buf, n) = inp::<S, N>(s);
    let i = &buf[..n];
    // DigitallySigned, legacy form: u16-prefixed signature only
    let r = parse_digitally_signed_old(i);
    if n < 2 || n - 2 < be16(i, 0) as usize { vassert!(s, r.is_err(), "digitally-signed (legacy): truncated => no value"); }
    else {
        let l = be16(i, 0) as usize;
        vassert!(s, matches!(&r, Ok((rem, d)) if d.alg.is_none() && is_sub(i, d.data, 2, l) && is_suffix(i, rem, 2 + l)), "digitally-signed (legacy): no algorithm, u16-prefixed signature verbatim, exact consumption");
    }
    // DigitallySigned, TLS 1.2 form: hash, signature, u16-prefixed signature
    let r = parse_digitally_signed(i);
    if n < 4 || n - 4 < be16(i, 2) as usize { vassert!(s, r.is_err(), "digitally-signed: truncated => no value"); }
    else {
        let l = be16(i, 2) as usize;
        vassert!(s, matches!(&r, Ok((rem, d)) if matches!(&d.alg, Some(a) if a.hash.0 == i[0] && a.sign.0 == i[1]) && is_sub(i, d.data, 4, l) && is_suffix(i, rem, 4 + l)),
                 "digitally-signed: (hash, signature) algorithm bytes (any value), u16-prefixed signature verbatim, exact consumption");
    }
}

pub fn h_ec_parameters<S: Src, const N: usize>(s: &mut S) {
    let (buf, n) = inp::<S, N>(s);
    let i = &buf[..n];
    let r = parse_ec_parameters(i);
    if n < 1 { vassert!(s, r.is_err(), "ec parameters: empty => no value"); return; }
    let ct = i[0];
    if ct == 3 {
        if n < 3 { vassert!(s, r.is_err(), "ec parameters(named): truncated => no value"); return; }
        vassert!(s, matches!(&r, Ok((rem, p)) if p.curve_type.0 == 3 && matches!(&p.params_content, ECParametersContent::NamedGroup(g) if g.0 == be16(i, 1)) && is_suffix(i, rem, 3)),
                 "ec parameters: named_curve => the 16-bit group (any value), consumes 3 bytes");
    } else if ct == 1 {
        let mut f = [(0usize, 0usize); 6];
        match walk(i, 1, 1, 6, &mut f) {
            None => vassert!(s, r.is_err(), "ec parameters(explicit prime): truncated field => no value"),
            Some(end) => match &r {
                Ok((rem, p)) => match &p.params_content {
                    ECParametersContent::ExplicitPrime(e) => {
                        vassert!(s, p.curve_type.0 == 1, "ec parameters: curve type byte returned");
                        vassert!(s, is_sub(i, e.prime_p, f[0].0, f[0].1) && is_sub(i, e.curve.a, f[1].0, f[1].1) && is_sub(i, e.curve.b, f[2].0, f[2].1)
                                    && is_sub(i, e.base.point, f[3].0, f[3].1) && is_sub(i, e.order, f[4].0, f[4].1) && is_sub(i, e.cofactor, f[5].0, f[5].1),
                                 "ec parameters: explicit prime layout = p, a, b, base, order, cofactor (u8-prefixed), verbatim, in order");
                        vassert!(s, is_suffix(i, rem, end), "ec parameters: consumes exactly its own encoding");
                    }
                    _ => vassert!(s, false, "ec parameters: explicit_prime => ExplicitPrime"),
                },
                Err(_) => vassert!(s, false, "ec parameters(explicit prime): well-formed => Ok"),
            },
        }
    } else {
        vcover!(s, ct == 2, "explicit_char2 reached");
        vassert!(s, r.is_err(), "ec parameters: curve types other than explicit_prime(1) and named_curve(3) are rejected");
    }
}

pub fn h_ecdh_params<S: Src, const N: usize>(s: &mut S) {
    let mut buf: [u8; N] = s.bytes();
    buf[0] = 3; // named curve form (the explicit form is covered by leaf_ec_parameters)
    let n = s.usize();
    vassume!(s, n <= N);
    let i = &buf[..n];
    let r = parse_ecdh_params(i);
    if n < 4 || n - 4 < i[3] as usize { vassert!(s, r.is_err(), "ecdh params: truncated => no value"); return; }
    let l = i[3] as usize;
    vassert!(s, matches!(&r, Ok((rem, p)) if matches!(&p.curve_params.params_content, ECParametersContent::NamedGroup(g) if g.0 == be16(i, 1)) && is_sub(i, p.public.point, 4, l) && is_suffix(i, rem, 4 + l)),
             "ecdh params: curve parameters then the u8-prefixed public point, verbatim, exact consumption");
}

fn content_u8(i: &[u8]) -> IResult<&[u8], u8> { tp::nom::number::streaming::be_u8(i) }

pub fn h_content_and_signature<S: Src, const N: usize>(s: &mut S) {
    let (buf, n) = inp::<S, N>(s);
    let ext = s.bool();
    let i = &buf[..n];
    let r = parse_content_and_signature(i, content_u8, ext);
    if n < 1 { vassert!(s, r.is_err(), "content+signature: no content => no value"); return; }
    let o = if ext { 3 } else { 1 };
    if n < o + 2 || n - (o + 2) < be16(i, o) as usize { vassert!(s, r.is_err(), "content+signature: truncated signature => no value"); return; }
    let l = be16(i, o) as usize;
    match &r {
        Ok((rem, (c, d))) => {
            vassert!(s, *c == i[0], "content+signature: the content parser's value comes first");
            vassert!(s, d.alg.is_some() == ext, "content+signature: algorithm pair present iff signature_algorithms was negotiated");
            vassert!(s, match &d.alg { Some(a) => a.hash.0 == i[1] && a.sign.0 == i[2], None => true }, "content+signature: algorithm bytes exact");
            vassert!(s, is_sub(i, d.data, o + 2, l) && is_suffix(i, rem, o + 2 + l), "content+signature: signature verbatim, exact consumption");
        }
        Err(_) => vassert!(s, false, "content+signature: well-formed => Ok"),
    }
}

harness!(leaf_dh_params, unwind = 5, h_dh_params::<_, 10>);
harness!(leaf_digitally_signed, unwind = 4, h_ecpoint_signed::<_, 8>);
harness!(leaf_ec_parameters, unwind = 8, h_ec_parameters::<_, 10>);
harness!(leaf_ecdh_params, unwind = 4, h_ecdh_params::<_, 8>);
harness!(leaf_content_and_signature, unwind = 4, h_content_and_signature::<_, 8>);
