// C02/C03 — parse_tls_plaintext / parse_tls_record_with_header on the real code, per content type.
use super::src::Src;
use super::tp;
use super::util::*;
use alloc::vec::Vec;
use tp::nom::error::ErrorKind;
use tp::nom::{Err, IResult};
use tp::*;

/// plaintext record of a CONCRETE content type TY (CBMC prunes the dispatcher), payload <= P bytes,
/// declared length and everything else symbolic.
pub fn h_plaintext_alert<S: Src, const N: usize>(s: &mut S) {
    let mut buf: [u8; N] = s.bytes();
    buf[0] = 0x15;
    let n = s.usize();
    vassume!(s, n <= N);
    let i = &buf[..n];
    let r = parse_tls_plaintext(i);
    if n < 5 { vassert!(s, is_incomplete(&r), "plaintext: short header => Incomplete"); return; }
    let l = be16(i, 3) as usize;
    if l > 16640 { vassert!(s, err_kind(&r) == Some(ErrorKind::TooLarge), "plaintext: over cap => TooLarge"); return; }
    if n < 5 + l { vassert!(s, needed_size(&r) == Some(5 + l - n), "plaintext: truncated => Incomplete(missing)"); return; }
    // whole record present: never Incomplete
    vassert!(s, !is_incomplete(&r), "plaintext: a whole record never answers Incomplete");
    match &r {
        Ok((rem, rec)) => {
            vassert!(s, is_suffix(i, rem, 5 + l), "plaintext: consumes exactly 5+len");
            vassert!(s, l >= 2, "alert record: at least one alert");
            vassert!(s, rec.msg.len() == l / 2, "alert record: one message per 2 bytes");
            vassert!(s, rec.hdr.record_type.0 == 0x15 && rec.hdr.version.0 == be16(i, 1) && rec.hdr.len as usize == l, "plaintext: header fields");
            let mut k = 0;
            while k < rec.msg.len() {
                match &rec.msg[k] {
                    TlsMessage::Alert(a) => vassert!(s, a.severity.0 == i[5 + 2 * k] && a.code.0 == i[6 + 2 * k], "alert: (severity, code) are the two bytes, in wire order"),
                    _ => vassert!(s, false, "alert record yields only alerts"),
                }
                k += 1;
            }
        }
        Err(_) => vassert!(s, l < 2, "alert record with >= 2 payload bytes parses"),
    }
}

// measured: CBMC times out (600 s) on this body even at 10 bytes with a concrete content type -
// Vec<TlsMessage> construction + drop glue. Kept for concrete replay only; the container clauses are
// decided by the Verus unit V-MANY instead.
