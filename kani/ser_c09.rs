// C09 — serializer (feature `serialize`): emitted bytes == the RFC wire encoding of the value, written by
// an independent index-based reference encoder; every length field equals the byte length of what it
// prefixes (part of the reference); small values are parsed back with the body parsers.
// Round trip through the DISPATCHERS follows by composition with C04/C05 (Verus units), not from a run.
use super::src::Src;
use super::tp;
use super::util::*;
use alloc::vec::Vec;
use tp::nom::{Err, IResult};
use tp::rusticata_macros::Serialize;
use tp::*;

pub struct W { pub b: [u8; 96], pub n: usize }
impl W {
    pub fn new() -> W { W { b: [0; 96], n: 0 } }
    pub fn u8(&mut self, v: u8) { self.b[self.n] = v; self.n += 1; }
    pub fn u16(&mut self, v: u16) { self.u8((v >> 8) as u8); self.u8(v as u8); }
    pub fn u24(&mut self, v: u32) { self.u8((v >> 16) as u8); self.u8((v >> 8) as u8); self.u8(v as u8); }
    pub fn bytes(&mut self, d: &[u8]) { let mut k = 0; while k < d.len() { self.u8(d[k]); k += 1; } }
    pub fn eq(&self, out: &[u8]) -> bool {
        if out.len() != self.n { return false; }
        let mut k = 0;
        while k < self.n { if out[k] != self.b[k] { return false; } k += 1; }
        true
    }
}

pub fn h_ser_opaque<S: Src, const WHICH: u8>(s: &mut S) {
    let buf: [u8; 2] = s.bytes();
    let n = s.usize();
    vassume!(s, n <= 2);
    let d = &buf[..n];
    let which = WHICH;
    let (msg, ty): (TlsMessageHandshake, u8) = match which {
        0 => (TlsMessageHandshake::Finished(d), 0x14),
        1 => (TlsMessageHandshake::ClientKeyExchange(TlsClientKeyExchangeContents::Unknown(d)), 0x10),
        2 => (TlsMessageHandshake::ClientKeyExchange(TlsClientKeyExchangeContents::Dh(d)), 0x10),
        3 => (TlsMessageHandshake::ClientKeyExchange(TlsClientKeyExchangeContents::Ecdh(ECPoint { point: d })), 0x10),
        _ => (TlsMessageHandshake::HelloRequest, 0x00),
    };
    let mut w = W::new();
    w.u8(ty);
    match which {
        0 | 1 => { w.u24(n as u32); w.bytes(d); }
        2 => { w.u24(n as u32 + 2); w.u16(n as u16); w.bytes(d); }   // DH: u16-prefixed public value
        3 => { w.u24(n as u32 + 1); w.u8(n as u8); w.bytes(d); }     // ECDH: u8-prefixed point
        _ => { w.u24(0); }
    }
    match msg.serialize() {
        Ok(out) => {
            vassert!(s, w.eq(&out), "serialize(Finished / ClientKeyExchange / HelloRequest): type byte, u24 length == body length, body per RFC 5246 7.4");
            // parse the body back with the body parser
            if which == 0 {
                let r = parse_tls_handshake_msg_finished(&out[4..], n);
                vassert!(s, matches!(&r, Ok((rem, TlsMessageHandshake::Finished(x))) if rem.is_empty() && x.len() == n && (n == 0 || (x[0] == d[0] && x[n - 1] == d[n - 1]))), "serialize(Finished) parses back to the same value, everything consumed");
            }
        }
        Err(_) => vassert!(s, false, "serialize succeeds for every Finished / ClientKeyExchange / HelloRequest value"),
    }
}

pub fn h_ser_ccs<S: Src>(s: &mut S) {
    match TlsMessage::ChangeCipherSpec.serialize() {
        Ok(out) => {
            vassert!(s, out.len() == 1 && out[0] == 0x01, "serialize(ChangeCipherSpec message) is the single byte 0x01 (RFC 5246 7.1)");
            vassert!(s, matches!(parse_tls_message_changecipherspec(&out), Ok((rem, TlsMessage::ChangeCipherSpec)) if rem.is_empty()), "serialize(ChangeCipherSpec) parses back");
        }
        Err(_) => vassert!(s, false, "serialize succeeds for ChangeCipherSpec"),
    }
}

pub fn h_ser_record<S: Src, const TWO: bool>(s: &mut S) {
    let buf: [u8; 1] = s.bytes();
    let n = 1usize;
    let ver = s.u16();
    let two = TWO;
    let mut msgs = Vec::with_capacity(2);
    msgs.push(TlsMessage::Handshake(TlsMessageHandshake::Finished(&buf[..n])));
    if two { msgs.push(TlsMessage::Handshake(TlsMessageHandshake::HelloRequest)); }
    let rec = TlsPlaintext { hdr: TlsRecordHeader { record_type: TlsRecordType::Handshake, version: TlsVersion(ver), len: 0 }, msg: msgs };
    let mut w = W::new();
    w.u8(0x16);
    w.u16(ver);
    w.u16((4 + n + if two { 4 } else { 0 }) as u16);
    w.u8(0x14); w.u24(n as u32); w.bytes(&buf[..n]);
    if two { w.u8(0); w.u24(0); }
    match rec.serialize() {
        Ok(out) => vassert!(s, w.eq(&out), "serialize(record): type, version, u16 length == total length of the concatenated messages, messages in order"),
        Err(_) => vassert!(s, false, "serialize succeeds for a record of serializable messages"),
    }
}

pub fn h_ser_unsupported<S: Src, const K: u8>(s: &mut S) {
    let d: [u8; 2] = s.bytes();
    let k = K;
    let m: TlsMessageHandshake = match k {
        0 => TlsMessageHandshake::NewSessionTicket(TlsNewSessionTicketContent { ticket_lifetime_hint: 0, ticket: &d }),
        1 => TlsMessageHandshake::EndOfEarlyData,
        2 => TlsMessageHandshake::HelloRetryRequest(TlsHelloRetryRequestContents { version: TlsVersion(0x0304), cipher: TlsCipherSuiteID(0), ext: None }),
        3 => TlsMessageHandshake::Certificate(TlsCertificateContents { cert_chain: Vec::new() }),
        4 => TlsMessageHandshake::ServerKeyExchange(TlsServerKeyExchangeContents { parameters: &d }),
        5 => TlsMessageHandshake::CertificateRequest(TlsCertificateRequestContents { cert_types: Vec::new(), sig_hash_algs: None, unparsed_ca: Vec::new() }),
        6 => TlsMessageHandshake::ServerDone(&d),
        7 => TlsMessageHandshake::CertificateVerify(&d),
        8 => TlsMessageHandshake::CertificateStatus(TlsCertificateStatusContents { status_type: 1, blob: &d }),
        9 => TlsMessageHandshake::NextProtocol(TlsNextProtocolContent { selected_protocol: &d, padding: &d }),
        _ => TlsMessageHandshake::KeyUpdate(d[0]),
    };
    vassert!(s, matches!(m.serialize(), Err(GenError::NotYetImplemented)), "unsupported handshake variants yield GenError::NotYetImplemented, no bytes");
    let t: TlsMessage = match k {
        0 => TlsMessage::Alert(TlsMessageAlert { severity: TlsAlertSeverity(d[0]), code: TlsAlertDescription(d[1]) }),
        1 => TlsMessage::ApplicationData(TlsMessageApplicationData { blob: &d }),
        _ => TlsMessage::Heartbeat(TlsMessageHeartbeat { heartbeat_type: TlsHeartbeatMessageType(1), payload_len: 2, payload: &d }),
    };
    vassert!(s, matches!(t.serialize(), Err(GenError::NotYetImplemented)), "unsupported message kinds yield GenError::NotYetImplemented, no bytes");
}

/// ClientHello / ServerHello (all three wire forms) against the reference encoding
/// SHAPE 0 = minimal (no session id, no extension block, no ciphers, no compression);
/// SHAPE 1 = full (1-byte session id, 1-byte extension block, 2 ciphers, 1 compression). Contents symbolic.
pub fn h_ser_hello<S: Src, const KIND: u8, const SHAPE: u8>(s: &mut S) {
    let random: [u8; 32] = s.bytes();
    let sb: [u8; 1] = s.bytes();
    let sid: Option<&[u8]> = if SHAPE == 1 { Some(&sb[..]) } else { None };
    let eb: [u8; 1] = s.bytes();
    let ext: Option<&[u8]> = if SHAPE == 1 { Some(&eb[..]) } else { None };
    let ver = s.u16();
    let c0 = s.u16();
    let c1 = s.u16();
    let k0 = s.u8();
    let nc: u8 = if SHAPE == 1 { 2 } else { 0 };
    let has_comp = SHAPE == 1;
    let mut w = W::new();
    let (msg, body_len): (TlsMessageHandshake, usize);
    let sl = match sid { Some(x) => x.len(), None => 0 };
    let el = match ext { Some(x) => x.len(), None => 0 };
    if KIND == 0 {
        let mut ciphers = Vec::new();
        if nc >= 1 { ciphers.push(TlsCipherSuiteID(c0)); }
        if nc >= 2 { ciphers.push(TlsCipherSuiteID(c1)); }
        let mut comp = Vec::new();
        if has_comp { comp.push(TlsCompressionID(k0)); }
        body_len = 2 + 32 + 1 + sl + 2 + 2 * nc as usize + 1 + has_comp as usize + 2 + el;
        w.u8(0x01); w.u24(body_len as u32); w.u16(ver); w.bytes(&random); w.u8(sl as u8);
        if let Some(x) = sid { w.bytes(x); }
        w.u16(2 * nc as u16);
        if nc >= 1 { w.u16(c0); }
        if nc >= 2 { w.u16(c1); }
        w.u8(has_comp as u8);
        if has_comp { w.u8(k0); }
        w.u16(el as u16);               // an absent extension block is written as an empty one
        if let Some(x) = ext { w.bytes(x); }
        msg = TlsMessageHandshake::ClientHello(TlsClientHelloContents::new(ver, &random, sid, ciphers, comp, ext));
    } else if KIND == 1 {
        body_len = 2 + 32 + 1 + sl + 2 + 1 + 2 + el;
        w.u8(0x02); w.u24(body_len as u32); w.u16(ver); w.bytes(&random); w.u8(sl as u8);
        if let Some(x) = sid { w.bytes(x); }
        w.u16(c0); w.u8(k0); w.u16(el as u16);
        if let Some(x) = ext { w.bytes(x); }
        msg = TlsMessageHandshake::ServerHello(TlsServerHelloContents::new(ver, &random, sid, c0, k0, ext));
    } else {
        body_len = 2 + 32 + 2 + 2 + el;
        w.u8(0x02); w.u24(body_len as u32); w.u16(ver); w.bytes(&random); w.u16(c0); w.u16(el as u16);
        if let Some(x) = ext { w.bytes(x); }
        msg = TlsMessageHandshake::ServerHelloV13Draft18(TlsServerHelloV13Draft18Contents { version: TlsVersion(ver), random: &random, cipher: TlsCipherSuiteID(c0), ext });
    }
    match msg.serialize() {
        Ok(out) => vassert!(s, w.eq(&out), "serialize(hello): version, random, session id with u8 length, cipher list with 2n byte length, compression list, u16-prefixed extension block; u24 body length == body byte length"),
        Err(_) => vassert!(s, false, "serialize succeeds for every hello value within wire limits"),
    }
}

/// SNI / max_fragment_length / supported_groups through gen_tls_extension(s)
pub fn h_ser_extensions<S: Src, const PART: u8>(s: &mut S) {
    use ::cookie_factory::gen_simple;
    let nb: [u8; 2] = s.bytes();
    let nn = s.usize();
    vassume!(s, nn <= 2);
    let nt = s.u8();
    let g0 = s.u16();
    let g1 = s.u16();
    let ng = s.u8();
    vassume!(s, ng <= 2);
    let mfl = s.u8();
    if PART == 0 {
    // SNI with one name
    let mut v = Vec::new();
    v.push((SNIType(nt), &nb[..nn]));
    let e = TlsExtension::SNI(v);
    let mut w = W::new();
    w.u16(0); w.u16((2 + 3 + nn) as u16); w.u16((3 + nn) as u16); w.u8(nt); w.u16(nn as u16); w.bytes(&nb[..nn]);
    match gen_simple(gen_tls_extension(&e), Vec::new()) {
        Ok(out) => vassert!(s, w.eq(&out), "gen_tls_extension(SNI): type 0, extension length, list length, (name type, u16 name length, name)"),
        Err(_) => vassert!(s, false, "gen_tls_extension(SNI) succeeds"),
    }
    }
    // (a zero / two-entry SNI list through many_ref times out in CBMC at 600 s - measured; the serializer_roundtrip stand-in covers it)
    if PART == 1 {
    let e = TlsExtension::MaxFragmentLength(mfl);
    let mut w = W::new();
    w.u16(1); w.u16(1); w.u8(mfl);
    match gen_simple(gen_tls_extension(&e), Vec::new()) {
        Ok(out) => vassert!(s, w.eq(&out), "gen_tls_extension(MaxFragmentLength): type 1, length 1, the code"),
        Err(_) => vassert!(s, false, "gen_tls_extension(MaxFragmentLength) succeeds"),
    }
    let u = TlsExtension::Cookie(&nb[..nn]);
    vassert!(s, matches!(gen_simple(gen_tls_extension(&u), Vec::new()), Err(GenError::NotYetImplemented)), "unsupported extensions yield GenError::NotYetImplemented");
    }
    if PART == 2 {
    let mut g = Vec::new();
    if ng >= 1 { g.push(NamedGroup(g0)); }
    if ng >= 2 { g.push(NamedGroup(g1)); }
    let e = TlsExtension::EllipticCurves(g);
    let mut w = W::new();
    w.u16(10); w.u16(2 + 2 * ng as u16); w.u16(2 * ng as u16);
    if ng >= 1 { w.u16(g0); }
    if ng >= 2 { w.u16(g1); }
    match gen_simple(gen_tls_extension(&e), Vec::new()) {
        Ok(out) => vassert!(s, w.eq(&out), "gen_tls_extension(supported_groups): type 10, extension length, list length, groups in order"),
        Err(_) => vassert!(s, false, "gen_tls_extension(supported_groups) succeeds"),
    }
    }
}

/// the length helpers on bodies of EVERY length up to 70000 bytes (above the 16-bit boundary): the emitted u24
/// equals the number of body bytes written. Body content is a constant array; only its length is symbolic.
pub fn h_ser_length_u24<S: Src>(s: &mut S) {
    use ::cookie_factory::combinator::slice;
    use ::cookie_factory::gen_simple;
    let data = [0u8; 70000];
    let n = s.usize();
    vassume!(s, n <= 70000);
    let out: Result<Vec<u8>, GenError> = gen_simple(crate::tls_serialize::verif_access::len_be_u24(slice(&data[..n])), Vec::new());
    match out {
        Ok(o) => {
            vassert!(s, o.len() == 3 + n, "length_be_u24: 3 length bytes followed by exactly the body");
            vassert!(s, be24(&o, 0) as usize == n, "length_be_u24: the emitted 24-bit length equals the byte length of the body it prefixes (also above 65535)");
        }
        Err(_) => vassert!(s, false, "length_be_u24 succeeds"),
    }
}
pub fn h_ser_length_u16<S: Src>(s: &mut S) {
    use ::cookie_factory::combinator::slice;
    use ::cookie_factory::gen_simple;
    let data = [0u8; 65535];
    let n = s.usize();
    vassume!(s, n <= 65535);
    let out: Result<Vec<u8>, GenError> = gen_simple(crate::tls_serialize::verif_access::len_be_u16(slice(&data[..n])), Vec::new());
    match out {
        Ok(o) => {
            vassert!(s, o.len() == 2 + n, "length_be_u16: 2 length bytes followed by exactly the body");
            vassert!(s, be16(&o, 0) as usize == n, "length_be_u16: the emitted 16-bit length equals the byte length of the body it prefixes");
        }
        Err(_) => vassert!(s, false, "length_be_u16 succeeds"),
    }
}
// ---------------------------------------------------------------- cookie-factory shim (/verif/verus/shim_cf.rs)
// The contracts the Verus unit `serialize` ASSUMES for cookie-factory, checked on the real cookie-factory 0.3.3 with a Vec<u8>
// writer that already holds a prefix: every primitive appends exactly its bytes (never fails on a Vec), `tuple` runs its
// components in order, `gen(&f, Vec::new())` returns f's bytes and their count, a failing component's error comes out
// unchanged and nothing after it runs, Result::and_then chains, a `&F` serializer is F.
pub fn h_shim_cf_bytes<S: Src>(s: &mut S) {
    use ::cookie_factory::bytes::{be_u16, be_u24, be_u8};
    use ::cookie_factory::combinator::slice;
    use ::cookie_factory::{gen, WriteContext};
    let p: u8 = s.u8();
    let a: u8 = s.u8();
    let b: u16 = s.u16();
    let c: u32 = s.u32();
    let d: [u8; 3] = s.bytes();
    let n = s.usize();
    vassume!(s, n <= 3);
    let mut w = Vec::new();
    w.push(p);
    let r = gen(be_u8(a), w);
    vassert!(s, matches!(&r, Ok((v, 1)) if v.len() == 2 && v[0] == p && v[1] == a), "shim cf be_u8: appends the byte to what the writer holds; count 1");
    let r = gen(be_u16(b), Vec::new());
    vassert!(s, matches!(&r, Ok((v, 2)) if v.len() == 2 && v[0] == (b >> 8) as u8 && v[1] == (b & 0xff) as u8), "shim cf be_u16: big-endian, 2 bytes");
    let r = gen(be_u24(c), Vec::new());
    vassert!(s, matches!(&r, Ok((v, 3)) if v.len() == 3 && v[0] == ((c >> 16) & 0xff) as u8 && v[1] == ((c >> 8) & 0xff) as u8 && v[2] == (c & 0xff) as u8), "shim cf be_u24: the low 24 bits big-endian, 3 bytes");
    let r = gen(slice(&d[..n]), Vec::new());
    vassert!(s, matches!(&r, Ok((v, k)) if v.len() == n && *k == n as u64 && (n < 1 || v[0] == d[0]) && (n < 2 || v[1] == d[1]) && (n < 3 || v[2] == d[2])), "shim cf slice(&[u8]): exactly the bytes");
    let owned: Vec<u8> = d[..n].to_vec();
    let r = gen(slice(owned), Vec::new());
    vassert!(s, matches!(&r, Ok((v, k)) if v.len() == n && *k == n as u64 && (n < 1 || v[0] == d[0]) && (n < 3 || v[2] == d[2])), "shim cf slice(Vec<u8>): exactly the bytes");
    // a reference to a serializer is that serializer; gen on &f
    let f = be_u16(b);
    let r1 = gen(&f, Vec::new());
    vassert!(s, matches!(&r1, Ok((v, 2)) if v[0] == (b >> 8) as u8 && v[1] == (b & 0xff) as u8), "shim cf gen(&f, Vec::new()): f's bytes and their count");
    // Result::and_then with a serializer as the continuation
    let r2 = be_u8(a)(WriteContext::from(Vec::new())).and_then(slice(&d[..n]));
    vassert!(s, matches!(&r2, Ok(ctx) if ctx.write.len() == 1 + n && ctx.write[0] == a && (n < 1 || ctx.write[1] == d[0])), "shim cf and_then: the continuation runs on the first result");
}
fn nyi(_: ::cookie_factory::WriteContext<Vec<u8>>) -> ::cookie_factory::GenResult<Vec<u8>> { Err(GenError::NotYetImplemented) }
pub fn h_shim_cf_tuple<S: Src>(s: &mut S) {
    use ::cookie_factory::bytes::be_u8;
    use ::cookie_factory::gen;
    use ::cookie_factory::sequence::tuple;
    let x: [u8; 8] = s.bytes();
    let r = gen(tuple((be_u8(x[0]), be_u8(x[1]))), Vec::new());
    vassert!(s, matches!(&r, Ok((v, 2)) if v.len() == 2 && v[0] == x[0] && v[1] == x[1]), "shim cf tuple2: components in order");
    let r = gen(tuple((be_u8(x[0]), be_u8(x[1]), be_u8(x[2]))), Vec::new());
    vassert!(s, matches!(&r, Ok((v, 3)) if v.len() == 3 && v[0] == x[0] && v[1] == x[1] && v[2] == x[2]), "shim cf tuple3: components in order");
    let r = gen(tuple((be_u8(x[0]), be_u8(x[1]), be_u8(x[2]), be_u8(x[3]))), Vec::new());
    vassert!(s, matches!(&r, Ok((v, 4)) if v.len() == 4 && v[0] == x[0] && v[3] == x[3] && v[2] == x[2]), "shim cf tuple4: components in order");
    let r = gen(tuple((be_u8(x[0]), be_u8(x[1]), be_u8(x[2]), be_u8(x[3]), be_u8(x[4]), be_u8(x[5]))), Vec::new());
    vassert!(s, matches!(&r, Ok((v, 6)) if v.len() == 6 && v[0] == x[0] && v[1] == x[1] && v[2] == x[2] && v[3] == x[3] && v[4] == x[4] && v[5] == x[5]), "shim cf tuple6: components in order");
    let r = gen(tuple((be_u8(x[0]), be_u8(x[1]), be_u8(x[2]), be_u8(x[3]), be_u8(x[4]), be_u8(x[5]), be_u8(x[6]), be_u8(x[7]))), Vec::new());
    vassert!(s, matches!(&r, Ok((v, 8)) if v.len() == 8 && v[0] == x[0] && v[1] == x[1] && v[2] == x[2] && v[3] == x[3] && v[4] == x[4] && v[5] == x[5] && v[6] == x[6] && v[7] == x[7]), "shim cf tuple8: components in order");
    // the first failure wins and is returned unchanged
    let r = gen(tuple((be_u8(x[0]), nyi, be_u8(x[2]))), Vec::new());
    vassert!(s, matches!(&r, Err(GenError::NotYetImplemented)), "shim cf tuple: a failing component's error is the result");
    let r = gen(tuple((nyi, be_u8(x[1]))), Vec::new());
    vassert!(s, matches!(&r, Err(GenError::NotYetImplemented)), "shim cf tuple: a failing first component's error is the result");
}
harness!(shim_cf_bytes, unwind = 6, h_shim_cf_bytes);
harness!(shim_cf_tuple, unwind = 10, h_shim_cf_tuple);
harness!(leaf_ser_length_u24, unwind = 4, h_ser_length_u24);
harness!(leaf_ser_length_u16, unwind = 4, h_ser_length_u16);
harness!(leaf_ser_finished, unwind = 12, h_ser_opaque::<_, 0>);
harness!(leaf_ser_cke_unknown, unwind = 12, h_ser_opaque::<_, 1>);
harness!(leaf_ser_cke_dh, unwind = 12, h_ser_opaque::<_, 2>);
harness!(leaf_ser_cke_ecdh, unwind = 12, h_ser_opaque::<_, 3>);
harness!(fd_ser_hello_request, unwind = 12, h_ser_opaque::<_, 4>);
harness!(fd_ser_ccs, unwind = 4, h_ser_ccs);
harness!(leaf_ser_record_one, unwind = 12, h_ser_record::<_, false>);
harness!(leaf_ser_record_two, unwind = 14, h_ser_record::<_, true>);
harness!(fd_ser_unsupported_0, unwind = 4, h_ser_unsupported::<_, 0>);
harness!(fd_ser_unsupported_1, unwind = 4, h_ser_unsupported::<_, 1>);
harness!(fd_ser_unsupported_2, unwind = 4, h_ser_unsupported::<_, 2>);
harness!(fd_ser_unsupported_3, unwind = 4, h_ser_unsupported::<_, 3>);
harness!(fd_ser_unsupported_5, unwind = 4, h_ser_unsupported::<_, 5>);
harness!(fd_ser_unsupported_6, unwind = 4, h_ser_unsupported::<_, 6>);
harness!(fd_ser_unsupported_8, unwind = 4, h_ser_unsupported::<_, 8>);
harness!(fd_ser_unsupported_9, unwind = 4, h_ser_unsupported::<_, 9>);
harness!(fd_ser_unsupported_10, unwind = 4, h_ser_unsupported::<_, 10>);
harness!(leaf_ser_client_hello_min, unwind = 50, h_ser_hello::<_, 0, 0>);
harness!(leaf_ser_client_hello_full, unwind = 60, h_ser_hello::<_, 0, 1>);
harness!(leaf_ser_server_hello_min, unwind = 50, h_ser_hello::<_, 1, 0>);
harness!(leaf_ser_server_hello_full, unwind = 60, h_ser_hello::<_, 1, 1>);
harness!(leaf_ser_server_hello_d18_min, unwind = 50, h_ser_hello::<_, 2, 0>);
harness!(leaf_ser_server_hello_d18_full, unwind = 50, h_ser_hello::<_, 2, 1>);
harness!(leaf_ser_ext_sni, unwind = 14, h_ser_extensions::<_, 0>);
harness!(leaf_ser_ext_max_fragment_length, unwind = 10, h_ser_extensions::<_, 1>);
harness!(leaf_ser_ext_groups, unwind = 14, h_ser_extensions::<_, 2>);
