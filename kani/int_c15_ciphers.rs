// C15 — cipher_suites() / get_ciphers() / get_cipher() map each advertised id, in order, through
// TlsCipherSuiteID::get_ciphersuite (replaced here by a contract stub with a recognisable pattern); that
// get_ciphersuite is the registry lookup for every id is fd_route_get_ciphersuite / fd_from_id (C12).
use super::src::Src;
use super::tp;
use alloc::vec::Vec;
use tp::*;

/// stub: odd ids are "unlisted", even ids map to one fixed registry entry
pub fn stub_get_ciphersuite(id: TlsCipherSuiteID) -> Option<&'static TlsCipherSuite> {
    if id.0 & 1 == 1 { None } else { CIPHERS.get(&0x002fu16) }
}

fn matches_stub(x: Option<&'static TlsCipherSuite>, id: u16) -> bool {
    match (x, stub_get_ciphersuite(TlsCipherSuiteID(id))) {
        (None, None) => true,
        (Some(a), Some(b)) => core::ptr::eq(a, b),
        _ => false,
    }
}

pub fn h_ch_cipher_suites<S: Src>(s: &mut S) {
    let random = [0u8; 32];
    let c0 = s.u16();
    let c1 = s.u16();
    let mut ciphers = Vec::new();
    ciphers.push(TlsCipherSuiteID(c0));
    ciphers.push(TlsCipherSuiteID(c1));
    let tls = TlsClientHelloContents::new(0x0303, &random, None, ciphers.clone(), Vec::new(), None);
    let a = tls.cipher_suites();
    vassert!(s, a.len() == 2 && matches_stub(a[0], c0) && matches_stub(a[1], c1), "cipher_suites() maps each advertised id, in order, through the registry lookup");
    let b = tls.get_ciphers();
    vassert!(s, b.len() == 2 && matches_stub(b[0], c0) && matches_stub(b[1], c1), "get_ciphers() maps each advertised id, in order, through the registry lookup");
    let d = DTLSClientHello { version: TlsVersion(0xfefd), random: &random, session_id: None, cookie: &random[..0], ciphers, comp: Vec::new(), ext: None };
    let e = d.cipher_suites();
    vassert!(s, e.len() == 2 && matches_stub(e[0], c0) && matches_stub(e[1], c1), "DTLS cipher_suites() maps each advertised id, in order, through the registry lookup");
    let sh = TlsServerHelloContents::new(0x0303, &random, None, c0, 0, None);
    vassert!(s, matches_stub(sh.get_cipher(), c0), "get_cipher() maps the chosen id through the registry lookup");
}

harness!(mod_ch_cipher_suites, unwind = 5,
    stubs = [crate::tls_handshake::TlsCipherSuiteID::get_ciphersuite => stub_get_ciphersuite],
    h_ch_cipher_suites);
