// Reference readers used by the contracts: index-based, no nom.
use super::tp;
use tp::nom::error::ErrorKind;
use tp::nom::{Err, IResult, Needed};

#[inline(always)]
pub fn be16(i: &[u8], o: usize) -> u16 { ((i[o] as u16) << 8) | (i[o + 1] as u16) }
#[inline(always)]
pub fn be24(i: &[u8], o: usize) -> u32 { ((i[o] as u32) << 16) | ((i[o + 1] as u32) << 8) | (i[o + 2] as u32) }
#[inline(always)]
pub fn be32(i: &[u8], o: usize) -> u32 {
    ((i[o] as u32) << 24) | ((i[o + 1] as u32) << 16) | ((i[o + 2] as u32) << 8) | (i[o + 3] as u32)
}
#[inline(always)]
pub fn be64(i: &[u8], o: usize) -> u64 { ((be32(i, o) as u64) << 32) | (be32(i, o + 4) as u64) }

/// `s` is exactly the sub-slice i[off .. off+len] of the caller's buffer (same memory, no copy)
#[inline(always)]
pub fn is_sub(i: &[u8], s: &[u8], off: usize, len: usize) -> bool {
    off <= i.len() && len <= i.len() - off && s.len() == len && s.as_ptr() == i[off..].as_ptr()
}
/// remainder is the suffix of `i` starting at `off`
#[inline(always)]
pub fn is_suffix(i: &[u8], rem: &[u8], off: usize) -> bool {
    off <= i.len() && is_sub(i, rem, off, i.len() - off)
}
/// `s` lies inside i[lo..hi] (aliasing, any offset)
#[inline(always)]
pub fn within(i: &[u8], s: &[u8], lo: usize, hi: usize) -> bool {
    if s.is_empty() { return true; }
    let base = i.as_ptr() as usize;
    let p = s.as_ptr() as usize;
    hi <= i.len() && lo <= hi && p >= base + lo && p + s.len() <= base + hi
}

#[derive(Clone, Copy, PartialEq, Eq, Debug)]
pub enum Class { Ok, Incomplete, Error, Failure }

pub fn class_of<T>(r: &IResult<&[u8], T>) -> Class {
    match r {
        Ok(_) => Class::Ok,
        Err(Err::Incomplete(_)) => Class::Incomplete,
        Err(Err::Error(_)) => Class::Error,
        Err(Err::Failure(_)) => Class::Failure,
    }
}
pub fn err_kind<T>(r: &IResult<&[u8], T>) -> Option<ErrorKind> {
    match r {
        Err(Err::Error(e)) | Err(Err::Failure(e)) => Some(e.code),
        _ => None,
    }
}
pub fn needed_size<T>(r: &IResult<&[u8], T>) -> Option<usize> {
    match r {
        Err(Err::Incomplete(Needed::Size(n))) => Some(n.get()),
        _ => None,
    }
}
pub fn is_incomplete<T>(r: &IResult<&[u8], T>) -> bool { matches!(r, Err(Err::Incomplete(_))) }
