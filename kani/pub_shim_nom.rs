// Obligations that discharge the nom shim contracts ASSUMED by the Verus units
// (/verif/verus/shim_nom.rs): the REAL nom 7.1.3 items against the same statements.
use super::src::Src;
use super::tp;
use super::util::*;
use alloc::vec::Vec;
use tp::nom::bytes::streaming::take;
use tp::nom::combinator::complete;
use tp::nom::error::{make_error, Error, ErrorKind};
use tp::nom::multi::{length_data, many0, many1};
use tp::nom::number::streaming::{be_u16, be_u24, be_u32, be_u8};
use tp::nom::{Err, IResult, Needed};

type R<'a, T> = IResult<&'a [u8], T>;

// ---------------------------------------------------------------- take_post
pub fn h_shim_take<S: Src, const N: usize>(s: &mut S) {
    let buf: [u8; N] = s.bytes();
    let n = s.usize();
    vassume!(s, n <= N);
    let count = s.usize(); // full domain
    let i = &buf[..n];
    let r: R<&[u8]> = take(count)(i);
    if n >= count {
        match &r {
            Ok((rem, out)) => vassert!(s, is_suffix(i, rem, count) && is_sub(i, out, 0, count), "shim take: Ok((i[count..], i[..count])) when enough bytes"),
            Err(_) => vassert!(s, false, "shim take: enough bytes => Ok"),
        }
    } else {
        vassert!(s, needed_size(&r) == Some(count - n), "shim take: Incomplete(Size(count - len)) otherwise");
    }
}

// ---------------------------------------------------------------- be_post (w = 1, 2, 3, 4)
pub fn h_shim_be<S: Src>(s: &mut S) {
    let buf: [u8; 6] = s.bytes();
    let n = s.usize();
    vassume!(s, n <= 6);
    let i = &buf[..n];
    let r1: R<u8> = be_u8(i);
    let r2: R<u16> = be_u16(i);
    let r3: R<u32> = be_u24(i);
    let r4: R<u32> = be_u32(i);
    if n >= 1 { vassert!(s, matches!(&r1, Ok((rem, v)) if *v == i[0] && is_suffix(i, rem, 1)), "shim be_u8: value and consumption"); }
    else { vassert!(s, needed_size(&r1) == Some(1), "shim be_u8: Incomplete(Size(1 - len))"); }
    if n >= 2 { vassert!(s, matches!(&r2, Ok((rem, v)) if *v == be16(i, 0) && is_suffix(i, rem, 2)), "shim be_u16: big-endian value and consumption"); }
    else { vassert!(s, needed_size(&r2) == Some(2 - n), "shim be_u16: Incomplete(Size(2 - len))"); }
    if n >= 3 { vassert!(s, matches!(&r3, Ok((rem, v)) if *v == be24(i, 0) && is_suffix(i, rem, 3)), "shim be_u24: big-endian value and consumption"); }
    else { vassert!(s, needed_size(&r3) == Some(3 - n), "shim be_u24: Incomplete(Size(3 - len))"); }
    if n >= 4 { vassert!(s, matches!(&r4, Ok((rem, v)) if *v == be32(i, 0) && is_suffix(i, rem, 4)), "shim be_u32: big-endian value and consumption"); }
    else { vassert!(s, needed_size(&r4) == Some(4 - n), "shim be_u32: Incomplete(Size(4 - len))"); }
}
pub fn h_shim_be64<S: Src>(s: &mut S) {
    use tp::nom::number::streaming::be_u64;
    let buf: [u8; 10] = s.bytes();
    let n = s.usize();
    vassume!(s, n <= 10);
    let i = &buf[..n];
    let r: R<u64> = be_u64(i);
    if n >= 8 {
        let exp = ((be32(i, 0) as u64) << 32) | (be32(i, 4) as u64);
        vassert!(s, matches!(&r, Ok((rem, v)) if *v == exp && is_suffix(i, rem, 8)), "shim be_u64: big-endian value and consumption");
    } else { vassert!(s, needed_size(&r) == Some(8 - n), "shim be_u64: Incomplete(Size(8 - len))"); }
}

// ---------------------------------------------------------------- length_data_post
pub fn h_shim_length_data<S: Src, const N: usize>(s: &mut S) {
    let buf: [u8; N] = s.bytes();
    let n = s.usize();
    vassume!(s, n <= N);
    let i = &buf[..n];
    // u8 prefix
    let r: R<&[u8]> = length_data(be_u8)(i);
    if n < 1 { vassert!(s, needed_size(&r) == Some(1), "shim length_data(u8): prefix parser's Incomplete is passed through"); }
    else {
        let l = i[0] as usize;
        if n - 1 >= l { vassert!(s, matches!(&r, Ok((rem, out)) if is_sub(i, out, 1, l) && is_suffix(i, rem, 1 + l)), "shim length_data(u8): take(len) after the prefix"); }
        else { vassert!(s, needed_size(&r) == Some(l - (n - 1)), "shim length_data(u8): Incomplete(Size(len - rest))"); }
    }
    // u16 prefix
    let r: R<&[u8]> = length_data(be_u16)(i);
    if n < 2 { vassert!(s, needed_size(&r) == Some(2 - n), "shim length_data(u16): prefix parser's Incomplete is passed through"); }
    else {
        let l = be16(i, 0) as usize;
        if n - 2 >= l { vassert!(s, matches!(&r, Ok((rem, out)) if is_sub(i, out, 2, l) && is_suffix(i, rem, 2 + l)), "shim length_data(u16): take(len) after the prefix"); }
        else { vassert!(s, needed_size(&r) == Some(l - (n - 2)), "shim length_data(u16): Incomplete(Size(len - rest))"); }
    }
    // u24 prefix
    let r: R<&[u8]> = length_data(be_u24)(i);
    if n < 3 { vassert!(s, needed_size(&r) == Some(3 - n), "shim length_data(u24): prefix parser's Incomplete is passed through"); }
    else {
        let l = be24(i, 0) as usize;
        if n - 3 >= l { vassert!(s, matches!(&r, Ok((rem, out)) if is_sub(i, out, 3, l) && is_suffix(i, rem, 3 + l)), "shim length_data(u24): take(len) after the prefix"); }
        else { vassert!(s, needed_size(&r) == Some(l - (n - 3)), "shim length_data(u24): Incomplete(Size(len - rest))"); }
    }
}

// ---------------------------------------------------------------- a cheap element parser exercising every outcome
pub fn elem(i: &[u8]) -> IResult<&[u8], u8> {
    if i.is_empty() { return Err(Err::Incomplete(Needed::new(1))); }
    match i[0] {
        0xff => Err(Err::Error(make_error(i, ErrorKind::Tag))),
        0xfe => Err(Err::Failure(make_error(i, ErrorKind::Tag))),
        0xfd => Ok((i, 0xfd)), // succeeds without consuming
        0xfc => if i.len() < 2 { Err(Err::Incomplete(Needed::new(1))) } else { Ok((&i[2..], i[1])) },
        b => Ok((&i[1..], b)),
    }
}

pub fn h_shim_complete<S: Src>(s: &mut S) {
    let buf: [u8; 3] = s.bytes();
    let n = s.usize();
    vassume!(s, n <= 3);
    let i = &buf[..n];
    let r0 = elem(i);
    let r = complete(elem)(i);
    match &r0 {
        Err(Err::Incomplete(_)) => vassert!(s, matches!(&r, Err(Err::Error(e)) if e.code == ErrorKind::Complete && is_suffix(i, e.input, 0)), "shim complete: Incomplete -> Error{input: i, code: Complete}"),
        _ => vassert!(s, r == r0, "shim complete: every other result is passed through"),
    }
}

/// the explicit loop of the shim contract (loop_from / many1_post / many0_post), run in Rust
#[derive(PartialEq, Debug)]
pub enum LoopOut { Ok(usize, [u8; 8], usize), Incomplete, Failure(usize), NoProgress(usize), FirstError(usize) }

pub fn ref_loop(i: &[u8], mut o: usize, at_least_one: bool, complete_it: bool) -> LoopOut {
    let mut acc = [0u8; 8];
    let mut k = 0usize;
    let mut first = true;
    loop {
        let r = elem(&i[o..]);
        let r = if complete_it { match r { Err(Err::Incomplete(_)) => Err(Err::Error(Error { input: &i[o..], code: ErrorKind::Complete })), x => x } } else { r };
        match r {
            Err(Err::Error(_)) => {
                if first && at_least_one { return LoopOut::FirstError(o); }
                return LoopOut::Ok(o, acc, k);
            }
            Err(Err::Incomplete(_)) => return LoopOut::Incomplete,
            Err(Err::Failure(_)) => return LoopOut::Failure(o),
            Ok((rem, v)) => {
                let o2 = i.len() - rem.len();
                if o2 == o && !(first && at_least_one) { return LoopOut::NoProgress(o); }
                acc[k] = v;
                k += 1;
                o = o2;
            }
        }
        first = false;
    }
}

pub fn same_as_loop(i: &[u8], r: &IResult<&[u8], Vec<u8>>, want: &LoopOut, code: ErrorKind) -> bool {
    match (r, want) {
        (Ok((rem, v)), LoopOut::Ok(o, acc, k)) => {
            if !(is_suffix(i, rem, *o) && v.len() == *k) { return false; }
            let mut j = 0;
            while j < *k { if v[j] != acc[j] { return false; } j += 1; }
            true
        }
        (Err(Err::Incomplete(_)), LoopOut::Incomplete) => true,
        (Err(Err::Failure(e)), LoopOut::Failure(o)) => is_suffix(i, e.input, *o),
        (Err(Err::Error(e)), LoopOut::NoProgress(o)) => e.code == code && is_suffix(i, e.input, *o),
        (Err(Err::Error(e)), LoopOut::FirstError(o)) => is_suffix(i, e.input, *o) && e.code != ErrorKind::Many1,
        _ => false,
    }
}

pub fn h_shim_many1<S: Src, const N: usize>(s: &mut S) {
    let buf: [u8; N] = s.bytes();
    let n = s.usize();
    vassume!(s, n <= N);
    let i = &buf[..n];
    let want = ref_loop(i, 0, true, true);
    let r = many1(complete(elem))(i);
    vcover!(s, matches!(want, LoopOut::Ok(_, _, 3)), "three elements reached");
    vcover!(s, matches!(want, LoopOut::NoProgress(_)), "no-progress error reached");
    vcover!(s, matches!(want, LoopOut::FirstError(_)), "first element fails reached");
    vcover!(s, matches!(want, LoopOut::Failure(_)), "failure propagated reached");
    vassert!(s, same_as_loop(i, &r, &want, ErrorKind::Many1), "shim many1(complete(p)): equals the explicit accumulate-while-Ok loop (many1_post)");
    // streaming variant (no complete): Incomplete from the element is propagated
    let want2 = ref_loop(i, 0, true, false);
    let r2 = many1(elem)(i);
    vassert!(s, same_as_loop(i, &r2, &want2, ErrorKind::Many1), "shim many1(p): equals the explicit loop, Incomplete propagated");
}

pub fn h_shim_many0<S: Src, const N: usize>(s: &mut S) {
    let buf: [u8; N] = s.bytes();
    let n = s.usize();
    vassume!(s, n <= N);
    let i = &buf[..n];
    let want = ref_loop(i, 0, false, true);
    let r = many0(complete(elem))(i);
    vcover!(s, matches!(want, LoopOut::Ok(_, _, 0)), "empty list reached");
    vcover!(s, matches!(want, LoopOut::Ok(_, _, 3)), "three elements reached");
    vcover!(s, matches!(want, LoopOut::NoProgress(_)), "no-progress error reached");
    vassert!(s, same_as_loop(i, &r, &want, ErrorKind::Many0), "shim many0(complete(p)): equals the explicit accumulate-while-Ok loop (many0_post)");
}

// ---------------------------------------------------------------- map_parser
pub fn h_shim_map_parser<S: Src, const N: usize>(s: &mut S) {
    use tp::nom::combinator::map_parser;
    let buf: [u8; N] = s.bytes();
    let n = s.usize();
    vassume!(s, n <= N);
    let count = s.usize();
    let i = &buf[..n];
    let r: R<u8> = map_parser(take(count), elem)(i);
    if n < count { vassert!(s, needed_size(&r) == Some(count - n), "shim map_parser: outer Incomplete is propagated"); return; }
    let inner = elem(&i[..count]);
    match (&inner, &r) {
        (Ok((_, v)), Ok((rem, w))) => vassert!(s, v == w && is_suffix(i, rem, count), "shim map_parser: outer remainder kept, inner remainder dropped, inner value returned"),
        (Err(e), Err(f)) => vassert!(s, e == f, "shim map_parser: inner error propagated unchanged (inner sees exactly the outer output)"),
        _ => vassert!(s, false, "shim map_parser: result class is the inner parser's"),
    }
}

// ---------------------------------------------------------------- opt / cond / map
pub fn h_shim_opt_cond<S: Src>(s: &mut S) {
    use tp::nom::combinator::{cond, map, opt};
    let buf: [u8; 3] = s.bytes();
    let n = s.usize();
    vassume!(s, n <= 3);
    let b = s.bool();
    let i = &buf[..n];
    let r0 = elem(i);
    let r = opt(elem)(i);
    match (&r0, &r) {
        (Ok((rem0, v0)), Ok((rem, Some(v)))) => vassert!(s, v == v0 && rem.as_ptr() == rem0.as_ptr() && rem.len() == rem0.len(), "shim opt: Ok is wrapped in Some, remainder unchanged"),
        (Err(Err::Error(_)), Ok((rem, None))) => vassert!(s, is_suffix(i, rem, 0), "shim opt: Error -> Ok((input, None)), nothing consumed"),
        (Err(Err::Incomplete(_)), Err(Err::Incomplete(_))) | (Err(Err::Failure(_)), Err(Err::Failure(_))) => {}
        _ => vassert!(s, false, "shim opt: Incomplete and Failure are propagated, everything else as above"),
    }
    let c = cond(b, elem)(i);
    if b {
        match (&r0, &c) {
            (Ok((rem0, v0)), Ok((rem, Some(v)))) => vassert!(s, v == v0 && rem.len() == rem0.len(), "shim cond(true): Ok wrapped in Some"),
            (Err(e0), Err(e)) => vassert!(s, e0 == e, "shim cond(true): errors propagated unchanged"),
            _ => vassert!(s, false, "shim cond(true): same class as the inner parser"),
        }
    } else {
        vassert!(s, matches!(&c, Ok((rem, None)) if is_suffix(i, rem, 0)), "shim cond(false): Ok((input, None))");
    }
    let m = map(elem, |x: u8| x as u16 + 1)(i);
    match (&r0, &m) {
        (Ok((rem0, v0)), Ok((rem, v))) => vassert!(s, *v == *v0 as u16 + 1 && rem.len() == rem0.len(), "shim map: function applied to the output, remainder unchanged"),
        (Err(e0), Err(e)) => vassert!(s, e0 == e, "shim map: errors propagated unchanged"),
        _ => vassert!(s, false, "shim map: same class as the inner parser"),
    }
}
// ---------------------------------------------------------------- pair
pub fn h_shim_pair<S: Src, const N: usize>(s: &mut S) {
    use tp::nom::sequence::pair;
    let buf: [u8; N] = s.bytes();
    let n = s.usize();
    vassume!(s, n <= N);
    let i = &buf[..n];
    let r: R<(u8, u8)> = pair(elem, elem)(i);
    match elem(i) {
        Err(e1) => match &r { Err(e) => vassert!(s, *e == e1, "shim pair: the first parser's error is propagated unchanged"), _ => vassert!(s, false, "shim pair: first parser failed, so pair fails") },
        Ok((rem1, o1)) => match (elem(rem1), &r) {
            (Ok((rem2, o2)), Ok((rem, (a, b)))) => vassert!(s, *a == o1 && *b == o2 && rem.as_ptr() == rem2.as_ptr() && rem.len() == rem2.len(), "shim pair: both outputs in order, second parser runs on the first's remainder, its remainder returned"),
            (Err(e2), Err(e)) => vassert!(s, *e == e2, "shim pair: the second parser's error is propagated unchanged"),
            _ => vassert!(s, false, "shim pair: result class is the second parser's on the first's remainder"),
        },
    }
}
// ---------------------------------------------------------------- verify
pub fn h_shim_verify<S: Src, const N: usize>(s: &mut S) {
    use tp::nom::combinator::verify;
    let buf: [u8; N] = s.bytes();
    let n = s.usize();
    vassume!(s, n <= N);
    let lim: u8 = s.u8();
    let i = &buf[..n];
    let r: R<u8> = verify(elem, |&v: &u8| v <= lim)(i);
    match (elem(i), &r) {
        (Err(e1), Err(e)) => vassert!(s, *e == e1, "shim verify: the parser's error is propagated unchanged"),
        (Ok((rem1, o1)), Ok((rem, o))) => vassert!(s, o1 <= lim && *o == o1 && rem.as_ptr() == rem1.as_ptr() && rem.len() == rem1.len(), "shim verify: predicate true => the parser's Ok unchanged"),
        (Ok((_, o1)), Err(Err::Error(e))) => vassert!(s, o1 > lim && e.code == ErrorKind::Verify && e.input.as_ptr() == i.as_ptr() && e.input.len() == i.len(), "shim verify: predicate false => Error(Verify) at the original input"),
        _ => vassert!(s, false, "shim verify: result class follows the parser and the predicate"),
    }
}
// ---------------------------------------------------------------- length_count / alt
pub fn h_shim_length_count<S: Src, const N: usize>(s: &mut S) {
    use tp::nom::multi::length_count;
    let buf: [u8; N] = s.bytes();
    let n = s.usize();
    vassume!(s, n <= N);
    let i = &buf[..n];
    // count parser: counts 0..3 (keeps the loop within the unwinding bound), every error class
    fn cnt(i: &[u8]) -> IResult<&[u8], u8> {
        match elem(i) { Ok((rem, v)) => Ok((rem, v & 3)), Err(e) => Err(e) }
    }
    let r: R<Vec<u8>> = length_count(cnt, elem)(i);
    // reference: the explicit count loop
    let exp: R<Vec<u8>> = match cnt(i) {
        Err(e) => Err(e),
        Ok((mut cur, cnt)) => {
            let mut acc: Vec<u8> = Vec::new();
            let mut out: Option<R<Vec<u8>>> = None;
            let mut k = 0usize;
            while k < cnt as usize {
                match elem(cur) { Ok((nx, o)) => { acc.push(o); cur = nx; } Err(e) => { out = Some(Err(e)); break; } }
                k += 1;
            }
            match out { Some(e) => e, None => Ok((cur, acc)) }
        }
    };
    match (&exp, &r) {
        (Ok((rem0, v0)), Ok((rem, v))) => vassert!(s, v0 == v && rem.as_ptr() == rem0.as_ptr() && rem.len() == rem0.len(), "shim length_count: exactly count elements in order, remainder after the last"),
        (Err(e0), Err(e)) => vassert!(s, e0 == e, "shim length_count: the first error of the count or element parser is returned unchanged"),
        _ => vassert!(s, false, "shim length_count: result class is that of the explicit count loop"),
    }
}
pub fn h_shim_alt<S: Src, const N: usize>(s: &mut S) {
    use tp::nom::branch::alt;
    use tp::nom::combinator::complete;
    let buf: [u8; N] = s.bytes();
    let n = s.usize();
    vassume!(s, n <= N);
    let i = &buf[..n];
    fn second(i: &[u8]) -> IResult<&[u8], u8> {
        if i.len() < 2 { return Err(Err::Incomplete(Needed::new(2 - i.len()))); }
        if i[1] == 0xff { return Err(Err::Error(make_error(i, ErrorKind::Digit))); }
        Ok((&i[2..], i[1]))
    }
    let r: R<u8> = alt((elem, second))(i);
    let exp: R<u8> = match elem(i) { Err(Err::Error(_)) => second(i), x => x };
    match (&exp, &r) {
        (Ok((rem0, v0)), Ok((rem, v))) => vassert!(s, v0 == v && rem.as_ptr() == rem0.as_ptr() && rem.len() == rem0.len(), "shim alt: first branch unless it is Error, then the second branch"),
        (Err(e0), Err(e)) => vassert!(s, e0 == e, "shim alt: Incomplete/Failure of the first branch returned at once; both Error => the second branch's error"),
        _ => vassert!(s, false, "shim alt: result class"),
    }
    let _ = complete(elem);
}
harness!(shim_length_count, unwind = 7, h_shim_length_count::<_, 4>);
harness!(shim_alt, unwind = 6, h_shim_alt::<_, 4>);
// ---------------------------------------------------------------- tag (2 bytes)
pub fn h_shim_tag<S: Src>(s: &mut S) {
    use tp::nom::bytes::streaming::tag;
    let buf: [u8; 4] = s.bytes();
    let n = s.usize();
    vassume!(s, n <= 4);
    let t: [u8; 2] = s.bytes();
    let i = &buf[..n];
    let r: R<&[u8]> = tag(t)(i);
    if (n >= 1 && i[0] != t[0]) || (n >= 2 && i[1] != t[1]) {
        vassert!(s, matches!(&r, Err(Err::Error(e)) if e.code == ErrorKind::Tag && e.input.as_ptr() == i.as_ptr() && e.input.len() == n), "shim tag: a mismatch in the common prefix is Error(Tag) at the input, even when the input is short");
    } else if n < 2 {
        vassert!(s, needed_size(&r) == Some(2 - n), "shim tag: matching but short input => Incomplete(Size(missing))");
    } else {
        vassert!(s, matches!(&r, Ok((rem, out)) if is_sub(i, out, 0, 2) && is_suffix(i, rem, 2)), "shim tag: match => the two bytes, remainder after them");
    }
}
harness!(shim_tag, unwind = 5, h_shim_tag);
harness!(shim_verify, unwind = 6, h_shim_verify::<_, 4>);
harness!(shim_pair, unwind = 6, h_shim_pair::<_, 4>);
harness!(shim_opt_cond, unwind = 6, h_shim_opt_cond);
harness!(shim_map_parser, unwind = 6, h_shim_map_parser::<_, 5>);
harness!(shim_take, unwind = 3, h_shim_take::<_, 6>);
harness!(shim_be, unwind = 6, h_shim_be);
harness!(shim_be64, unwind = 10, h_shim_be64);
harness!(shim_length_data, unwind = 5, h_shim_length_data::<_, 6>);
harness!(shim_complete, unwind = 6, h_shim_complete);
harness!(shim_many1, unwind = 7, h_shim_many1::<_, 4>);
harness!(shim_many0, unwind = 7, h_shim_many0::<_, 4>);
