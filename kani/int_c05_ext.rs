// C05 / C01 — crate-private extension content parsers (reached through the cfg(kani) accessors).
use super::src::Src;
use super::tp;
use super::util::*;
use super::pub_c05_ext::inp;
use alloc::vec::Vec;
use crate::tls_extensions::verif_access as xa;
use tp::nom::error::ErrorKind;
use tp::nom::{Err, IResult};
use tp::*;

#[derive(Clone, Copy)]
pub enum OpaqueExt { SessionTicket, KeyShareOld, KeyShare, PreSharedKey, Cookie, Padding }

/// contents that are `take(ext_len)` under a fixed variant; ext_len: u16 full domain
pub fn h_ext_opaque<S: Src>(s: &mut S, which: OpaqueExt) {
    let (buf, n) = inp::<S, 6>(s);
    let ext_len = s.u16();
    let i = &buf[..n];
    let r = match which {
        OpaqueExt::SessionTicket => xa::session_ticket_content(i, ext_len),
        OpaqueExt::KeyShareOld => xa::key_share_old_content(i, ext_len),
        OpaqueExt::KeyShare => xa::key_share_content(i, ext_len),
        OpaqueExt::PreSharedKey => xa::pre_shared_key_content(i, ext_len),
        OpaqueExt::Cookie => xa::cookie_content(i, ext_len),
        OpaqueExt::Padding => xa::padding_content(i, ext_len),
    };
    let l = ext_len as usize;
    if n < l { vassert!(s, needed_size(&r) == Some(l - n), "opaque ext content: shorter than ext_len => Incomplete(missing)"); return; }
    match &r {
        Ok((rem, e)) => {
            let d: Option<&[u8]> = match (which, e) {
                (OpaqueExt::SessionTicket, TlsExtension::SessionTicket(d)) => Some(d),
                (OpaqueExt::KeyShareOld, TlsExtension::KeyShareOld(d)) => Some(d),
                (OpaqueExt::KeyShare, TlsExtension::KeyShare(d)) => Some(d),
                (OpaqueExt::PreSharedKey, TlsExtension::PreSharedKey(d)) => Some(d),
                (OpaqueExt::Cookie, TlsExtension::Cookie(d)) => Some(d),
                (OpaqueExt::Padding, TlsExtension::Padding(d)) => Some(d),
                _ => None,
            };
            match d {
                Some(d) => vassert!(s, is_sub(i, d, 0, l) && is_suffix(i, rem, l), "opaque ext content: exactly ext_len bytes verbatim under its own variant"),
                None => vassert!(s, false, "opaque ext content: wrong variant"),
            }
        }
        Err(_) => vassert!(s, false, "opaque ext content: enough bytes => Ok"),
    }
}
pub fn h_ext_session_ticket<S: Src>(s: &mut S) { h_ext_opaque(s, OpaqueExt::SessionTicket) }
pub fn h_ext_key_share_old<S: Src>(s: &mut S) { h_ext_opaque(s, OpaqueExt::KeyShareOld) }
pub fn h_ext_key_share<S: Src>(s: &mut S) { h_ext_opaque(s, OpaqueExt::KeyShare) }
pub fn h_ext_pre_shared_key<S: Src>(s: &mut S) { h_ext_opaque(s, OpaqueExt::PreSharedKey) }
pub fn h_ext_cookie<S: Src>(s: &mut S) { h_ext_opaque(s, OpaqueExt::Cookie) }
pub fn h_ext_padding<S: Src>(s: &mut S) { h_ext_opaque(s, OpaqueExt::Padding) }

#[derive(Clone, Copy)]
pub enum EmptyExt { Etm, Ems, Pha, Npn }

/// extensions defined as empty: rejected when they carry data; all 65536 ext_len values
pub fn h_ext_must_be_empty<S: Src>(s: &mut S, which: EmptyExt) {
    let (buf, n) = inp::<S, 3>(s);
    let ext_len = s.u16();
    let i = &buf[..n];
    let r = match which {
        EmptyExt::Etm => xa::encrypt_then_mac_content(i, ext_len),
        EmptyExt::Ems => xa::extended_master_secret_content(i, ext_len),
        EmptyExt::Pha => xa::post_handshake_auth_content(i, ext_len),
        EmptyExt::Npn => xa::npn_content(i, ext_len),
    };
    if ext_len != 0 { vassert!(s, class_of(&r) == Class::Error, "empty-by-definition extension: rejected when it carries data"); return; }
    let ok = match (&r, which) {
        (Ok((rem, TlsExtension::EncryptThenMac)), EmptyExt::Etm) => is_suffix(i, rem, 0),
        (Ok((rem, TlsExtension::ExtendedMasterSecret)), EmptyExt::Ems) => is_suffix(i, rem, 0),
        (Ok((rem, TlsExtension::PostHandshakeAuth)), EmptyExt::Pha) => is_suffix(i, rem, 0),
        (Ok((rem, TlsExtension::NextProtocolNegotiation)), EmptyExt::Npn) => is_suffix(i, rem, 0),
        _ => false,
    };
    vassert!(s, ok, "empty-by-definition extension: length 0 => Ok(its own variant), nothing consumed");
}
pub fn h_ext_etm<S: Src>(s: &mut S) { h_ext_must_be_empty(s, EmptyExt::Etm) }
pub fn h_ext_ems<S: Src>(s: &mut S) { h_ext_must_be_empty(s, EmptyExt::Ems) }
pub fn h_ext_pha<S: Src>(s: &mut S) { h_ext_must_be_empty(s, EmptyExt::Pha) }
pub fn h_ext_npn<S: Src>(s: &mut S) { h_ext_must_be_empty(s, EmptyExt::Npn) }

pub fn h_ext_status_request<S: Src>(s: &mut S) {
    let (buf, n) = inp::<S, 6>(s);
    let ext_len = s.u16();
    let i = &buf[..n];
    let r = xa::status_request_content(i, ext_len);
    if ext_len == 0 {
        vassert!(s, matches!(&r, Ok((rem, TlsExtension::StatusRequest(None))) if is_suffix(i, rem, 0)), "status_request: empty extension => StatusRequest(None)");
        return;
    }
    let l = ext_len as usize;
    if n < l { vassert!(s, r.is_err(), "status_request: shorter than ext_len => no value"); return; }
    vassert!(s, matches!(&r, Ok((rem, TlsExtension::StatusRequest(Some((t, d))))) if t.0 == i[0] && is_sub(i, d, 1, l - 1) && is_suffix(i, rem, l)),
             "status_request: status type == byte 0 (any value), request = the remaining ext_len-1 bytes");
}

pub fn h_ext_early_data<S: Src>(s: &mut S) {
    let (buf, n) = inp::<S, 6>(s);
    let ext_len = s.u16();
    let i = &buf[..n];
    let r = xa::early_data_content(i, ext_len);
    if ext_len == 0 { vassert!(s, matches!(&r, Ok((rem, TlsExtension::EarlyData(None))) if is_suffix(i, rem, 0)), "early_data: empty => EarlyData(None)"); return; }
    if n < 4 { vassert!(s, r.is_err(), "early_data: fewer than 4 bytes => no value"); return; }
    vassert!(s, matches!(&r, Ok((rem, TlsExtension::EarlyData(Some(v)))) if *v == be32(i, 0) && is_suffix(i, rem, 4)), "early_data: max_early_data_size == be32(bytes 0..4)");
}

pub fn h_ext_record_size_limit<S: Src>(s: &mut S) {
    let (buf, n) = inp::<S, 4>(s);
    let i = &buf[..n];
    let r = xa::record_size_limit(i);
    if n < 2 { vassert!(s, is_incomplete(&r), "record_size_limit: fewer than 2 bytes => no value"); return; }
    vassert!(s, matches!(&r, Ok((rem, TlsExtension::RecordSizeLimit(v))) if *v == be16(i, 0) && is_suffix(i, rem, 2)), "record_size_limit: be16 value (any value)");
}

pub fn h_ext_supported_versions<S: Src, const N: usize>(s: &mut S) {
    let (buf, n) = inp::<S, N>(s);
    let ext_len = s.u16();
    let i = &buf[..n];
    let r = xa::supported_versions_content(i, ext_len);
    let l = ext_len as usize;
    if ext_len == 2 {
        // ServerHello / HelloRetryRequest form: one selected version
        if n < 2 { vassert!(s, r.is_err(), "supported_versions(selected): truncated => no value"); return; }
        vassert!(s, matches!(&r, Ok((rem, TlsExtension::SupportedVersions(v))) if v.len() == 1 && v[0].0 == be16(i, 0) && is_suffix(i, rem, 2)), "supported_versions(selected): the single version exact (any value)");
        return;
    }
    if ext_len == 0 { vassert!(s, r.is_err(), "supported_versions: empty extension is rejected"); return; }
    if n < l { vassert!(s, r.is_err(), "supported_versions: shorter than ext_len => no value"); return; }
    // ClientHello form: u8 list length, then versions in the remaining ext_len-1 bytes
    if (l - 1) % 2 == 1 { vcover!(s, true, "odd version list reached"); vassert!(s, r.is_err(), "supported_versions: odd version list is rejected"); return; }
    match &r {
        Ok((rem, TlsExtension::SupportedVersions(v))) => {
            vassert!(s, v.len() == (l - 1) / 2 && is_suffix(i, rem, l), "supported_versions: one version per 2 bytes, exact consumption");
            let mut k = 0;
            while k < v.len() { vassert!(s, v[k].0 == be16(i, 1 + 2 * k), "supported_versions: k-th version exact, wire order (any value)"); k += 1; }
            vcover!(s, v.len() == 2, "two versions reached");
        }
        _ => vassert!(s, false, "supported_versions: well-formed => Ok(SupportedVersions)"),
    }
}

pub fn h_ext_oid_filters<S: Src, const N: usize>(s: &mut S) {
    let (buf, n) = inp::<S, N>(s);
    let i = &buf[..n];
    let r = xa::oid_filters(i);
    if n < 2 || n - 2 < be16(i, 0) as usize { vassert!(s, r.is_err(), "oid_filters: list longer than the data => no value"); return; }
    let l = be16(i, 0) as usize;
    match &r {
        Ok((rem, TlsExtension::OidFilters(v))) => {
            vassert!(s, is_suffix(i, rem, 2 + l), "oid_filters: exact consumption");
            let end = 2 + l;
            let mut o = 2;
            let mut k = 0;
            loop {
                if o + 1 > end { break; }
                let ol = i[o] as usize;
                if o + 1 + ol + 2 > end { break; }
                let vl = be16(i, o + 1 + ol) as usize;
                if o + 1 + ol + 2 + vl > end { break; }
                vassert!(s, k < v.len() && is_sub(i, v[k].cert_ext_oid, o + 1, ol) && is_sub(i, v[k].cert_ext_val, o + 3 + ol, vl), "oid_filters: k-th (oid, value) pair verbatim, in order");
                o += 3 + ol + vl;
                k += 1;
            }
            vassert!(s, k == v.len(), "oid_filters: no extra entries");
            vcover!(s, k == 1, "one filter reached");
        }
        _ => vassert!(s, false, "oid_filters: well-formed => Ok(OidFilters)"),
    }
}

// ---------------------------------------------------------------- tag-specific parsers agree with the generic one
// The generic dispatcher cannot be executed by CBMC (memory, measured), but Verus proves (unit dispatch_ext) that
// for a known type T it is: frame (type, u16 length, data), run T's content parser on exactly `data` with
// ext_len = |data|, keep the outer remainder. The tag-specific parser is checked here against that same
// composition, built from the REAL content parser.
use super::pub_c05_ext::{run_tag, TagP};

pub fn content_of<'a>(which: TagP, d: &'a [u8], l: u16) -> IResult<&'a [u8], TlsExtension<'a>> {
    match which {
        TagP::Sni => parse_tls_extension_sni_content(d),
        TagP::MaxFrag => parse_tls_extension_max_fragment_length_content(d),
        TagP::StatusRequest => xa::status_request_content(d, l),
        TagP::Groups => parse_tls_extension_elliptic_curves_content(d),
        TagP::EcPointFormats => parse_tls_extension_ec_point_formats_content(d),
        TagP::SigAlgs => parse_tls_extension_signature_algorithms_content(d),
        TagP::Heartbeat => parse_tls_extension_heartbeat_content(d),
        TagP::Etm => xa::encrypt_then_mac_content(d, l),
        TagP::Ems => xa::extended_master_secret_content(d, l),
        TagP::SessionTicket => xa::session_ticket_content(d, l),
        TagP::KeyShare => xa::key_share_content(d, l),
        TagP::PreSharedKey => xa::pre_shared_key_content(d, l),
        TagP::EarlyData => xa::early_data_content(d, l),
        TagP::SupportedVersions => xa::supported_versions_content(d, l),
        TagP::Cookie => xa::cookie_content(d, l),
        TagP::PskModes => parse_tls_extension_psk_key_exchange_modes_content(d),
    }
}

pub fn h_tag_agrees<S: Src, const N: usize>(s: &mut S, which: TagP, tag: u16) {
    let mut buf: [u8; N] = s.bytes();
    buf[0] = (tag >> 8) as u8;
    buf[1] = tag as u8;
    let n = s.usize();
    vassume!(s, 2 <= n && n <= N);
    let i = &buf[..n];
    let r = run_tag(which, i);
    if n < 4 { vassert!(s, r.is_err(), "tag-specific parser: truncated length => no value"); return; }
    let l = be16(i, 2) as usize;
    if n - 4 < l { vassert!(s, r.is_err(), "tag-specific parser: length beyond the data never yields a value"); return; }
    let c = content_of(which, &i[4..4 + l], l as u16);
    vcover!(s, c.is_ok(), "accepted extension reached");
    if matches!(which, TagP::Heartbeat) && l != 1 {
        // kept under its own label: see known_findings.txt (the dedicated parser insists on length 1, RFC 6520)
        vassert!(s, r.is_ok() == c.is_ok(), "tag-specific heartbeat parser: accepts what the generic parser accepts when the extension length is not 1");
        return;
    }
    match (&r, &c) {
        (Ok((rem, e1)), Ok((_, e2))) => vassert!(s, e1 == e2 && is_suffix(i, rem, 4 + l), "tag-specific parser: on its own type, the generic parser's value and consumption (4 + length)"),
        (Err(_), Err(_)) => {}
        _ => vassert!(s, false, "tag-specific parser: accepts exactly what the generic parser accepts for its own type"),
    }
}

macro_rules! tag_agree_harnesses {
    ($($agr:ident, $f2:ident, $which:expr, $tag:expr;)*) => {
        $(
            pub fn $f2<S: Src>(s: &mut S) { h_tag_agrees::<S, 9>(s, $which, $tag) }
            harness!($agr, unwind = 8, $f2);
        )*
    };
}
tag_agree_harnesses! {
    rel_tag_sni, h_ta_sni, TagP::Sni, 0;
    rel_tag_max_fragment_length, h_ta_mfl, TagP::MaxFrag, 1;
    rel_tag_status_request, h_ta_sr, TagP::StatusRequest, 5;
    rel_tag_elliptic_curves, h_ta_ec, TagP::Groups, 10;
    rel_tag_ec_point_formats, h_ta_epf, TagP::EcPointFormats, 11;
    rel_tag_signature_algorithms, h_ta_sa, TagP::SigAlgs, 13;
    rel_tag_heartbeat, h_ta_hb, TagP::Heartbeat, 15;
    rel_tag_encrypt_then_mac, h_ta_etm, TagP::Etm, 22;
    rel_tag_extended_master_secret, h_ta_ems, TagP::Ems, 23;
    rel_tag_session_ticket, h_ta_st, TagP::SessionTicket, 35;
    rel_tag_pre_shared_key, h_ta_psk, TagP::PreSharedKey, 41;
    rel_tag_early_data, h_ta_ed, TagP::EarlyData, 42;
    rel_tag_supported_versions, h_ta_sv, TagP::SupportedVersions, 43;
    rel_tag_cookie, h_ta_ck, TagP::Cookie, 44;
    rel_tag_psk_key_exchange_modes, h_ta_pm, TagP::PskModes, 45;
    rel_tag_key_share, h_ta_ks, TagP::KeyShare, 51;
}

harness!(leaf_ext_session_ticket, unwind = 3, h_ext_session_ticket);
harness!(leaf_ext_key_share_old, unwind = 3, h_ext_key_share_old);
harness!(leaf_ext_key_share, unwind = 3, h_ext_key_share);
harness!(leaf_ext_pre_shared_key, unwind = 3, h_ext_pre_shared_key);
harness!(leaf_ext_cookie, unwind = 3, h_ext_cookie);
harness!(leaf_ext_padding, unwind = 3, h_ext_padding);
harness!(fd_ext_encrypt_then_mac, unwind = 3, h_ext_etm);
harness!(fd_ext_extended_master_secret, unwind = 3, h_ext_ems);
harness!(fd_ext_post_handshake_auth, unwind = 3, h_ext_pha);
harness!(fd_ext_npn, unwind = 3, h_ext_npn);
harness!(leaf_ext_status_request, unwind = 3, h_ext_status_request);
harness!(leaf_ext_early_data, unwind = 6, h_ext_early_data);
harness!(fd_ext_record_size_limit, unwind = 4, h_ext_record_size_limit);
harness!(leaf_ext_supported_versions, unwind = 6, h_ext_supported_versions::<_, 7>);
harness!(leaf_ext_oid_filters, unwind = 5, h_ext_oid_filters::<_, 9>);
