// C04 / C11 / C06 — handshake body parsers (public API) against reference decoders written from
// RFC 5246 7.4, RFC 8446 4, RFC 5077, RFC 6066. Index-based readers, pointer-identity for slices.
use super::src::Src;
use super::tp;
use super::util::*;
use alloc::vec::Vec;
use tp::nom::error::ErrorKind;
use tp::nom::{Err, IResult};
use tp::*;

// ---------------------------------------------------------------- opaque bodies: take(len)
#[derive(Clone, Copy)]
pub enum Opaque { ServerKeyExchange, ServerDone, CertificateVerify, ClientKeyExchange, Finished }

pub fn h_opaque_body<S: Src, const N: usize>(s: &mut S, which: Opaque) {
    let buf: [u8; N] = s.bytes();
    let n = s.usize();
    vassume!(s, n <= N);
    let len = s.usize(); // full domain
    let i = &buf[..n];
    let r = match which {
        Opaque::ServerKeyExchange => parse_tls_handshake_msg_serverkeyexchange(i, len),
        Opaque::ServerDone => parse_tls_handshake_msg_serverdone(i, len),
        Opaque::CertificateVerify => parse_tls_handshake_msg_certificateverify(i, len),
        Opaque::ClientKeyExchange => parse_tls_handshake_msg_clientkeyexchange(i, len),
        Opaque::Finished => parse_tls_handshake_msg_finished(i, len),
    };
    if len > n {
        vcover!(s, true, "body shorter than declared length reached");
        vassert!(s, is_incomplete(&r) && needed_size(&r) == Some(len - n), "opaque body: shorter than the declared length => Incomplete(missing)");
        return;
    }
    vcover!(s, len == 0, "empty opaque body reached");
    vcover!(s, len > 0 && len < n, "opaque body with trailing bytes reached");
    match &r {
        Ok((rem, m)) => {
            vassert!(s, is_suffix(i, rem, len), "opaque body: consumes exactly the declared length");
            let d: Option<&[u8]> = match (which, m) {
                (Opaque::ServerKeyExchange, TlsMessageHandshake::ServerKeyExchange(c)) => Some(c.parameters),
                (Opaque::ServerDone, TlsMessageHandshake::ServerDone(d)) => Some(d),
                (Opaque::CertificateVerify, TlsMessageHandshake::CertificateVerify(d)) => Some(d),
                (Opaque::ClientKeyExchange, TlsMessageHandshake::ClientKeyExchange(TlsClientKeyExchangeContents::Unknown(d))) => Some(d),
                (Opaque::Finished, TlsMessageHandshake::Finished(d)) => Some(d),
                _ => None,
            };
            match d {
                Some(d) => vassert!(s, is_sub(i, d, 0, len), "opaque body: bytes returned verbatim (zero-copy) under the right variant"),
                None => vassert!(s, false, "opaque body: wrong variant"),
            }
        }
        Err(_) => vassert!(s, false, "opaque body: enough bytes => Ok"),
    }
}
pub fn h_ske<S: Src>(s: &mut S) { h_opaque_body::<S, 6>(s, Opaque::ServerKeyExchange) }
pub fn h_serverdone<S: Src>(s: &mut S) { h_opaque_body::<S, 6>(s, Opaque::ServerDone) }
pub fn h_certverify<S: Src>(s: &mut S) { h_opaque_body::<S, 6>(s, Opaque::CertificateVerify) }
pub fn h_cke<S: Src>(s: &mut S) { h_opaque_body::<S, 6>(s, Opaque::ClientKeyExchange) }
pub fn h_finished<S: Src>(s: &mut S) { h_opaque_body::<S, 6>(s, Opaque::Finished) }

pub fn h_hello_request<S: Src>(s: &mut S) {
    let buf: [u8; 4] = s.bytes();
    let n = s.usize();
    vassume!(s, n <= 4);
    let i = &buf[..n];
    match parse_tls_handshake_msg_hello_request(i) {
        Ok((rem, TlsMessageHandshake::HelloRequest)) => vassert!(s, is_suffix(i, rem, 0), "hello_request: consumes nothing"),
        _ => vassert!(s, false, "hello_request: always Ok(HelloRequest)"),
    }
}

// ---------------------------------------------------------------- NewSessionTicket (RFC 5077)
pub fn h_newsessionticket<S: Src, const N: usize>(s: &mut S) {
    let buf: [u8; N] = s.bytes();
    let n = s.usize();
    vassume!(s, n <= N);
    let len = s.usize(); // full domain: the subtraction len-4 must never underflow
    let i = &buf[..n];
    let r = parse_tls_handshake_msg_newsessionticket(i, len);
    if len < 4 {
        vcover!(s, true, "ticket shorter than 4 bytes reached");
        vassert!(s, class_of(&r) == Class::Error, "new_session_ticket: shorter than 4 bytes is rejected");
        return;
    }
    if n < 4 || n < len {
        vassert!(s, r.is_err(), "new_session_ticket: truncated body never yields a value");
        return;
    }
    vcover!(s, len == 4, "ticket with empty opaque part reached");
    match &r {
        Ok((rem, TlsMessageHandshake::NewSessionTicket(t))) => {
            vassert!(s, t.ticket_lifetime_hint == be32(i, 0), "new_session_ticket: lifetime hint == be32(bytes 0..4)");
            vassert!(s, is_sub(i, t.ticket, 4, len - 4), "new_session_ticket: ticket is the remaining len-4 bytes");
            vassert!(s, is_suffix(i, rem, len), "new_session_ticket: consumes exactly len");
        }
        _ => vassert!(s, false, "new_session_ticket: well-formed => Ok"),
    }
}

// ---------------------------------------------------------------- optional trailing extension block
/// reference for `opt(complete(length_data(be_u16)))` at offset o: (ext offset/len if present, bytes consumed)
pub fn ref_opt_ext(i: &[u8], o: usize) -> (Option<(usize, usize)>, usize) {
    if i.len() >= o + 2 {
        let l = be16(i, o) as usize;
        if i.len() - (o + 2) >= l { return (Some((o + 2, l)), o + 2 + l); }
    }
    (None, o)
}
pub fn ext_matches(i: &[u8], got: Option<&[u8]>, want: Option<(usize, usize)>) -> bool {
    match (got, want) {
        (None, None) => true,
        (Some(g), Some((o, l))) => is_sub(i, g, o, l),
        _ => false,
    }
}

// ---------------------------------------------------------------- HelloRetryRequest
pub fn h_hello_retry_request<S: Src, const N: usize>(s: &mut S) {
    let buf: [u8; N] = s.bytes();
    let n = s.usize();
    vassume!(s, n <= N);
    let i = &buf[..n];
    let r = parse_tls_handshake_msg_hello_retry_request(i);
    if n < 4 { vassert!(s, r.is_err(), "hello_retry_request: truncated => no value"); return; }
    let (ext, used) = ref_opt_ext(i, 4);
    vcover!(s, ext.is_some(), "HRR with extensions reached");
    vcover!(s, ext.is_none() && n > 4, "HRR with malformed extension block reached");
    match &r {
        Ok((rem, TlsMessageHandshake::HelloRetryRequest(h))) => {
            vassert!(s, h.version.0 == be16(i, 0) && h.cipher.0 == be16(i, 2), "hello_retry_request: version and cipher are bytes 0..4 (any value)");
            vassert!(s, ext_matches(i, h.ext, ext), "hello_retry_request: extension block present iff well-formed, verbatim");
            vassert!(s, is_suffix(i, rem, used), "hello_retry_request: exact consumption");
        }
        _ => vassert!(s, false, "hello_retry_request: 4 bytes => Ok"),
    }
}

// ---------------------------------------------------------------- ServerHello family
/// body = version(2) random(32) sidlen(1) sid cipher(2) comp(1) [ext]; N >= 38
pub fn h_server_hello<S: Src, const N: usize, const MSG: bool>(s: &mut S) {
    let buf: [u8; N] = s.bytes();
    let n = s.usize();
    vassume!(s, n <= N);
    let i = &buf[..n];
    // run the variant under test
    enum Got<'a> { V12(TlsServerHelloContents<'a>), D18(TlsServerHelloV13Draft18Contents<'a>), Other }
    let r: IResult<&[u8], Got> = if MSG {
        parse_tls_handshake_msg_server_hello(i).map(|(rem, m)| (rem, match m {
            TlsMessageHandshake::ServerHello(c) => Got::V12(c),
            TlsMessageHandshake::ServerHelloV13Draft18(c) => Got::D18(c),
            _ => Got::Other,
        }))
    } else {
        parse_tls_handshake_server_hello(i).map(|(rem, c)| (rem, Got::V12(c)))
    };
    if n < 2 { vassert!(s, r.is_err(), "server_hello: no version => no value"); return; }
    let v = be16(i, 0);
    let legacy = v == 0x0300 || v == 0x0301 || v == 0x0302 || v == 0x0303;
    let d18 = MSG && v == 0x7f12;
    if !legacy && !d18 {
        vcover!(s, true, "unsupported legacy version reached");
        vassert!(s, class_of(&r) == Class::Error, "server_hello: unsupported legacy version is rejected");
        return;
    }
    vcover!(s, !MSG || (d18 && n >= 36 && ref_opt_ext(i, 36).0.is_some()), "draft-18 ServerHello with extensions reached (msg variant only)");
    if MSG && d18 {
        if n < 36 { vassert!(s, r.is_err(), "server_hello(draft18): truncated => no value"); return; }
        let (ext, used) = ref_opt_ext(i, 36);
        match &r {
            Ok((rem, Got::D18(c))) => {
                vassert!(s, c.version.0 == v && is_sub(i, c.random, 2, 32) && c.cipher.0 == be16(i, 34), "server_hello(draft18): version, random, cipher exact");
                vassert!(s, ext_matches(i, c.ext, ext), "server_hello(draft18): extension block");
                vassert!(s, is_suffix(i, rem, used), "server_hello(draft18): exact consumption");
            }
            _ => vassert!(s, false, "server_hello(draft18): well-formed => Ok(ServerHelloV13Draft18)"),
        }
        return;
    }
    if n < 35 { vassert!(s, r.is_err(), "server_hello: truncated before session id length => no value"); return; }
    let sidlen = i[34] as usize;
    if sidlen > 32 {
        vcover!(s, true, "session id length above 32 reached");
        vassert!(s, class_of(&r) == Class::Error, "server_hello: session-id length above 32 is rejected");
        return;
    }
    if n < 35 + sidlen + 3 { vassert!(s, r.is_err(), "server_hello: truncated mandatory field => no value"); return; }
    let o = 35 + sidlen;
    let (ext, used) = if v == 0x0300 { (None, o + 3) } else { ref_opt_ext(i, o + 3) };
    vcover!(s, sidlen == 0, "ServerHello without session id reached");
    vcover!(s, sidlen > 0, "ServerHello with session id reached");
    vcover!(s, ext.is_some(), "ServerHello with extension block reached");
    vcover!(s, v == 0x0300 && n > o + 3, "SSLv3 ServerHello followed by bytes reached");
    match &r {
        Ok((rem, Got::V12(c))) => {
            vassert!(s, c.version.0 == v, "server_hello: version exact");
            vassert!(s, is_sub(i, c.random, 2, 32), "server_hello: random is bytes 2..34");
            vassert!(s, match c.session_id { None => sidlen == 0, Some(sid) => sidlen > 0 && is_sub(i, sid, 35, sidlen) }, "server_hello: session id present iff length > 0, verbatim");
            vassert!(s, c.cipher.0 == be16(i, o) && c.compression.0 == i[o + 2], "server_hello: cipher and compression exact (any value)");
            vassert!(s, ext_matches(i, c.ext, ext), "server_hello: extension block present iff well-formed (never for SSLv3)");
            vassert!(s, is_suffix(i, rem, used), "server_hello: exact consumption");
        }
        _ => vassert!(s, false, "server_hello: well-formed => Ok(ServerHello)"),
    }
}

// ---------------------------------------------------------------- CertificateStatus, NextProtocol, KeyUpdate
pub fn h_certificatestatus<S: Src, const N: usize>(s: &mut S) {
    let buf: [u8; N] = s.bytes();
    let n = s.usize();
    vassume!(s, n <= N);
    let i = &buf[..n];
    let r = parse_tls_handshake_msg_certificatestatus(i);
    if n < 4 { vassert!(s, r.is_err(), "certificate_status: truncated header => no value"); return; }
    let l = be24(i, 1) as usize;
    if n - 4 < l {
        vcover!(s, true, "status blob longer than the body reached");
        vassert!(s, r.is_err(), "certificate_status: blob longer than the body never yields a value");
        return;
    }
    match &r {
        Ok((rem, TlsMessageHandshake::CertificateStatus(c))) => {
            vassert!(s, c.status_type == i[0], "certificate_status: status type == byte 0 (any value)");
            vassert!(s, is_sub(i, c.blob, 4, l), "certificate_status: blob verbatim");
            vassert!(s, is_suffix(i, rem, 4 + l), "certificate_status: exact consumption");
        }
        _ => vassert!(s, false, "certificate_status: well-formed => Ok"),
    }
}

pub fn h_next_protocol<S: Src, const N: usize>(s: &mut S) {
    let buf: [u8; N] = s.bytes();
    let n = s.usize();
    vassume!(s, n <= N);
    let i = &buf[..n];
    let r = parse_tls_handshake_msg_next_protocol(i);
    let ok = n >= 1 && n >= 1 + i[0] as usize + 1 && n >= 2 + i[0] as usize + i[1 + i[0] as usize] as usize;
    if !ok { vassert!(s, r.is_err(), "next_protocol: truncated => no value"); return; }
    let a = i[0] as usize;
    let b = i[1 + a] as usize;
    match &r {
        Ok((rem, TlsMessageHandshake::NextProtocol(c))) => {
            vassert!(s, is_sub(i, c.selected_protocol, 1, a) && is_sub(i, c.padding, 2 + a, b), "next_protocol: both u8-prefixed fields verbatim");
            vassert!(s, is_suffix(i, rem, 2 + a + b), "next_protocol: exact consumption");
        }
        _ => vassert!(s, false, "next_protocol: well-formed => Ok"),
    }
}

pub fn h_key_update<S: Src>(s: &mut S) {
    let buf: [u8; 3] = s.bytes();
    let n = s.usize();
    vassume!(s, n <= 3);
    let i = &buf[..n];
    let r = parse_tls_handshake_msg_key_update(i);
    if n == 0 { vassert!(s, is_incomplete(&r), "key_update: empty => Incomplete"); return; }
    match &r {
        Ok((rem, TlsMessageHandshake::KeyUpdate(v))) => vassert!(s, *v == i[0] && is_suffix(i, rem, 1), "key_update: value == byte 0 (any value), consumes 1"),
        _ => vassert!(s, false, "key_update: 1 byte => Ok"),
    }
}

// ---------------------------------------------------------------- Certificate (u24 total, u24 per cert)
pub fn h_certificate<S: Src, const N: usize>(s: &mut S) {
    let buf: [u8; N] = s.bytes();
    let n = s.usize();
    vassume!(s, n <= N);
    let i = &buf[..n];
    let r = parse_tls_handshake_msg_certificate(i);
    if n < 3 { vassert!(s, r.is_err(), "certificate: truncated length => no value"); return; }
    let total = be24(i, 0) as usize;
    if n - 3 < total {
        vcover!(s, true, "certificate list longer than the body reached");
        vassert!(s, r.is_err(), "certificate: list longer than the body never yields a value");
        return;
    }
    match &r {
        Ok((rem, TlsMessageHandshake::Certificate(c))) => {
            vassert!(s, is_suffix(i, rem, 3 + total), "certificate: consumes exactly 3 + list length");
            // walk the list with the reference reader: certs in wire order, each verbatim, all inside the list
            let end = 3 + total;
            let mut o = 3;
            let mut k = 0;
            while o + 3 <= end && o + 3 + (be24(i, o) as usize) <= end {
                let l = be24(i, o) as usize;
                vassert!(s, k < c.cert_chain.len() && is_sub(i, c.cert_chain[k].data, o + 3, l), "certificate: k-th certificate is the k-th u24-prefixed entry, verbatim");
                o += 3 + l;
                k += 1;
            }
            vassert!(s, k == c.cert_chain.len(), "certificate: no extra entries");
            vcover!(s, k == 2, "two certificates reached");
            vcover!(s, k == 0 && total > 0, "malformed first entry reached");
        }
        _ => vassert!(s, false, "certificate: list within the body => Ok"),
    }
}

// ---------------------------------------------------------------- ClientHello
/// body = version(2) random(32) sidlen(1) sid ciphers_len(2) ciphers comp_len(1) comp [ext]
/// SID = concrete session-id length of this instantiation (keeps the harness tractable);
/// sid length byte is constrained to SID, everything else symbolic.
pub fn h_client_hello<S: Src, const N: usize, const SID: usize>(s: &mut S) {
    let mut buf: [u8; N] = s.bytes();
    buf[34] = SID as u8;
    let n = s.usize();
    vassume!(s, n <= N);
    // tiny lists keep the Vec-building loops cheap for CBMC; list CONTENTS for longer lists are the business of
    // leaf_cipher_suites / leaf_compressions, and the helpers' call arguments that of mod_client_hello
    if n >= 35 + SID + 2 && SID <= 32 {
        let cl0 = be16(&buf, 35 + SID) as usize;
        vassume!(s, cl0 <= 4 || cl0 > n);
        if cl0 <= 4 && n >= 35 + SID + 2 + cl0 + 1 { vassume!(s, buf[35 + SID + 2 + cl0] <= 2 || buf[35 + SID + 2 + cl0] as usize > n); }
    }
    let i = &buf[..n];
    let r = parse_tls_handshake_client_hello(i);
    if n < 35 { vassert!(s, r.is_err(), "client_hello: truncated before session id length => no value"); return; }
    if SID > 32 {
        vassert!(s, class_of(&r) == Class::Error, "client_hello: session-id length above 32 is rejected");
        return;
    }
    let mut o = 35 + SID;
    if n < o + 2 { vassert!(s, r.is_err(), "client_hello: truncated session id / cipher length => no value"); return; }
    let cl = be16(i, o) as usize;
    o += 2;
    if cl % 2 == 1 || cl > n - o {
        vcover!(s, cl % 2 == 1, "odd cipher list length reached");
        vcover!(s, cl % 2 == 0 && cl > n - o, "overlong cipher list reached");
        vassert!(s, r.is_err(), "client_hello: odd or overlong cipher-suite list is rejected");
        return;
    }
    let co = o;
    o += cl;
    if n < o + 1 { vassert!(s, r.is_err(), "client_hello: missing compression length => no value"); return; }
    let kl = i[o] as usize;
    o += 1;
    if kl > n - o {
        vcover!(s, true, "overlong compression list reached");
        vassert!(s, r.is_err(), "client_hello: overlong compression list is rejected");
        return;
    }
    let ko = o;
    o += kl;
    let (ext, used) = ref_opt_ext(i, o);
    vcover!(s, cl == 4, "two cipher suites reached");
    vcover!(s, cl == 0, "empty cipher list reached");
    vcover!(s, kl == 2, "two compression methods reached");
    vcover!(s, ext.is_some(), "ClientHello with extension block reached");
    vcover!(s, ext.is_none() && n > o, "ClientHello with malformed extension block reached");
    match &r {
        Ok((rem, c)) => {
            vassert!(s, c.version.0 == be16(i, 0), "client_hello: version exact (any value)");
            vassert!(s, is_sub(i, c.random, 2, 32), "client_hello: random is bytes 2..34");
            vassert!(s, match c.session_id { None => SID == 0, Some(sid) => SID > 0 && is_sub(i, sid, 35, SID) }, "client_hello: session id present iff length > 0, verbatim");
            vassert!(s, c.ciphers.len() == cl / 2, "client_hello: one id per 2 bytes of the cipher list");
            let mut k = 0;
            while k < c.ciphers.len() {
                vassert!(s, c.ciphers[k].0 == be16(i, co + 2 * k), "client_hello: k-th cipher id exact, in wire order (any value)");
                k += 1;
            }
            vassert!(s, c.comp.len() == kl, "client_hello: one compression id per byte");
            let mut k = 0;
            while k < c.comp.len() {
                vassert!(s, c.comp[k].0 == i[ko + k], "client_hello: k-th compression id exact (any value)");
                k += 1;
            }
            vassert!(s, ext_matches(i, c.ext, ext), "client_hello: extension block present iff well-formed, verbatim");
            vassert!(s, is_suffix(i, rem, used), "client_hello: exact consumption");
        }
        Err(_) => vassert!(s, false, "client_hello: well-formed => Ok"),
    }
}

// ---------------------------------------------------------------- CertificateRequest
/// TLS 1.2 form first (cert types u8-counted, sig/hash u16 list, CA u16 list), then legacy form.
pub fn h_certificate_request<S: Src, const N: usize>(s: &mut S) {
    let buf: [u8; N] = s.bytes();
    let n = s.usize();
    vassume!(s, n <= N);
    let i = &buf[..n];
    let r = parse_tls_handshake_msg_certificaterequest(i);
    // reference: try full form
    let full = (|| {
        if n < 1 { return None; }
        let ct = i[0] as usize;
        if n < 1 + ct + 2 { return None; }
        let sl = be16(i, 1 + ct) as usize;
        let so = 3 + ct;
        if n < so + sl + 2 { return None; }
        let cal = be16(i, so + sl) as usize;
        let cao = so + sl + 2;
        if n < cao + cal { return None; }
        Some((ct, Some((so, sl)), cao, cal))
    })();
    let legacy = (|| {
        if n < 1 { return None; }
        let ct = i[0] as usize;
        if n < 1 + ct + 2 { return None; }
        let cal = be16(i, 1 + ct) as usize;
        let cao = 3 + ct;
        if n < cao + cal { return None; }
        Some((ct, None::<(usize, usize)>, cao, cal))
    })();
    let want = if full.is_some() { full } else { legacy };
    vcover!(s, full.is_some(), "TLS 1.2 form reached");
    vcover!(s, full.is_none() && legacy.is_some(), "legacy form reached");
    match want {
        None => vassert!(s, r.is_err(), "certificate_request: neither form fits => no value"),
        Some((ct, sig, cao, cal)) => match &r {
            Ok((rem, TlsMessageHandshake::CertificateRequest(c))) => {
                vassert!(s, c.cert_types.len() == ct, "certificate_request: certificate type count");
                let mut k = 0;
                while k < c.cert_types.len() { vassert!(s, c.cert_types[k] == i[1 + k], "certificate_request: k-th certificate type exact (any value)"); k += 1; }
                match (sig, &c.sig_hash_algs) {
                    (Some((so, sl)), Some(v)) => {
                        vassert!(s, v.len() == sl / 2, "certificate_request: one algorithm pair per 2 bytes");
                        let mut k = 0;
                        while k < v.len() { vassert!(s, v[k] == be16(i, so + 2 * k), "certificate_request: k-th signature/hash pair exact (any value)"); k += 1; }
                    }
                    (None, None) => {}
                    _ => vassert!(s, false, "certificate_request: signature algorithms present iff TLS 1.2 form"),
                }
                // CA list walk
                let end = cao + cal;
                let mut o = cao;
                let mut k = 0;
                while o + 2 <= end && o + 2 + (be16(i, o) as usize) <= end {
                    let l = be16(i, o) as usize;
                    vassert!(s, k < c.unparsed_ca.len() && is_sub(i, c.unparsed_ca[k], o + 2, l), "certificate_request: k-th CA name verbatim, in order");
                    o += 2 + l;
                    k += 1;
                }
                vassert!(s, k == c.unparsed_ca.len(), "certificate_request: no extra CA entries");
                vassert!(s, is_suffix(i, rem, end), "certificate_request: exact consumption");
            }
            _ => vassert!(s, false, "certificate_request: a fitting form => Ok"),
        },
    }
}

harness!(leaf_hs_ske, unwind = 3, h_ske);
harness!(leaf_hs_serverdone, unwind = 3, h_serverdone);
harness!(leaf_hs_certverify, unwind = 3, h_certverify);
harness!(leaf_hs_cke, unwind = 3, h_cke);
harness!(leaf_hs_finished, unwind = 3, h_finished);
harness!(fd_hs_hello_request, unwind = 3, h_hello_request);
harness!(leaf_hs_newsessionticket, unwind = 6, h_newsessionticket::<_, 8>);
harness!(leaf_hs_hello_retry_request, unwind = 4, h_hello_retry_request::<_, 10>);
harness!(leaf_hs_server_hello_msg, unwind = 4, h_server_hello::<_, 44, true>);
harness!(leaf_hs_server_hello, unwind = 4, h_server_hello::<_, 44, false>);
harness!(leaf_hs_certificatestatus, unwind = 5, h_certificatestatus::<_, 8>);
harness!(leaf_hs_next_protocol, unwind = 3, h_next_protocol::<_, 6>);
harness!(fd_hs_key_update, unwind = 3, h_key_update);
harness!(leaf_hs_certificate, unwind = 6, h_certificate::<_, 12>);
pub fn h_client_hello_sid33<S: Src>(s: &mut S) {
    let mut buf: [u8; 40] = s.bytes();
    buf[34] = 33;
    let n = s.usize();
    vassume!(s, 35 <= n && n <= 40);
    let r = parse_tls_handshake_client_hello(&buf[..n]);
    vassert!(s, class_of(&r) == Class::Error, "client_hello: session-id length above 32 is rejected");
}
// (direct ClientHello harnesses with the real list helpers exhaust memory in CBMC (>14 GB, measured); the body is
// verified modularly instead: mod_client_hello in int_c04_private.rs + leaf_cipher_suites / leaf_compressions)
harness!(leaf_hs_client_hello_sid33, unwind = 6, h_client_hello_sid33);
harness!(leaf_hs_certificate_request, unwind = 12, h_certificate_request::<_, 9>);

// ---------------------------------------------------------------- ClientHello (TLS and DTLS): the assertions of the
// modular harnesses mod_client_hello / mod_client_hello_long / mod_dtls_client_hello (declared, with their contract
// stubs, in int_c04_private.rs / int_c10_dtls.rs).  Kept here so that the replay crate can run the same assertions on
// the PUBLIC parser with the inputs Kani found.
pub enum GotCH<'a> { Tls(TlsClientHelloContents<'a>), Dtls(DTLSClientHello<'a>), Other }

pub fn check_client_hello<'a, S: Src>(s: &mut S, i: &'a [u8], r: IResult<&'a [u8], GotCH<'a>>, dtls: bool) {
    let n = i.len();
    if n < 35 { vassert!(s, r.is_err(), "client_hello: truncated before session id length => no value"); return; }
    let sidlen = i[34] as usize;
    if sidlen > 32 {
        vcover!(s, true, "session id length above 32 reached");
        vassert!(s, class_of(&r) == Class::Error, "client_hello: session-id length above 32 is rejected");
        return;
    }
    let mut o = 35 + sidlen;
    let mut cookie = (0usize, 0usize);
    if dtls {
        if n < o + 1 { vassert!(s, r.is_err(), "dtls client_hello: missing cookie length => no value"); return; }
        let cl = i[o] as usize;
        if n < o + 1 + cl { vassert!(s, r.is_err(), "dtls client_hello: truncated cookie => no value"); return; }
        cookie = (o + 1, cl);
        o += 1 + cl;
    }
    if n < o + 2 { vassert!(s, r.is_err(), "client_hello: truncated session id / cipher length => no value"); return; }
    let cl = be16(i, o) as usize;
    o += 2;
    // (the helpers' call arguments are observable: the stubs return `&arg[len..]`, so a wrong slice or length shifts every
    //  later field and the final remainder, which the pointer-exact conjuncts below would catch)
    if !(cl == 0 || (cl % 2 == 0 && cl <= n - o)) {
        vcover!(s, true, "bad cipher list length reached");
        vassert!(s, r.is_err(), "client_hello: odd or overlong cipher-suite list is rejected");
        return;
    }
    o += cl;
    if n < o + 1 { vassert!(s, r.is_err(), "client_hello: missing compression length => no value"); return; }
    let kl = i[o] as usize;
    o += 1;
    if kl > n - o {
        vcover!(s, true, "overlong compression list reached");
        vassert!(s, r.is_err(), "client_hello: overlong compression list is rejected");
        return;
    }
    o += kl;
    let (ext, used) = ref_opt_ext(i, o);
    vcover!(s, sidlen == 0, "ClientHello without session id reached");
    vcover!(s, sidlen > 0, "ClientHello with session id reached");
    vcover!(s, ext.is_some(), "ClientHello with extension block reached");
    vcover!(s, ext.is_none() && n > o, "ClientHello with malformed extension block reached");
    match &r {
        Ok((rem, GotCH::Tls(c))) => {
            vassert!(s, c.version.0 == be16(i, 0), "client_hello: version exact (any value)");
            vassert!(s, is_sub(i, c.random, 2, 32), "client_hello: random is bytes 2..34");
            vassert!(s, match c.session_id { None => sidlen == 0, Some(sid) => sidlen > 0 && is_sub(i, sid, 35, sidlen) }, "client_hello: session id present iff length > 0, verbatim");
            vassert!(s, ext_matches(i, c.ext, ext), "client_hello: extension block present iff well-formed, verbatim");
            vassert!(s, is_suffix(i, rem, used), "client_hello: exact consumption");
        }
        Ok((rem, GotCH::Dtls(c))) => {
            vassert!(s, c.version.0 == be16(i, 0), "dtls client_hello: version exact (any value)");
            vassert!(s, is_sub(i, c.random, 2, 32), "dtls client_hello: random is bytes 2..34");
            vassert!(s, match c.session_id { None => sidlen == 0, Some(sid) => sidlen > 0 && is_sub(i, sid, 35, sidlen) }, "dtls client_hello: session id present iff length > 0, verbatim");
            vassert!(s, is_sub(i, c.cookie, cookie.0, cookie.1), "dtls client_hello: cookie verbatim (length 0..255)");
            vassert!(s, ext_matches(i, c.ext, ext), "dtls client_hello: extension block present iff well-formed, verbatim");
            vassert!(s, is_suffix(i, rem, used), "dtls client_hello: exact consumption");
        }
        _ => vassert!(s, false, "client_hello: well-formed => Ok"),
    }
}

/// replay twin of mod_client_hello*: same draws (buffer, length), the public parser, the same assertions
pub fn h_client_hello_replay<S: Src, const N: usize>(s: &mut S) {
    let buf: [u8; N] = s.bytes();
    let n = s.usize();
    vassume!(s, n <= N);
    let i = &buf[..n];
    let r = parse_tls_handshake_client_hello(i).map(|(rem, c)| (rem, GotCH::Tls(c)));
    check_client_hello(s, i, r, false);
}
// replay_alias: mod_client_hello => h_client_hello_replay::<_, 48>
// replay_alias: mod_client_hello_long => h_client_hello_replay::<_, 80>
