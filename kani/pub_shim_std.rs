// Obligations that discharge the std iterator-adapter shim ASSUMED by the Verus units
// (/verif/verus/shim_std.rs, rule R17): the REAL core/alloc `chunks` / `iter` / `map` / `collect`
// against the same statements.  The closure records WHICH slice / element it was handed (address
// and length), so the element list is compared with the chunk decomposition by pointer.
use super::src::Src;
use super::util::*;
use alloc::vec::Vec;

// chunks_map_collect(s, c, f): nchunks(|s|, c) elements; element k = f(s[k*c .. min((k+1)*c, |s|)])
pub fn h_shim_chunks_map_collect<S: Src, const N: usize>(s: &mut S) {
    let buf: [u8; N] = s.bytes();
    let n = s.usize();
    vassume!(s, n <= N);
    let c = s.usize(); // full domain except 0 (<[T]>::chunks panics on 0: precondition of the shim)
    vassume!(s, c > 0);
    let i = &buf[..n];
    let v: Vec<(usize, usize, u8)> = i.chunks(c).map(|ch| (ch.as_ptr() as usize, ch.len(), ch[0])).collect();
    let expect = if n % c == 0 { n / c } else { n / c + 1 };
    vassert!(s, v.len() == expect, "shim chunks/map/collect: one element per chunk, ceil(len / c) of them");
    let base = i.as_ptr() as usize;
    let mut k = 0;
    while k < v.len() {
        let lo = k * c;
        let hi = if n - lo >= c { lo + c } else { n };
        vassert!(s, v[k].0 == base + lo && v[k].1 == hi - lo && v[k].2 == i[lo], "shim chunks/map/collect: element k is the closure's value on s[k*c .. min((k+1)*c, len)], in order");
        k += 1;
    }
    vcover!(s, n == N && c == 2, "shim chunks: odd-length input with chunk size 2 reachable (short last chunk)");
    vcover!(s, n == 0, "shim chunks: empty input reachable");
}
// iter_map_collect(s, f): |s| elements; element k = f(&s[k])
pub fn h_shim_iter_map_collect<S: Src, const N: usize>(s: &mut S) {
    let buf: [u8; N] = s.bytes();
    let n = s.usize();
    vassume!(s, n <= N);
    let i = &buf[..n];
    let v: Vec<(usize, u8)> = i.iter().map(|x| (x as *const u8 as usize, *x)).collect();
    vassert!(s, v.len() == n, "shim iter/map/collect: one element per slice element");
    let base = i.as_ptr() as usize;
    let mut k = 0;
    while k < v.len() {
        vassert!(s, v[k].0 == base + k && v[k].1 == i[k], "shim iter/map/collect: element k is the closure's value on &s[k], in order");
        k += 1;
    }
    vcover!(s, n == N, "shim iter: full-length input reachable");
}
harness!(shim_chunks_map_collect, unwind = 9, h_shim_chunks_map_collect::<_, 7>);
harness!(shim_iter_map_collect, unwind = 7, h_shim_iter_map_collect::<_, 5>);
// slice_try_into_array (R18): <&[u8] as TryInto<&[u8; 32]>>::try_into is Ok(the SAME 32 bytes, zero-copy) iff len == 32
pub fn h_shim_slice_try_into_array<S: Src>(s: &mut S) {
    use core::convert::TryInto;
    let buf: [u8; 40] = s.bytes();
    let n = s.usize();
    vassume!(s, n <= 40);
    let i = &buf[..n];
    let r: Result<&[u8; 32], _> = i.try_into();
    match r {
        Ok(a) => vassert!(s, n == 32 && a.as_ptr() == i.as_ptr(), "shim try_into(&[u8] -> &[u8; 32]): Ok only for exactly 32 bytes, and it is the same memory"),
        Err(_) => vassert!(s, n != 32, "shim try_into(&[u8] -> &[u8; 32]): 32 bytes never fail"),
    }
    vcover!(s, n == 32, "shim try_into: the Ok case is reachable");
}
harness!(shim_slice_try_into_array, unwind = 2, h_shim_slice_try_into_array);
// R19 / R18 (copying form), used by ClientHello::rand_time: u32::from_be_bytes is the big-endian value of the four bytes
// (all 2^32 arrays); <&[u8] as TryInto<[u8; 4]>>::try_into is Ok(copy of the bytes) iff len == 4
pub fn h_shim_u32_from_be_bytes<S: Src>(s: &mut S) {
    use core::convert::TryInto;
    let b: [u8; 4] = s.bytes();
    let v = u32::from_be_bytes(b);
    vassert!(s, v == ((b[0] as u32) * 256 + b[1] as u32) * 65536 + (b[2] as u32) * 256 + b[3] as u32, "shim u32::from_be_bytes: ((b0*256+b1)*256+b2)*256+b3");
    let buf: [u8; 8] = s.bytes();
    let n = s.usize();
    vassume!(s, n <= 8);
    let i = &buf[..n];
    let r: Result<[u8; 4], _> = i.try_into();
    match r {
        Ok(a) => vassert!(s, n == 4 && a[0] == i[0] && a[1] == i[1] && a[2] == i[2] && a[3] == i[3], "shim try_into(&[u8] -> [u8; 4]): Ok only for exactly 4 bytes, the same bytes in order"),
        Err(_) => vassert!(s, n != 4, "shim try_into(&[u8] -> [u8; 4]): 4 bytes never fail"),
    }
    vcover!(s, n == 4, "shim try_into copy: the Ok case is reachable");
}
harness!(shim_u32_from_be_bytes, unwind = 6, h_shim_u32_from_be_bytes);
