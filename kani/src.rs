// Input source abstraction shared by the Kani build (symbolic) and the replay build (recorded).
// A harness body is a generic fn over `Src`; under Kani it is run with `KaniSrc`
// (kani::any / kani::assume / kani::assert), in /verif/replay with `ReplaySrc` (the bytes of a
// concrete-playback counterexample, fed back in the same order against the real code).

pub trait Src {
    fn u8(&mut self) -> u8;
    fn u16(&mut self) -> u16;
    fn u32(&mut self) -> u32;
    fn u64(&mut self) -> u64;
    fn usize(&mut self) -> usize;
    fn bool(&mut self) -> bool;
    fn bytes<const N: usize>(&mut self) -> [u8; N];
    fn assume(&mut self, c: bool);
    fn check(&mut self, c: bool, label: &'static str);
    fn cover(&mut self, c: bool, label: &'static str);
}

#[cfg(kani)]
pub struct KaniSrc;

#[cfg(kani)]
impl Src for KaniSrc {
    #[inline(always)]
    fn u8(&mut self) -> u8 { kani::any() }
    #[inline(always)]
    fn u16(&mut self) -> u16 { kani::any() }
    #[inline(always)]
    fn u32(&mut self) -> u32 { kani::any() }
    #[inline(always)]
    fn u64(&mut self) -> u64 { kani::any() }
    #[inline(always)]
    fn usize(&mut self) -> usize { kani::any() }
    #[inline(always)]
    fn bool(&mut self) -> bool { kani::any() }
    #[inline(always)]
    fn bytes<const N: usize>(&mut self) -> [u8; N] { kani::any() }
    #[inline(always)]
    fn assume(&mut self, c: bool) { kani::assume(c) }
    #[inline(always)]
    fn check(&mut self, c: bool, _label: &'static str) { assert!(c) }
    #[inline(always)]
    fn cover(&mut self, _c: bool, _label: &'static str) {}
}

// vassert!(s, cond, "label"): a contract conjunct. Under Kani the label must be a literal at the
// kani::assert call site to show up in the check description, hence a macro and not a method.
#[cfg(kani)]
macro_rules! vassert {
    ($s:expr, $c:expr, $l:literal) => {{ let _ = &$s; kani::assert($c, $l); }};
}
#[cfg(not(kani))]
macro_rules! vassert {
    ($s:expr, $c:expr, $l:literal) => {{ let __c = $c; $s.check(__c, $l); }};
}
#[cfg(kani)]
macro_rules! vcover {
    ($s:expr, $c:expr, $l:literal) => {{ let _ = &$s; kani::cover!($c, $l); }};
}
#[cfg(not(kani))]
macro_rules! vcover {
    ($s:expr, $c:expr, $l:literal) => {{ let __c = $c; $s.cover(__c, $l); }};
}
macro_rules! vassume {
    ($s:expr, $c:expr) => {{ let __c = $c; $s.assume(__c); }};
}

// harness!(name, unwind = K, body::<..>);            plain harness
// harness!(name, unwind = K, stubs = [a => b, ...], body);   modular harness (callees replaced by contract stubs)
#[cfg(kani)]
macro_rules! harness {
    ($name:ident, unwind = $u:expr, stubs = [$($a:path => $b:path),* $(,)?], $body:expr) => {
        #[kani::proof]
        #[kani::unwind($u)]
        $(#[kani::stub($a, $b)])*
        pub fn $name() { let mut s = $crate::verif_kani::src::KaniSrc; ($body)(&mut s); }
    };
    ($name:ident, unwind = $u:expr, $body:expr) => {
        #[kani::proof]
        #[kani::unwind($u)]
        pub fn $name() { let mut s = $crate::verif_kani::src::KaniSrc; ($body)(&mut s); }
    };
}
#[cfg(not(kani))]
macro_rules! harness {
    ($name:ident, unwind = $u:expr, stubs = [$($a:path => $b:path),* $(,)?], $body:expr) => {};
    ($name:ident, unwind = $u:expr, $body:expr) => {};
}

// ---------------------------------------------------------------------------------- replay
#[cfg(not(kani))]
pub struct ReplaySrc {
    pub vals: Vec<Vec<u8>>,
    pub pos: usize,
    pub rejected: bool,
    pub failed: Vec<String>,
    pub checks: usize,
}

#[cfg(not(kani))]
impl ReplaySrc {
    pub fn new(vals: Vec<Vec<u8>>) -> Self { ReplaySrc { vals, pos: 0, rejected: false, failed: Vec::new(), checks: 0 } }
    fn next(&mut self, n: usize) -> u64 {
        if self.pos >= self.vals.len() { panic!("REPLAY-OUT-OF-VALUES"); }
        let v = &self.vals[self.pos];
        self.pos += 1;
        let mut x: u64 = 0;
        for k in 0..n.min(v.len()).min(8) { x |= (v[k] as u64) << (8 * k); }
        x
    }
}

#[cfg(not(kani))]
impl Src for ReplaySrc {
    fn u8(&mut self) -> u8 { self.next(1) as u8 }
    fn u16(&mut self) -> u16 { self.next(2) as u16 }
    fn u32(&mut self) -> u32 { self.next(4) as u32 }
    fn u64(&mut self) -> u64 { self.next(8) }
    fn usize(&mut self) -> usize { self.next(8) as usize }
    fn bool(&mut self) -> bool { self.next(1) != 0 }
    fn bytes<const N: usize>(&mut self) -> [u8; N] {
        let mut a = [0u8; N];
        for k in 0..N { a[k] = self.next(1) as u8; }
        a
    }
    fn assume(&mut self, c: bool) { if !c { self.rejected = true; panic!("REPLAY-ASSUME-FAILED"); } }
    fn check(&mut self, c: bool, label: &'static str) { self.checks += 1; if !c { self.failed.push(label.to_string()); } }
    fn cover(&mut self, _c: bool, _label: &'static str) {}
}
