// C08 — paired harness on the real compiled tls_state_transition: every (state, kind, direction)
// cell against the same table the Verus unit uses. Gives the failing cell as a replayable input.
use super::src::Src;
use super::tp;
use tp::*;
use alloc::vec::Vec;

#[path = "/verif/contracts/states_table.rs"]
pub mod states_table;
use states_table::{table, Kind};

pub fn state_of(n: u8) -> TlsState {
    match n {
        0 => TlsState::None, 1 => TlsState::ClientHello, 2 => TlsState::AskResumeSession, 3 => TlsState::ResumeSession,
        4 => TlsState::ServerHello, 5 => TlsState::Certificate, 6 => TlsState::CertificateSt, 7 => TlsState::ServerKeyExchange,
        8 => TlsState::ServerHelloDone, 9 => TlsState::ClientKeyExchange, 10 => TlsState::ClientChangeCipherSpec,
        11 => TlsState::CRCertRequest, 12 => TlsState::CRHelloDone, 13 => TlsState::CRCert, 14 => TlsState::CRClientKeyExchange,
        15 => TlsState::CRCertVerify, 16 => TlsState::NoCertSKE, 17 => TlsState::NoCertHelloDone, 18 => TlsState::NoCertCKE,
        19 => TlsState::PskHelloDone, 20 => TlsState::PskCKE, 21 => TlsState::SessionEncrypted, 22 => TlsState::Alert,
        23 => TlsState::Finished, _ => TlsState::Invalid,
    }
}

pub fn message_of<'a>(k: u8, data: &'a [u8], sev: u8, code: u8) -> (TlsMessage<'a>, Kind) {
    use TlsMessageHandshake as H;
    let hs = |h: H<'a>, k: Kind| (TlsMessage::Handshake(h), k);
    match k {
        0 => hs(H::HelloRequest, Kind::HelloRequest),
        1 => hs(H::ClientHello(TlsClientHelloContents::new(0x0303, data, Some(data), Vec::new(), Vec::new(), None)), Kind::ClientHelloSid),
        2 => hs(H::ClientHello(TlsClientHelloContents::new(0x0303, data, None, Vec::new(), Vec::new(), Some(data))), Kind::ClientHelloNoSid),
        3 => hs(H::ServerHello(TlsServerHelloContents::new(0x0303, data, None, 0, 0, None)), Kind::ServerHello),
        4 => hs(H::ServerHelloV13Draft18(TlsServerHelloV13Draft18Contents { version: TlsVersion(0x7f12), random: data, cipher: TlsCipherSuiteID(0), ext: None }), Kind::ServerHelloV13Draft18),
        5 => hs(H::NewSessionTicket(TlsNewSessionTicketContent { ticket_lifetime_hint: 0, ticket: data }), Kind::NewSessionTicket),
        6 => hs(H::EndOfEarlyData, Kind::EndOfEarlyData),
        7 => hs(H::HelloRetryRequest(TlsHelloRetryRequestContents { version: TlsVersion(0x0304), cipher: TlsCipherSuiteID(0), ext: None }), Kind::HelloRetryRequest),
        8 => hs(H::Certificate(TlsCertificateContents { cert_chain: Vec::new() }), Kind::Certificate),
        9 => hs(H::ServerKeyExchange(TlsServerKeyExchangeContents { parameters: data }), Kind::ServerKeyExchange),
        10 => hs(H::CertificateRequest(TlsCertificateRequestContents { cert_types: Vec::new(), sig_hash_algs: None, unparsed_ca: Vec::new() }), Kind::CertificateRequest),
        11 => hs(H::ServerDone(data), Kind::ServerDone),
        12 => hs(H::CertificateVerify(data), Kind::CertificateVerify),
        13 => hs(H::ClientKeyExchange(TlsClientKeyExchangeContents::Unknown(data)), Kind::ClientKeyExchange),
        14 => hs(H::Finished(data), Kind::Finished),
        15 => hs(H::CertificateStatus(TlsCertificateStatusContents { status_type: sev, blob: data }), Kind::CertificateStatus),
        16 => hs(H::NextProtocol(TlsNextProtocolContent { selected_protocol: data, padding: data }), Kind::NextProtocol),
        17 => hs(H::KeyUpdate(code), Kind::KeyUpdate),
        18 => (TlsMessage::ChangeCipherSpec, Kind::Ccs),
        19 => (TlsMessage::Alert(TlsMessageAlert { severity: TlsAlertSeverity(sev), code: TlsAlertDescription(code) }),
               if sev == 1 { Kind::AlertWarning } else { Kind::AlertOther }),
        20 => (TlsMessage::ApplicationData(TlsMessageApplicationData { blob: data }), Kind::AppData),
        _ => (TlsMessage::Heartbeat(TlsMessageHeartbeat { heartbeat_type: TlsHeartbeatMessageType(sev), payload_len: 0, payload: data }), Kind::Heartbeat),
    }
}

pub fn h_states_cells<S: Src, const LO: u8, const HI: u8>(s: &mut S) {
    let st = s.u8();
    vassume!(s, LO <= st && st < HI);
    let k = s.u8();
    vassume!(s, k < 22);
    let to_server = s.bool();
    let sev = s.u8();
    let code = s.u8();
    let buf: [u8; 2] = s.bytes();
    let n = s.usize();
    vassume!(s, n <= 2);
    let state = state_of(st);
    let (msg, kind) = message_of(k, &buf[..n], sev, code);
    let r = tls_state_transition(state, &msg, to_server);
    let want = table(state, kind, to_server);
    vcover!(s, want.is_some(), "an accepted cell reached");
    vcover!(s, want.is_none(), "a rejected cell reached");
    match r {
        Ok(ns) => vassert!(s, want == Some(ns), "states: transition accepted by the code equals the documented table cell"),
        Err(e) => {
            vassert!(s, want.is_none(), "states: transition rejected by the code is rejected by the documented table");
            vassert!(s, e == StateChangeError::InvalidTransition, "states: rejection is InvalidTransition, never ParseError");
        }
    }
}

harness!(fd_states_cells_0, unwind = 4, h_states_cells::<_, 0, 5>);
harness!(fd_states_cells_1, unwind = 4, h_states_cells::<_, 5, 10>);
harness!(fd_states_cells_2, unwind = 4, h_states_cells::<_, 10, 15>);
harness!(fd_states_cells_3, unwind = 4, h_states_cells::<_, 15, 20>);
harness!(fd_states_cells_4, unwind = 4, h_states_cells::<_, 20, 25>);
