// C04 / C01 — crate-private list helpers (leaf contracts) and the MODULAR ClientHello harnesses:
// parse_tls_handshake_client_hello / parse_dtls_client_hello verified against the CONTRACTS of
// parse_cipher_suites / parse_compressions_algs (contract stubs), not their bodies.
use super::src::Src;
use super::tp;
use super::util::*;
use alloc::vec::Vec;
use tp::nom::error::{make_error, ErrorKind};
use tp::nom::{Err, IResult};
use tp::*;

// ---------------------------------------------------------------- leaf: parse_cipher_suites(i, len)
pub fn h_cipher_suites<S: Src, const N: usize>(s: &mut S) {
    let buf: [u8; N] = s.bytes();
    let n = s.usize();
    vassume!(s, n <= N);
    let len = s.usize(); // full domain
    let i = &buf[..n];
    let r = crate::tls_handshake::parse_cipher_suites(i, len);
    if len == 0 {
        match &r { Ok((rem, v)) => vassert!(s, v.is_empty() && is_suffix(i, rem, 0), "cipher list: length 0 => empty list, nothing consumed"), _ => vassert!(s, false, "cipher list: length 0 => Ok") }
        return;
    }
    if len % 2 == 1 || len > n {
        vcover!(s, len % 2 == 1 && len <= n, "odd cipher list reached");
        vcover!(s, len % 2 == 0 && len > n, "overlong cipher list reached");
        vassert!(s, class_of(&r) == Class::Error, "cipher list: odd or overlong length is rejected");
        return;
    }
    match &r {
        Ok((rem, v)) => {
            vassert!(s, v.len() == len / 2, "cipher list: one id per 2 bytes");
            vassert!(s, is_suffix(i, rem, len), "cipher list: consumes exactly len");
            let mut k = 0;
            while k < v.len() { vassert!(s, v[k].0 == be16(i, 2 * k), "cipher list: k-th id exact, wire order (any value)"); k += 1; }
            vcover!(s, v.len() == 3, "three cipher ids reached");
        }
        Err(_) => vassert!(s, false, "cipher list: even length within the data => Ok"),
    }
}

pub fn h_compressions<S: Src, const N: usize>(s: &mut S) {
    let buf: [u8; N] = s.bytes();
    let n = s.usize();
    vassume!(s, n <= N);
    let len = s.usize();
    let i = &buf[..n];
    let r = crate::tls_handshake::parse_compressions_algs(i, len);
    if len == 0 {
        match &r { Ok((rem, v)) => vassert!(s, v.is_empty() && is_suffix(i, rem, 0), "compression list: length 0 => empty list"), _ => vassert!(s, false, "compression list: length 0 => Ok") }
        return;
    }
    if len > n {
        vassert!(s, class_of(&r) == Class::Error, "compression list: overlong length is rejected");
        return;
    }
    match &r {
        Ok((rem, v)) => {
            vassert!(s, v.len() == len && is_suffix(i, rem, len), "compression list: one id per byte, consumes exactly len");
            let mut k = 0;
            while k < v.len() { vassert!(s, v[k].0 == i[k], "compression list: k-th id exact (any value)"); k += 1; }
        }
        Err(_) => vassert!(s, false, "compression list: length within the data => Ok"),
    }
}

pub fn h_tls_versions<S: Src, const N: usize>(s: &mut S) {
    let buf: [u8; N] = s.bytes();
    let n = s.usize();
    vassume!(s, n <= N);
    let i = &buf[..n];
    let r = crate::tls_handshake::parse_tls_versions(i);
    if n % 2 == 1 { vassert!(s, class_of(&r) == Class::Error, "version list: odd length is rejected"); return; }
    match &r {
        Ok((rem, v)) => {
            vassert!(s, v.len() == n / 2 && rem.is_empty(), "version list: one version per 2 bytes, everything consumed");
            let mut k = 0;
            while k < v.len() { vassert!(s, v[k].0 == be16(i, 2 * k), "version list: k-th version exact (any value)"); k += 1; }
        }
        Err(_) => vassert!(s, false, "version list: even length => Ok"),
    }
}

// ---------------------------------------------------------------- contract stubs (exactly the leaf contracts above)

/// contract stub for parse_cipher_suites: outcome class, remainder and list length are determined by the
/// contract; list CONTENTS are not modelled (the caller never inspects them) - an empty Vec stands in.
pub fn stub_cipher_suites(i: &[u8], len: usize) -> IResult<&[u8], Vec<TlsCipherSuiteID>> {
    if len == 0 { return Ok((i, Vec::new())); }
    if len % 2 == 1 || len > i.len() { return Err(Err::Error(make_error(i, ErrorKind::LengthValue))); }
    // (a really allocated Vec: CBMC's allocator model mis-reports the drop of a never-allocated Vec handed out by a stub)
    let mut v = Vec::with_capacity(1);
    v.push(TlsCipherSuiteID(0));
    Ok((&i[len..], v))
}
pub fn stub_compressions(i: &[u8], len: usize) -> IResult<&[u8], Vec<TlsCompressionID>> {
    if len == 0 { return Ok((i, Vec::new())); }
    if len > i.len() { return Err(Err::Error(make_error(i, ErrorKind::LengthValue))); }
    let mut v = Vec::with_capacity(1);
    v.push(TlsCompressionID(0));
    Ok((&i[len..], v))
}

use super::pub_c04_handshake::{check_client_hello, GotCH};

/// modular ClientHello: every field the body itself decodes, and that the list helpers are called with
/// exactly (rest of the body at the right offset, declared length). DTLS = cookie field after the session id.
/// (the assertions live in pub_c04_handshake::check_client_hello so that the replay crate can run them on the public
///  parser with the inputs Kani found)
pub fn h_client_hello_mod<S: Src, const N: usize, const DTLS: bool>(s: &mut S) {
    let buf: [u8; N] = s.bytes();
    let n = s.usize();
    vassume!(s, n <= N);
    let i = &buf[..n];
    let r: IResult<&[u8], GotCH> = if DTLS {
        crate::dtls::verif_access::dtls_client_hello(i).map(|(rem, b)| (rem, match b { DTLSMessageHandshakeBody::ClientHello(c) => GotCH::Dtls(c), _ => GotCH::Other }))
    } else {
        parse_tls_handshake_client_hello(i).map(|(rem, c)| (rem, GotCH::Tls(c)))
    };
    check_client_hello(s, i, r, DTLS);
}

harness!(leaf_cipher_suites, unwind = 6, h_cipher_suites::<_, 7>);
harness!(leaf_compressions, unwind = 6, h_compressions::<_, 4>);
harness!(leaf_tls_versions, unwind = 6, h_tls_versions::<_, 7>);
harness!(mod_client_hello, unwind = 4,
    stubs = [crate::tls_handshake::parse_cipher_suites => stub_cipher_suites, crate::tls_handshake::parse_compressions_algs => stub_compressions],
    h_client_hello_mod::<_, 48, false>);
harness!(mod_client_hello_long, unwind = 4,
    stubs = [crate::tls_handshake::parse_cipher_suites => stub_cipher_suites, crate::tls_handshake::parse_compressions_algs => stub_compressions],
    h_client_hello_mod::<_, 80, false>);
