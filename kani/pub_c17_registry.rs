// C17 — integer conversions, SignatureScheme helpers, key_bits: full-domain (every u8 / u16 value).
use super::src::Src;
use super::tp;
use alloc::vec::Vec;
use core::ops::Deref;
use tp::*;

use super::pub_c17_consts::key_bits_oracle;

pub fn h_conversions<S: Src>(s: &mut S) {
    let b = s.u8();
    let w = s.u16();
    vassert!(s, u8::from(TlsRecordType(b)) == b, "From<TlsRecordType> for u8 is the identity");
    vassert!(s, u8::from(TlsHandshakeType(b)) == b, "From<TlsHandshakeType> for u8 is the identity");
    vassert!(s, u16::from(TlsVersion(w)) == w, "From<TlsVersion> for u16 is the identity");
    vassert!(s, TlsVersion(w).to_be_bytes() == [(w >> 8) as u8, w as u8], "TlsVersion::to_be_bytes is big-endian");
    vassert!(s, u8::from(TlsHeartbeatMessageType(b)) == b, "From<TlsHeartbeatMessageType> for u8 is the identity");
    vassert!(s, u8::from(TlsCompressionID(b)) == b && *TlsCompressionID(b).deref() == b && *AsRef::<u8>::as_ref(&TlsCompressionID(b)) == b, "TlsCompressionID: From / Deref / AsRef are the identity");
    vassert!(s, u16::from(TlsCipherSuiteID(w)) == w && *TlsCipherSuiteID(w).deref() == w && *AsRef::<u16>::as_ref(&TlsCipherSuiteID(w)) == w, "TlsCipherSuiteID: From / Deref / AsRef are the identity");
    vassert!(s, TlsExtensionType::from_u16(w).0 == w && u16::from(TlsExtensionType(w)) == w, "TlsExtensionType: from_u16 / From are the identity");
}

pub fn h_signature_scheme<S: Src>(s: &mut S) {
    let w = s.u16();
    let x = SignatureScheme(w);
    vassert!(s, x.hash_alg() == (w >> 8) as u8, "SignatureScheme::hash_alg is the high byte");
    vassert!(s, x.sign_alg() == (w & 0xff) as u8, "SignatureScheme::sign_alg is the low byte");
    vassert!(s, x.is_reserved() == (w >= 0xfe00 && w <= 0xfeff), "SignatureScheme::is_reserved exactly for 0xFE00..=0xFEFF");
}

pub fn h_key_bits<S: Src>(s: &mut S) {
    let g = s.u16();
    let got = NamedGroup(g).key_bits();
    match key_bits_oracle(g) {
        Some(want) => vassert!(s, got == want, "NamedGroup::key_bits: the field size the curve's name states; None for unregistered groups"),
        None => {}
    }
}

harness!(fd_conversions, unwind = 4, h_conversions);
harness!(fd_signature_scheme, unwind = 2, h_signature_scheme);
harness!(fd_key_bits, unwind = 2, h_key_bits);
