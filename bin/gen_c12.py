#!/usr/bin/env python3
"""C12 generator: reads /repo/scripts/tls-ciphersuites.txt with an INDEPENDENT parser (not build.rs), checks it
against the frozen snapshot (rows may be added; existing (id, name, parameters) may not change) and against the
algorithm tokens of each IANA name, and writes /verif/kani/pub_c12_rows.rs (one assertion set per row) and
/verif/replay/src/gen_ciphers.rs (names for the by-name stand-in). Prints DATA-VIOLATION lines on stdout."""
import os, re, sys
def _write_if_changed(path, text):
    """atomic, and only when the content differs: a check running next to this one never sees a half-written file, and
    an unchanged generated file keeps its mtime (no needless rebuild)"""
    try:
        if open(path).read() == text:
            return
    except OSError:
        pass
    tmp = path + ".tmp%d" % os.getpid()
    open(tmp, "w").write(text)
    os.replace(tmp, path)

VERIF = os.path.dirname(os.path.dirname(os.path.abspath(__file__)))
REPO = os.environ.get("VERIF_REPO", "/repo")

def rows_of(path):
    rows = []
    for ln in open(path):
        ln = ln.rstrip("\n")
        if not ln.strip():
            continue
        f = ln.split(":")
        rows.append(dict(id=int(f[0], 16), name=f[1], kx=f[2], au=f[3], enc=f[4], mode=f[5], bits=int(f[6]), mac=f[7], macbits=int(f[8]), prf=f[9]))
    return rows

KX = {"NULL": "Null", "PSK": "Psk", "KRB5": "Krb5", "SRP": "Srp", "RSA": "Rsa", "DH": "Dh", "DHE": "Dhe", "ECDH": "Ecdh", "ECDHE": "Ecdhe", "AECDH": "Aecdh", "ECCPWD": "Eccpwd", "TLS13": "Tls13"}
AU = {"NULL": "Null", "PSK": "Psk", "KRB5": "Krb5", "SRP": "Srp", "SRP+DSS": "Srp_Dss", "SRP+RSA": "Srp_Rsa", "DSS": "Dss", "RSA": "Rsa", "DHE": "Dhe", "ECDSA": "Ecdsa", "ECCPWD": "Eccpwd", "TLS13": "Tls13"}
ENC = {"NULL": "Null", "DES": "Des", "3DES": "TripleDes", "RC2": "Rc2", "RC4": "Rc4", "ARIA": "Aria", "IDEA": "Idea", "SEED": "Seed", "AES": "Aes", "CAMELLIA": "Camellia", "CHACHA20_POLY1305": "Chacha20_Poly1305", "SM4": "Sm4", "AEGIS": "Aegis"}
MODE = {"": "Null", "NULL": "Null", "CBC": "Cbc", "CCM": "Ccm", "GCM": "Gcm"}
MAC = {"NULL": "Null", "HMAC-MD5": "HmacMd5", "HMAC-SHA1": "HmacSha1", "HMAC-SHA256": "HmacSha256", "HMAC-SHA384": "HmacSha384", "HMAC-SHA512": "HmacSha512", "AEAD": "Aead"}
PRF = {"DEFAULT": "Default", "NULL": "Null", "MD5ANDSHA1": "Md5AndSha1", "SHA1": "Sha1", "SHA256": "Sha256", "SHA384": "Sha384", "SHA512": "Sha512", "SM3": "Sm3"}

def name_tokens_ok(r):
    """parameters agree with the algorithm tokens of the IANA name"""
    n = r["name"]
    problems = []
    if "_WITH_" in n:
        suite = n.split("_WITH_", 1)[1]
        enc_tok = {"AES": "AES", "3DES": "3DES", "DES40": "DES", "DES": "DES", "RC4": "RC4", "RC2": "RC2", "IDEA": "IDEA", "SEED": "SEED",
                   "CAMELLIA": "CAMELLIA", "ARIA": "ARIA", "CHACHA20": "CHACHA20_POLY1305", "NULL": "NULL", "SM4": "SM4"}
        first = suite.split("_")[0]
        if first in enc_tok and enc_tok[first] != r["enc"]:
            problems.append("cipher token %s vs %s" % (first, r["enc"]))
        m = re.search(r"_(128|256)(_|$)", suite)
        if m and first in ("AES", "CAMELLIA", "ARIA", "SEED") and int(m.group(1)) != r["bits"]:
            problems.append("key-size token %s vs %d" % (m.group(1), r["bits"]))
        for tok, mode in (("_GCM", "GCM"), ("_CCM", "CCM"), ("_CBC", "CBC")):
            if tok in suite and r["mode"] != mode:
                problems.append("mode token %s vs %s" % (tok, r["mode"]))
        tail = suite.split("_")[-1]
        if r["mac"].startswith("HMAC-"):
            want = {"MD5": "HMAC-MD5", "SHA": "HMAC-SHA1", "SHA256": "HMAC-SHA256", "SHA384": "HMAC-SHA384", "SHA512": "HMAC-SHA512"}.get(tail)
            if want and want != r["mac"]:
                problems.append("MAC token %s vs %s" % (tail, r["mac"]))
    # key exchange: one of the tokens before _WITH_ (IANA writes both DHE_PSK and PSK_DHE)
    if "_WITH_" in n:
        toks = n.split("_WITH_")[0].replace("TLS_", "").split("_")
        if r["kx"] in ("DHE", "ECDHE", "ECDH", "DH", "RSA", "PSK", "KRB5", "SRP", "ECCPWD") and r["kx"] not in toks:
            problems.append("key-exchange %s is not a token of the name prefix %s" % (r["kx"], "_".join(toks)))
    return problems

def main():
    data_viol = []
    rows = rows_of(os.path.join(REPO, "scripts", "tls-ciphersuites.txt"))
    snap = {r["id"]: r for r in rows_of(os.path.join(VERIF, "oracles", "ciphersuites.snapshot"))}
    cur = {}
    for r in rows:
        if r["id"] in cur:
            data_viol.append("duplicate id 0x%04x in scripts/tls-ciphersuites.txt" % r["id"])
        cur[r["id"]] = r
    for i, sr in snap.items():
        if i not in cur:
            data_viol.append("IANA assignment 0x%04x %s present at the pinned commit has been removed" % (i, sr["name"]))
        elif cur[i] != sr:
            data_viol.append("IANA assignment 0x%04x %s altered: %s -> %s" % (i, sr["name"], sr, cur[i]))
    names = {}
    for r in rows:
        if r["name"] in names:
            data_viol.append("name %s listed twice" % r["name"])
        names[r["name"]] = r["id"]
        for p in name_tokens_ok(r):
            data_viol.append("0x%04x %s: %s" % (r["id"], r["name"], p))
        if r["mac"].startswith("HMAC-") and {"HMAC-MD5": 128, "HMAC-SHA1": 160, "HMAC-SHA256": 256, "HMAC-SHA384": 384, "HMAC-SHA512": 512}[r["mac"]] != r["macbits"]:
            data_viol.append("0x%04x %s: MAC bits %d do not match %s" % (r["id"], r["name"], r["macbits"], r["mac"]))
    out = ["// GENERATED by bin/gen_c12.py from /repo/scripts/tls-ciphersuites.txt (independent parser). Do not edit.",
           "use super::src::Src;", "use super::tp::*;", ""]
    out.append("pub fn listed(id: u16) -> bool { matches!(id, %s) }" % " | ".join("0x%04x" % r["id"] for r in rows))
    out.append("pub const N_ROWS: usize = %d;" % len(rows))
    # one symbolic-id harness: the registry entry for ANY listed id equals the row the txt lists for that id
    out.append("pub struct Row { pub kx: TlsCipherKx, pub au: TlsCipherAu, pub enc: TlsCipherEnc, pub mode: TlsCipherEncMode, pub bits: u16, pub mac: TlsCipherMac, pub macbits: u16, pub prf: TlsPRF, pub name_len: usize, pub mid: u8, pub last: u8 }")
    out.append("pub fn expected_row(id: u16) -> Option<Row> {")
    out.append("    Some(match id {")
    for r in rows:
        out.append("        0x%04x => Row { kx: TlsCipherKx::%s, au: TlsCipherAu::%s, enc: TlsCipherEnc::%s, mode: TlsCipherEncMode::%s, bits: %d, mac: TlsCipherMac::%s, macbits: %d, prf: TlsPRF::%s, name_len: %d, mid: %d, last: %d },"
                   % (r["id"], KX[r["kx"]], AU[r["au"]], ENC[r["enc"]], MODE[r["mode"]], r["bits"], MAC[r["mac"]], r["macbits"], PRF[r["prf"]], len(r["name"]), ord(r["name"][len(r["name"]) // 2]), ord(r["name"][-1])))
    out.append("        _ => return None,")
    out.append("    })")
    out.append("}")
    out.append("pub fn h_c12_rows<S: Src>(s: &mut S) {")
    out.append("    let id = s.u16();")
    out.append("    let c = CIPHERS.get(&id);")
    out.append("    match (expected_row(id), c) {")
    out.append("        (None, None) => {}")
    out.append('        (Some(w), Some(c)) => {')
    out.append('            vassert!(s, c.id.0 == id, "registry row carries the listed id");')
    out.append('            vassert!(s, c.kx == w.kx && c.au == w.au, "registry row carries the listed key exchange and authentication");')
    out.append('            vassert!(s, c.enc == w.enc && c.enc_mode == w.mode && c.enc_size == w.bits, "registry row carries the listed cipher, mode and key bits");')
    out.append('            vassert!(s, c.mac == w.mac && c.mac_size == w.macbits && c.prf == w.prf, "registry row carries the listed MAC, MAC bits and PRF");')
    out.append('            vassert!(s, c.name.len() == w.name_len && c.name.as_bytes()[w.name_len / 2] == w.mid && c.name.as_bytes()[w.name_len - 1] == w.last, "registry row carries its IANA name (length and two probe characters; full text: by-name stand-in)");')
    out.append('        }')
    out.append('        _ => vassert!(s, false, "registry contains exactly the listed suites"),')
    out.append("    }")
    out.append("}")
    out.append("harness!(fd_c12_rows, unwind = 2, h_c12_rows);")
    nh = 1
    _write_if_changed(os.path.join(VERIF, "kani", "pub_c12_rows.rs"), "\n".join(out) + "\n")
    g = ["// GENERATED by bin/gen_c12.py. Do not edit.", "pub const ROWS: &[(u16, &str)] = &["]
    for r in rows:
        g.append('    (0x%04x, "%s"),' % (r["id"], r["name"]))
    g.append("];")
    _write_if_changed(os.path.join(VERIF, "replay", "src", "gen_ciphers.rs"), "\n".join(g) + "\n")
    for d in data_viol:
        print("DATA-VIOLATION: " + d)
    print("gen_c12: %d rows, %d row harnesses" % (len(rows), nh))

if __name__ == "__main__":
    main()
