#!/usr/bin/env python3
"""Rewrite DESIGN.md section 10 (between the markers) from seeded/*/*/meta.json."""
import glob, json, os, re, collections
VERIF = os.path.dirname(os.path.dirname(os.path.abspath(__file__)))
per = collections.OrderedDict()
for f in sorted(glob.glob(os.path.join(VERIF, "seeded", "*", "*", "meta.json"))):
    m = json.load(open(f))
    for c, r in m.get("checks", {}).items():
        d = per.setdefault(m["property"], {"n": 0, "caught": 0, "verus": 0, "kani": 0, "standin": 0, "other": [], "obl": collections.Counter()})
        d["n"] += 1
        if r["verdict"] == "caught":
            d["caught"] += 1
            kinds = set()
            for x in r.get("failed_obligations", []):
                mm = re.search(r"(verus|kani|standin):([\w.]+)", x)
                if mm:
                    kinds.add(mm.group(1))
                    d["obl"]["%s:%s" % (mm.group(1), mm.group(2).split("::")[0])] += 1
            for k in kinds:
                d[k] += 1
        else:
            d["other"].append("%s %s" % (m["mutant"], r["verdict"]))
rows = ["| property | changes | caught | by a Verus obligation | by a Kani obligation | by a stand-in | units / harnesses that failed (count) |", "|---|---|---|---|---|---|---|"]
tot = [0, 0]
for p, d in per.items():
    tot[0] += d["n"]; tot[1] += d["caught"]
    rows.append("| %s | %d | %d%s | %d | %d | %d | %s |" % (p, d["n"], d["caught"], (" (" + ", ".join(d["other"]) + ")") if d["other"] else "", d["verus"], d["kani"], d["standin"],
                ", ".join("%s (%d)" % kv for kv in d["obl"].most_common(6))))
text = ("<!-- seeded:begin -->\n%d independently written changes (rounds 1-9), %d caught by the property's own quick check on the final machinery; "
        "every row of `seeded/README.md` names the failed obligation.\n\n" % (tot[0], tot[1])) + "\n".join(rows) + "\n<!-- seeded:end -->"
p = os.path.join(VERIF, "DESIGN.md")
s = open(p).read()
if "<!-- seeded:begin -->" in s:
    s = re.sub(r"<!-- seeded:begin -->.*?<!-- seeded:end -->", lambda _: text, s, flags=re.S)
else:
    s = s.replace("## 11. Considered and dropped", text + "\n\n## 11. Considered and dropped")
open(p, "w").write(s)
print(tot)
