#!/usr/bin/env python3
"""Write /verif/seeded/README.md from the meta.json files."""
import glob, json, os
VERIF = os.path.dirname(os.path.dirname(os.path.abspath(__file__)))
rows = []
for f in sorted(glob.glob(os.path.join(VERIF, "seeded", "*", "*", "meta.json"))):
    m = json.load(open(f))
    d = os.path.dirname(f)
    notes = open(os.path.join(d, "notes.md")).read() if os.path.exists(os.path.join(d, "notes.md")) else ""
    first = next((l.strip("-* ").strip() for l in notes.split("\n") if l.strip() and not l.startswith("#")), "")
    conf = m.get("confirmed", {})
    ok = all(conf.values()) if conf else False
    for c, r in m.get("checks", {}).items():
        ob = "; ".join(x.split(":")[0].replace("failed obligation ", "").replace("failed stand-in ", "")[:110] for x in r.get("failed_obligations", [])[:2])
        rows.append((m["property"], m["mutant"], "yes" if ok else "NO: %s" % conf, c, r["verdict"], ob, r.get("wall_s", ""), m.get("what", first)[:140]))
out = ["# Independently seeded property-breaking changes", "",
       "Each change was written by a fresh sub-agent that saw only the property text and a scratch worktree (nothing from /verif),",
       "was re-confirmed here (applies, the existing suite passes with it, its demonstration fails with it and passes without it)",
       "and then run against the property's quick check on a scratch clone carrying the change (`bin/eval_seed`).", "",
       "| property | change | confirmed | check | verdict | obligation(s) that failed | s | what the change does |", "|---|---|---|---|---|---|---|---|"]
for r in rows:
    out.append("| %s | %s | %s | %s | **%s** | %s | %s | %s |" % r)
open(os.path.join(VERIF, "seeded", "README.md"), "w").write("\n".join(out) + "\n")
print(len(rows), "rows")
