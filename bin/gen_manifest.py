#!/usr/bin/env python3
"""Regenerate /verif/MANIFEST.json from checks.py (keeps the manifest in sync with what bin/check does)."""
import json, os, subprocess, sys
VERIF = os.path.dirname(os.path.dirname(os.path.abspath(__file__)))
sys.path.insert(0, VERIF)
sys.path.insert(0, os.path.join(VERIF, "lib"))
import checks

props = [json.loads(l)["id"] for l in open(os.path.join(VERIF, "properties.jsonl"))]
hook_commits = getattr(checks, "HOOK_COMMITS", [])
m = {
    "version": 1,
    "setup_cmd": "./bin/setup",
    "hooks": {
        "guard": "cfg(kani)",
        "enable": "cargo kani passes --cfg kani to rustc; ordinary cargo build/test never sets it. The guarded lines pull /verif/kani/mod.rs into the crate so harnesses can reach pub(crate) items and stub callees by their defining-module path.",
        "baseline_off_cmd": "cd /repo && cargo test --workspace --no-fail-fast --offline",
        "source_commits": hook_commits,
        "add_only": True,
    },
    "engines": [
        {"name": "verus", "path": "/verif/verus", "serves_properties": sorted(p for p, c in checks.PROPS.items() if c.get("verus")),
         "kind_free_text": "contract-based deductive verification (Verus/Z3) of functions sliced mechanically out of /repo/src on every run, contracts spliced in; unbounded"},
        {"name": "kani", "path": "/verif/kani", "serves_properties": sorted(p for p, c in checks.PROPS.items() if c.get("kani")),
         "kind_free_text": "contracts (pre/post predicates) asserted on the real compiled crate by per-function Kani/CBMC harnesses over symbolic inputs; callers checked against contract stubs; full-domain harnesses are complete proofs, the others are contents-complete and length-bounded"},
        {"name": "replay", "path": "/verif/replay", "serves_properties": sorted(checks.PROPS), "kind_free_text": "normal-build crate that feeds a Kani counterexample back through the same contract code against the real tls-parser"},
    ],
    "checks": [],
    "not_applicable": [],
    "notes": "bin/check exit codes: 0 held, 1 VIOLATION, 2 undecided (timeout / anchor lost / tool limit; never an alarm). See DESIGN.md.",
}
for p in props:
    if p in checks.PROPS:
        c = checks.PROPS[p]
        m["checks"].append({
            "property_id": p,
            "quick_cmd": "./bin/check %s --tier quick" % p,
            "thorough_cmd": "./bin/check %s --tier thorough" % p,
            "evidence_file": "/verif/evidence/%s.json" % p,
            "replay_cmd_template": "./bin/check %s --replay {path}" % p,
            "engine": "+".join(e for e in ("verus", "kani") if c.get(e)),
            "level_claimed": {"category": c["level"], "text": c["level_text"], "design_ref": c.get("design_ref", "DESIGN.md section 4 " + p)},
            "level_note": c["level_note"],
            "technique": c["technique"],
        })
    else:
        m["not_applicable"].append({"property_id": p, "reason": checks.NOT_APPLICABLE.get(p, "not claimed yet: machinery for this property is still being built")})
json.dump(m, open(os.path.join(VERIF, "MANIFEST.json"), "w"), indent=1)
print("MANIFEST.json: %d checks, %d not_applicable" % (len(m["checks"]), len(m["not_applicable"])))
