// C08 oracle: the handshake transition table, written from the property statement.
// This text is in the Rust ∩ Verus-spec subset: it is compiled as ordinary Rust into the Kani
// harness / replay crate, and textually included as `open spec fn` into the Verus unit
// (lines starting with `use ` or `#[derive` are dropped there), so the oracle cannot drift.
use super::tp::TlsState;

#[derive(Clone, Copy, PartialEq, Eq, Debug)]
pub enum Kind {
    HelloRequest, ClientHelloSid, ClientHelloNoSid, ServerHello, ServerHelloV13Draft18,
    NewSessionTicket, EndOfEarlyData, HelloRetryRequest, Certificate, ServerKeyExchange,
    CertificateRequest, ServerDone, CertificateVerify, ClientKeyExchange, Finished,
    CertificateStatus, NextProtocol, KeyUpdate,
    Ccs, AlertWarning, AlertOther, AppData, Heartbeat,
}

// c = sent by the client (to_server == true), sv = sent by the server (to_server == false):
// every handshake message is accepted only from the peer that sends it.
pub fn hs_table(s: TlsState, k: Kind, to_server: bool) -> Option<TlsState> {
    let c = to_server;
    let sv = !to_server;
    match (s, k) {
        // start of every flow
        (TlsState::None, Kind::ClientHelloNoSid) => if c { Some(TlsState::ClientHello) } else { None },
        (TlsState::None, Kind::ClientHelloSid)   => if c { Some(TlsState::AskResumeSession) } else { None },
        // full handshake, server certificate, optional CertificateStatus
        (TlsState::ClientHello, Kind::ServerHello)            => if sv { Some(TlsState::ServerHello) } else { None },
        (TlsState::ServerHello, Kind::Certificate)            => if sv { Some(TlsState::Certificate) } else { None },
        (TlsState::Certificate, Kind::ServerKeyExchange)      => if sv { Some(TlsState::ServerKeyExchange) } else { None },
        (TlsState::Certificate, Kind::CertificateStatus)      => if sv { Some(TlsState::CertificateSt) } else { None },
        (TlsState::CertificateSt, Kind::ServerKeyExchange)    => if sv { Some(TlsState::ServerKeyExchange) } else { None },
        (TlsState::ServerKeyExchange, Kind::ServerDone)       => if sv { Some(TlsState::ServerHelloDone) } else { None },
        (TlsState::ServerHelloDone, Kind::ClientKeyExchange)  => if c  { Some(TlsState::ClientKeyExchange) } else { None },
        // client certificate requested
        (TlsState::Certificate, Kind::CertificateRequest)       => if sv { Some(TlsState::CRCertRequest) } else { None },
        (TlsState::ServerKeyExchange, Kind::CertificateRequest) => if sv { Some(TlsState::CRCertRequest) } else { None },
        (TlsState::CRCertRequest, Kind::ServerDone)             => if sv { Some(TlsState::CRHelloDone) } else { None },
        (TlsState::CRHelloDone, Kind::Certificate)              => if c  { Some(TlsState::CRCert) } else { None },
        (TlsState::CRCert, Kind::ClientKeyExchange)             => if c  { Some(TlsState::CRClientKeyExchange) } else { None },
        (TlsState::CRClientKeyExchange, Kind::CertificateVerify)=> if c  { Some(TlsState::CRCertVerify) } else { None },
        // anonymous server
        (TlsState::ServerHello, Kind::ServerKeyExchange)      => if sv { Some(TlsState::NoCertSKE) } else { None },
        (TlsState::NoCertSKE, Kind::ServerDone)               => if sv { Some(TlsState::NoCertHelloDone) } else { None },
        (TlsState::NoCertHelloDone, Kind::ClientKeyExchange)  => if c  { Some(TlsState::NoCertCKE) } else { None },
        // key exchange without ServerKeyExchange
        (TlsState::Certificate, Kind::ServerDone)             => if sv { Some(TlsState::PskHelloDone) } else { None },
        (TlsState::PskHelloDone, Kind::ClientKeyExchange)     => if c  { Some(TlsState::PskCKE) } else { None },
        // resumption and its fallback to a full handshake
        (TlsState::AskResumeSession, Kind::ServerHello)       => if sv { Some(TlsState::ResumeSession) } else { None },
        (TlsState::ResumeSession, Kind::Certificate)          => if sv { Some(TlsState::Certificate) } else { None },
        // TLS 1.3 draft 18 1-RTT
        (TlsState::ClientHello, Kind::ServerHelloV13Draft18)  => if sv { Some(TlsState::ClientChangeCipherSpec) } else { None },
        // post-CCS NewSessionTicket
        (TlsState::ClientChangeCipherSpec, Kind::NewSessionTicket) => if sv { Some(TlsState::ClientChangeCipherSpec) } else { None },
        // HelloRequest: ignored everywhere except at the start
        (TlsState::None, Kind::HelloRequest) => None,
        (_, Kind::HelloRequest) => Some(s),
        _ => None,
    }
}

pub fn table(s: TlsState, k: Kind, to_server: bool) -> Option<TlsState> {
    match s {
        // absorbing states never error; Finished always moves to Invalid
        TlsState::Invalid => Some(TlsState::Invalid),
        TlsState::SessionEncrypted => Some(TlsState::SessionEncrypted),
        TlsState::Finished => Some(TlsState::Invalid),
        _ => match k {
            Kind::Ccs => match s {
                TlsState::ClientKeyExchange | TlsState::CRClientKeyExchange | TlsState::CRCertVerify
                | TlsState::NoCertCKE | TlsState::PskCKE | TlsState::ResumeSession => Some(TlsState::ClientChangeCipherSpec),
                TlsState::ClientChangeCipherSpec => if !to_server { Some(TlsState::SessionEncrypted) } else { None },
                // 0-RTT ChangeCipherSpec from the client
                TlsState::AskResumeSession => if to_server { Some(TlsState::AskResumeSession) } else { None },
                _ => None,
            },
            Kind::AlertWarning => Some(s),
            Kind::AlertOther => Some(TlsState::Finished),
            Kind::AppData | Kind::Heartbeat => None,
            _ => hs_table(s, k, to_server),
        },
    }
}
